"""C13 — a service is accepted exactly when its worst channel clears the mode's threshold.

Ties (DESIGN §7 C13):
  * corr:Verdict.update_snr     random receivers x random histories of update_snr calls (scalars, per-channel arrays,
                                None, wrong shapes) through the real Transceiver.update_snr and the Gallina model
                                (linear-inverse units; the dB <-> linear conversions are done here with math.*).
  * corr:Verdict.calc_penalties random penalty lists through json_io.Transceiver (normalisation at load) +
                                Transceiver.calc_penalties vs Verdict.normalise / interp / total_pen.
  * corr:Verdict.decision       whole decisions of compute_path_with_disjunction (fixed mode, automatic mode, uni/bidir) on
                                random small networks x random transceiver libraries vs the model fed with receiver figures
                                obtained from FRESH, independent propagations of every (baud rate, offset) iteration.
  * oracle (implementation's own observations): receiver GSNR = line GSNR + add + drop + tx noise counted once;
    verdict consistent with the figures the result carries; an impairment outside the penalty table blocks; the figures
    used inside the mode loop are those of a fresh propagation (no state carried from one iteration to the next), every
    mode is judged on the propagation of its own (baud rate, offset), and the returned path carries the amplifier state
    of the deciding propagation only.
The for-all part is Props/C13.v.
"""
import copy
import glob
import json
import logging
import math
import os
from fractions import Fraction

from . import common
from .common import zlit, listlit

LOG10_2 = 10 * math.log10(2)
F0 = 191.3e12
_BASE = None


# ------------------------------------------------------------------ literals / parsing
def fl(x):
    """exact Gallina Q literal of a float / int:  fq mantissa exponent"""
    if isinstance(x, int):
        return f'(fq {zlit(x)} 0)'
    n, d = float(x).as_integer_ratio()
    return f'(fq {zlit(n)} {zlit(-(d.bit_length() - 1))})'


def fll(xs):
    return listlit([fl(float(x)) for x in xs])


def pq(s):
    """parse the model's  num/den"""
    n, d = s.split('/')
    return Fraction(int(n), int(d))


def inv(db):
    """1/linear of a dB value (independent of gnpy.core.utils)"""
    if db == math.inf:
        return 0.0
    return math.pow(10.0, -db / 10.0)


def to_db(x):
    x = float(x)
    return math.inf if x == 0 else -10.0 * math.log10(x)


def close_db(a, b, tol=1e-9):
    if math.isinf(a) or math.isinf(b):
        return a == b
    return abs(a - b) <= tol * max(1.0, abs(a), abs(b))


# ------------------------------------------------------------------ A. update_snr histories
def gen_upd(rng):
    nch = rng.randint(1, 5)
    def raw():
        return [math.inf if rng.random() < 0.04 else round(rng.uniform(5, 50), rng.choice([1, 3, 6])) for _ in range(nch)]
    bauds = [rng.choice([28e9, 32e9, 44e9, 64e9, 12.5e9]) for _ in range(nch)]
    if rng.random() < 0.5:
        bauds = [bauds[0]] * nch
    hist = []
    for _ in range(rng.randint(1, 4)):
        args = []
        for _ in range(rng.choice([0, 1, 1, 2, 3, 4])):
            r = rng.random()
            if r < 0.2:
                args.append(None)
            elif r < 0.6:
                args.append(round(rng.uniform(20, 60), 2))
            elif r < 0.97 or nch == 1:
                args.append([round(rng.uniform(20, 60), 2) for _ in range(nch)])
            else:
                args.append([40.0] * (nch + 1))                         # cannot be broadcast
        hist.append(args)
    return {'kind': 'upd', 'baud': bauds, 'raw': [raw(), raw(), raw(), raw()], 'hist': hist}


def drive_upd(case):
    import numpy as np
    from gnpy.core.elements import Transceiver
    names = ['raw_osnr_ase', 'raw_snr', 'raw_osnr_ase_01nm', 'raw_snr_01nm']
    cur = ['osnr_ase', 'snr', 'osnr_ase_01nm', 'snr_01nm']

    def mk():
        t = Transceiver(uid='rx')
        t.baud_rate = np.array(case['baud'])
        for n, c, v in zip(names, cur, case['raw']):
            setattr(t, n, np.array(v))
            setattr(t, c, np.array(v))
        return t

    def call(t, args):
        a = [None if x is None else (np.array(x) if isinstance(x, list) else x) for x in args]
        with np.errstate(divide='ignore'):
            t.update_snr(*a)
    t = mk()
    try:
        for args in case['hist']:
            call(t, args)
    except ValueError:
        return {'exc': 'ValueError'}
    out = {'cur': [[float(x) for x in np.broadcast_to(getattr(t, c), (len(case['baud']),))] for c in cur],
           'raw': [[float(x) for x in getattr(t, n)] for n in names]}
    t2 = mk()
    call(t2, case['hist'][-1])
    out['last_only'] = [[float(x) for x in np.broadcast_to(getattr(t2, c), (len(case['baud']),))] for c in cur]
    return out


def term_upd(case):
    chans = []
    for k, b in enumerate(case['baud']):
        chans.append('rxc ' + ' '.join([fl(b)] + [fl(inv(case['raw'][j][k])) for j in range(4)]))
    hist = []
    for args in case['hist']:
        l = []
        for a in args:
            if a is None:
                l.append('None')
            elif isinstance(a, list):
                l.append(f'Some (Arr {listlit([fl(inv(x)) for x in a])})')
            else:
                l.append(f'Some (Scalar {fl(inv(a))})')
        hist.append(listlit(l))
    return f'upd_case {listlit(chans)} {listlit(hist)}'


def judge_upd(ctx, case, impl, model):
    if 'exc' not in impl:
        _upd_oracles(ctx, case, impl)
    if 'exc' in impl or model.startswith('E:'):
        if ('exc' in impl) != model.startswith('E:') or (model.startswith('E:') and model[2:].split(':')[0] != impl.get('exc')):
            ctx.corr_break('corr:Verdict.update_snr', 'exception mismatch', case, impl=impl, model=model)
        return
    rows = [r.split(',') for r in model.split('|')]
    for k, row in enumerate(rows):
        for j in range(4):
            a, b = impl['cur'][j][k], to_db(pq(row[j]))
            if not close_db(a, b):
                ctx.corr_break('corr:Verdict.update_snr', f'channel {k} figure {j}: impl {a} dB, model {b} dB', case,
                               impl=a, model=b)
                return


def _upd_oracles(ctx, case, impl):
    # oracle on the implementation alone: raw figures untouched, no accumulation over the history
    if impl['raw'] != case['raw']:
        ctx.violation('raw_figures_modified', 'update_snr changed the raw (line only) figures', case)
    for j in range(4):
        for a, b in zip(impl['cur'][j], impl['last_only'][j]):
            if not close_db(a, b, 1e-12):
                ctx.violation('update_snr_accumulates',
                              f'figures after the history differ from those of the last call alone: {a} vs {b}', case)
                return


# ------------------------------------------------------------------ B. penalties
IMPS = ('chromatic_dispersion', 'pmd', 'pdl')


def gen_table(rng, scale):
    """raw penalty points of one impairment as listed in an equipment file (unsorted, with or without a 0 point)"""
    r = rng.random()
    if r < 0.15:
        return []
    n = rng.randint(1, 4)
    xs = sorted({round(rng.uniform(0.05, 1.0) * scale, 3) for _ in range(n)})
    if rng.random() < 0.2:
        xs = [0.0] + xs
    elif rng.random() < 0.1:
        xs = [-round(0.2 * scale, 3)] + xs
    pts = [[x, round(rng.uniform(0, 3), 2)] for x in xs]
    if rng.random() < 0.08 and pts:
        pts.append([pts[-1][0], round(rng.uniform(0, 3), 2)])         # duplicated abscissa
    rng.shuffle(pts)
    return pts


def raw_penalties(tabs):
    out = []
    for imp, pts in zip(IMPS, tabs):
        out += [{imp: x, 'penalty_value': y} for x, y in pts]
    return out


def gen_pen(rng):
    scales = [rng.choice([4000, 40000]), rng.choice([10, 30]), rng.choice([1, 3])]
    tabs = [gen_table(rng, s) for s in scales]
    nch = rng.randint(1, 6)
    vals = []
    for s, t in zip(scales, tabs):
        v = []
        for _ in range(nch):
            r = rng.random()
            if t and r < 0.35:
                v.append(rng.choice(t)[0])                                  # exactly on a breakpoint
            elif r < 0.45:
                v.append(0.0)
            elif r < 0.55:
                v.append(-round(rng.uniform(0, 0.3) * s, 3))
            else:
                v.append(round(rng.uniform(0, 1.2) * s, 4))
        vals.append(v)
    # the receiver may have served another mode just before (mode loop): its tables list other impairments
    prev = [gen_table(rng, sc) for sc in scales] if rng.random() < 0.5 else None
    return {'kind': 'pen', 'tabs': tabs, 'vals': vals, 'prev': prev}


def load_mode(tabs, **kw):
    """one mode through json_io.Transceiver (the normalisation at load)"""
    from gnpy.tools.json_io import Transceiver as TrxEq
    m = {'format': 'm', 'baud_rate': 32e9, 'OSNR': 11, 'bit_rate': 100e9, 'roll_off': 0.15, 'tx_osnr': 40,
         'min_spacing': 37.5e9, 'cost': 1}
    m.update(kw)
    rp = raw_penalties(tabs)
    if rp:
        m['penalties'] = rp
    t = TrxEq(type_variety='T', frequency={'min': F0, 'max': F0 + 1e12}, mode=[m])
    return t.mode[0]


def drive_pen(case):
    import numpy as np
    from gnpy.core.elements import Transceiver
    mode = load_mode(case['tabs'])
    pen = mode['penalties']
    norm = []
    for imp in IMPS:
        if imp in pen:
            norm.append(list(zip(map(float, pen[imp]['up_to_boundary']), map(float, pen[imp]['penalty_value']))))
        else:
            norm.append(None)
    def fresh():
        t = Transceiver(uid='rx')
        t.chromatic_dispersion, t.pmd, t.pdl = (np.array(v) for v in case['vals'])
        return t
    n = len(case['vals'][0])
    t = fresh()
    if case.get('prev'):
        t.calc_penalties(load_mode(case['prev'])['penalties'])
    t.calc_penalties(pen)
    tot = np.broadcast_to(t.total_penalty, (n,))
    t0 = fresh()
    t0.calc_penalties(pen)
    return {'norm': norm, 'total': [float(x) for x in tot], 'keys': sorted(t.penalties),
            'total_fresh': [float(x) for x in np.broadcast_to(t0.total_penalty, (n,))]}


def tab_lit(pts):
    return listlit([f'({fl(float(x))}, {fl(float(y))})' for x, y in pts])


def tabs_lit(tabs):
    return '(tb ' + ' '.join(tab_lit(t) for t in tabs) + ')'


def term_pen(case):
    return f"pen_case {tabs_lit(case['tabs'])} {fll(case['vals'][0])} {fll(case['vals'][1])} {fll(case['vals'][2])}"


def judge_pen(ctx, case, impl, model):
    _pen_oracles(ctx, case, impl)
    parts = model.split('#')
    for j in range(3):
        if parts[j] == '-':
            mt = None
        else:
            mt = [tuple(pq(x) for x in p.split(':')) for p in parts[j].split(';')]
        it = impl['norm'][j]
        if (mt is None) != (it is None) or (mt is not None and [(Fraction(a), Fraction(b)) for a, b in it] != mt):
            ctx.corr_break('corr:Verdict.normalise', f'{IMPS[j]}: normalised table differs', case, impl=it, model=parts[j])
            return
    mp = parts[3].split(',')
    for k, (a, b) in enumerate(zip(impl['total'], mp)):
        bv = math.inf if b == 'inf' else float(pq(b))
        if not close_db(a, bv):
            ctx.corr_break('corr:Verdict.calc_penalties', f'channel {k}: impl {a}, model {bv}', case, impl=a, model=bv)
            return


def _pen_oracles(ctx, case, impl):
    """the property on the implementation's own result (independent of the model comparison)"""
    # oracle: the tables kept at load are the listed ones: every listed impairment, every listed point (+ at most (0,0))
    for j in range(3):
        raw, it = case['tabs'][j], impl['norm'][j]
        if bool(raw) != (it is not None):
            ctx.violation('normalisation_drops_impairment',
                          f'{IMPS[j]}: {len(raw)} point(s) listed in the equipment file, table after load: {it}', case)
            return
        if raw:
            rest = list(it)
            for x, y in raw:
                if (float(x), float(y)) in rest:
                    rest.remove((float(x), float(y)))
                else:
                    rest = None
                    break
            # a (0, 0) point is added exactly when EVERY listed abscissa is > 0 (wherever the non-positive one is listed)
            want_rest = [(0.0, 0.0)] if all(float(x) > 0 for x, _ in raw) else []
            if rest is None or rest != want_rest:
                ctx.violation('normalisation_changes_points', f'{IMPS[j]}: listed {raw}, loaded {it}', case)
                return
            if [a for a, _ in it] != sorted(a for a, _ in it):
                ctx.violation('normalisation_not_sorted', f'{IMPS[j]}: loaded table {it} is not sorted by impairment value', case)
                return
    # oracle: the penalties of the receiver are those of the tables just applied, whatever it served before
    want = sorted(imp for imp, t in zip(IMPS, case['tabs']) if t)
    if impl['keys'] != want:
        ctx.violation('stale_penalty_entries', f'receiver penalties {impl["keys"]} after calc_penalties with tables for {want} '
                      f'(previous tables: {case.get("prev")})', case)
        return
    if any(not close_db(a, b, 1e-12) for a, b in zip(impl['total'], impl['total_fresh'])):
        ctx.violation('penalty_depends_on_previous_mode', f'total penalty {impl["total"]} after a previous mode, '
                      f'{impl["total_fresh"]} on a fresh receiver', case)
        return
    # oracle: a value outside [first, last] listed boundary gives an infinite penalty
    for j in range(3):
        if impl['norm'][j] is None:
            continue
        lo, hi = impl['norm'][j][0][0], impl['norm'][j][-1][0]
        for k, v in enumerate(case['vals'][j]):
            if (v < lo or v > hi) and impl['total'][k] != math.inf:
                ctx.violation('penalty_outside_finite', f'{IMPS[j]}={v} outside [{lo},{hi}] but total penalty {impl["total"][k]}', case)
                return


# ------------------------------------------------------------------ C. environments (equipment + designed network)
def base_json():
    global _BASE
    if _BASE is None:
        from pathlib import Path
        import gnpy
        from gnpy.tools.json_io import load_json
        logging.disable(logging.CRITICAL)
        _BASE = load_json(Path(gnpy.__file__).parent / 'example-data' / 'eqpt_config.json')
    return _BASE


AMP_SHAPES = [(26, 15, 6, 10), (16, 8, 6.5, 11), (35, 25, 5.5, 7)]


def gen_env(rng, nmax=4, nch_max=12):
    n = rng.choice([2, 2, 3, 3, 4][:max(1, nmax)])
    lines = []
    for i in range(n - 1):
        ab = [round(rng.uniform(20, 110), 1) for _ in range(rng.choice([1, 1, 2, 3]))]
        ba = [round(rng.uniform(20, 110), 1) for _ in range(rng.choice([1, 1, 2, 3]))]
        lines.append([chr(65 + i), chr(66 + i), ab, ba])
    if n >= 3 and rng.random() < 0.4:                               # close the ring: two routes
        lines.append([chr(65), chr(65 + n - 1), [round(rng.uniform(20, 110), 1)], [round(rng.uniform(20, 110), 1)]])
    return {'nsites': n, 'lines': lines, 'nch': rng.randint(5, nch_max), 'margin': rng.choice([0, 1, 2, 2.5]),
            'only_custom_amps': rng.random() < 0.75,
            'pmax': [rng.choice([6, 8, 10, 12, 14, 17, 21]) for _ in AMP_SHAPES],
            'add_drop_osnr': rng.choice([30, 33, 38, 45]), 'roadm_pmd': rng.choice([0, 1e-12, 3e-12]),
            'roadm_pdl': rng.choice([0, 0.5, 1.5]), 'roadm_target': rng.choice([-20, -20, -18, -23]),
            'fibers': gen_fibers(rng), 'span_types': [rng.randrange(3) for _ in range(8)],
            'roadm_profile': gen_roadm_profile(rng), 'roadm_sites': [rng.random() < 0.5 for _ in range(n)]}


def gen_roadm_profile(rng):
    """a ROADM type with per-path impairment profiles (roadm-osnr per frequency range for add / drop / express paths);
    None = only the default add_drop_osnr model"""
    if rng.random() < 0.45:
        return None
    split = F0 + rng.choice([0.12e12, 0.21e12, 0.33e12])

    def osnr_pair(p_none):
        if rng.random() < p_none:
            return None
        a = rng.choice([30, 35, 41, 45])
        return [a, a if rng.random() < 0.4 else rng.choice([28, 33, 38, 43])]
    return {'split': split, 'add_drop_osnr': rng.choice([32, 36, 40]),
            'add': osnr_pair(0.2) if rng.random() < 0.85 else 'absent',
            'drop': osnr_pair(0.2) if rng.random() < 0.85 else 'absent',
            'express': osnr_pair(0.6) if rng.random() < 0.8 else 'absent'}


DPF_FREQ = [190.9e12, 191.3e12, 191.45e12, 191.6e12, 191.75e12, 191.95e12, 192.2e12, 196.7e12]


def gen_fibers(rng):
    """three fibre types per environment: plain SSMF, one with a dispersion slope (CD differs from channel to channel,
    monotonically), one with a tabulated dispersion per frequency (any profile over the band)"""
    r = rng.random()
    if r < 0.35:
        return [{'kind': 'flat'}, {'kind': 'flat'}, {'kind': 'flat'}]
    slope = rng.choice([-1, 1]) * rng.choice([58.0, 90.0, 300.0, 1500.0])
    vals = [round(rng.uniform(1.2e-5, 2.2e-5), 8) for _ in DPF_FREQ]
    return [{'kind': 'flat'}, {'kind': 'slope', 'slope': slope}, {'kind': 'dpf', 'values': vals}]


def eqpt_json(env, modes):
    e = copy.deepcopy(base_json())
    si = e['SI'][0]
    si['f_min'] = F0
    si['f_max'] = F0 + (env['nch'] + 0.5) * 50e9
    si['sys_margins'] = env['margin']
    for a in e['Edfa']:
        if a.get('allowed_for_design'):
            a['allowed_for_design'] = not env['only_custom_amps']
    for k, ((gmax, gmin, nfmin, nfmax), pmax) in enumerate(zip(AMP_SHAPES, env['pmax'])):
        e['Edfa'].append({'type_variety': f'vg{k}', 'type_def': 'variable_gain', 'gain_flatmax': gmax, 'gain_min': gmin,
                          'p_max': pmax, 'nf_min': nfmin, 'nf_max': nfmax, 'out_voa_auto': False,
                          'allowed_for_design': True})
    r = e['Roadm'][0]
    r['add_drop_osnr'] = env['add_drop_osnr']
    r['pmd'] = env['roadm_pmd']
    r['pdl'] = env['roadm_pdl']
    r['target_pch_out_db'] = env['roadm_target']
    prof = env.get('roadm_profile')
    if prof:
        def ranges(pair, extra):
            out = []
            for (lo, hi), v in zip(((191.2e12, prof['split']), (prof['split'], 196.2e12)), pair or [None, None]):
                item = {'frequency-range': {'lower-frequency': lo, 'upper-frequency': hi}, 'roadm-pmd': env['roadm_pmd'],
                        'roadm-cd': 0, 'roadm-pdl': env['roadm_pdl'], 'roadm-inband-crosstalk': 0}
                item.update(extra)
                if v is not None:
                    item['roadm-osnr'] = v
                out.append(item)
            return out
        imps = []
        for k, (name, key, extra) in enumerate((('express', 'roadm-express-path', {'roadm-maxloss': 16.5}),
                                                ('add', 'roadm-add-path', {'roadm-maxloss': 11.5}),
                                                ('drop', 'roadm-drop-path', {'roadm-maxloss': 11.5}))):
            if prof[name] != 'absent':
                imps.append({'roadm-path-impairments-id': k, key: ranges(prof[name], extra)})
        e['Roadm'].append({'type_variety': 'rimp', 'target_pch_out_db': env['roadm_target'],
                           'add_drop_osnr': prof['add_drop_osnr'], 'pmd': env['roadm_pmd'], 'pdl': env['roadm_pdl'],
                           'restrictions': {'preamp_variety_list': [], 'booster_variety_list': []},
                           'roadm-path-impairments': imps})
    e['Transceiver'] = [{'type_variety': 'T', 'frequency': {'min': F0, 'max': F0 + (env['nch'] + 0.5) * 50e9},
                         'mode': copy.deepcopy(modes)}]
    return e


def fiber_params(env, n):
    """extra element parameters of span number n: dispersion slope / tabulated dispersion (element level in gnpy)"""
    fibers, types = env.get('fibers') or [], env.get('span_types') or []
    if not fibers or not types:
        return {}
    f = fibers[types[n % len(types)]]
    if f['kind'] == 'slope':
        return {'dispersion_slope': f['slope']}
    if f['kind'] == 'dpf':
        return {'dispersion_per_frequency': {'value': f['values'], 'frequency': DPF_FREQ}}
    return {}


def topo_json(env):
    els, cx = [], []
    nspan = 0
    for i in range(env['nsites']):
        x = chr(65 + i)
        ro = {'uid': f'roadm {x}', 'type': 'Roadm'}
        if env.get('roadm_profile') and (env.get('roadm_sites') or [])[i:i + 1] == [True]:
            ro['type_variety'] = 'rimp'
        els += [{'uid': f'trx {x}', 'type': 'Transceiver'}, ro]
        cx += [(f'trx {x}', f'roadm {x}'), (f'roadm {x}', f'trx {x}')]
    for (a, b, ab, ba) in env['lines']:
        for (s, t, sp) in ((a, b, ab), (b, a, ba)):
            prev = f'roadm {s}'
            for k, ln in enumerate(sp):
                fu = f'fiber {s}{t}_{k}'
                els.append({'uid': fu, 'type': 'Fiber', 'type_variety': 'SSMF',
                            'params': dict({'length': ln, 'length_units': 'km', 'loss_coef': 0.2, 'con_in': None,
                                            'con_out': None}, **fiber_params(env, nspan))})
                nspan += 1
                cx.append((prev, fu))
                prev = fu
            cx.append((prev, f'roadm {t}'))
    return {'elements': els, 'connections': [{'from_node': a, 'to_node': b} for a, b in cx]}


DUMMY_MODE = {'format': 'dummy', 'baud_rate': 32e9, 'OSNR': 11, 'bit_rate': 100e9, 'roll_off': 0.15, 'tx_osnr': 40,
              'min_spacing': 37.5e9, 'cost': 1}


class Env:
    """equipment + auto-designed network of an environment description"""

    def __init__(self, env, modes=None):
        from gnpy.tools.json_io import _equipment_from_json, network_from_json
        from gnpy.tools.default_edfa_config import DEFAULT_EXTRA_CONFIG
        from gnpy.tools.worker_utils import designed_network
        from gnpy.topology.spectrum_assignment import build_oms_list
        logging.disable(logging.CRITICAL)
        self.env = env
        self.cache = {}
        self._paths = []
        if env.get('multiband'):
            # the shipped multiband example (C+L line amplifiers of type Multiband_amplifier), with the library of the case
            from pathlib import Path
            import gnpy
            from gnpy.tools.json_io import load_json
            d = Path(gnpy.__file__).parent / 'example-data'
            ej = load_json(d / 'eqpt_config_multiband.json')
            ej['SI'][0]['sys_margins'] = env['margin']
            ej['Transceiver'] = [{'type_variety': 'T', 'frequency': {'min': env['f_min'], 'max': env['f_max']},
                                  'mode': copy.deepcopy(modes or [DUMMY_MODE])}]
            extra = {'std_medium_gain_advanced_config.json': load_json(d / 'std_medium_gain_advanced_config.json')}
            self.eq = _equipment_from_json(ej, extra)
            net = network_from_json(load_json(d / 'multiband_example_network.json'), self.eq)
            self.net, _, _ = designed_network(self.eq, net)
            self.oms = build_oms_list(self.net, self.eq)
            return
        self.eq = _equipment_from_json(eqpt_json(env, modes or [DUMMY_MODE]), DEFAULT_EXTRA_CONFIG)
        net = network_from_json(topo_json(env), self.eq)
        self.net, _, _ = designed_network(self.eq, net)
        self.oms = build_oms_list(self.net, self.eq)

    def set_modes(self, modes):
        from gnpy.tools.json_io import Transceiver as TrxEq
        fr = {'min': self.env['f_min'], 'max': self.env['f_max']} if self.env.get('multiband') else \
            {'min': F0, 'max': F0 + (self.env['nch'] + 0.5) * 50e9}
        self.eq['Transceiver']['T'] = TrxEq(type_variety='T', frequency=fr, mode=copy.deepcopy(modes))

    def lib(self):
        return self.eq['Transceiver']['T'].mode


def request_json(rid, src, dst, mode, spacing, bidir, tx_power=None, power=None, bandwidth=100e9, nch=None):
    te = {'technology': 'flexi-grid', 'trx_type': 'T', 'trx_mode': mode, 'spacing': spacing,
          'path_bandwidth': bandwidth, 'max-nb-of-channel': nch, 'output-power': power}
    if tx_power is not None:
        te['tx_power'] = tx_power
    return {'request-id': str(rid), 'source': f'trx {src}', 'destination': f'trx {dst}', 'src-tp-id': f'trx {src}',
            'dst-tp-id': f'trx {dst}', 'bidirectional': bidir, 'path-constraints': {'te-bandwidth': te}}


def fresh_propagation(E, path, req, br, off, roll_off, spectrum=None):
    E._paths.append(path)
    key = (id(path), float(br), float(off), roll_off, req.spacing, req.tx_power, id(spectrum) if spectrum else None)
    if key not in E.cache:
        E.cache[key] = _fresh_propagation(E, path, req, br, off, roll_off, spectrum)
    return E.cache[key]


def _fresh_propagation(E, path, req, br, off, roll_off, spectrum=None):
    """independent propagation of one (baud rate, offset) on a private copy of the designed path; returns the receiver's
    raw (line only) GSNR in 0.1 nm and impairments, plus what the crossed ROADMs say about their add/drop OSNR"""
    import numpy as np
    from gnpy.core.info import create_input_spectral_information
    from gnpy.core.elements import Roadm, Edfa
    from gnpy.topology.request import filter_si
    p = copy.deepcopy(path)
    if spectrum:
        # user-defined initial spectrum: the comb is the one the partitions describe (mode baud rate / offset not used)
        from gnpy.core.info import carriers_to_spectral_information
        si = carriers_to_spectral_information(initial_spectrum=spectrum, power=req.power)
    else:
        si = create_input_spectral_information(f_min=req.f_min, f_max=req.f_max, roll_off=roll_off, baud_rate=br,
                                               spacing=req.spacing, tx_osnr=None, tx_power=req.tx_power, delta_pdb=off)
    si = filter_si(p, E.eq, si)
    clamped = False
    for i, el in enumerate(p):
        if isinstance(el, Roadm):
            si = el(si, degree=p[i + 1].uid, from_degree=p[i - 1].uid)
        else:
            g0 = el.effective_gain if isinstance(el, Edfa) else None
            si = el(si)
            if g0 is not None and el.effective_gain < g0 - 1e-12:
                clamped = True
    rx = p[-1]
    return {'raw01': [float(x) for x in rx.raw_snr_01nm], 'cd': [float(x) for x in rx.chromatic_dispersion],
            'pmd': [float(x) for x in rx.pmd], 'pdl': [float(x) for x in rx.pdl], 'clamped': clamped,
            'gains': {el.uid: float(el.effective_gain) for el in p if isinstance(el, Edfa)}}


def channel_freqs(req):
    """centre frequencies of the request's comb: f_min + k * spacing, k = 1 .. floor((f_max - f_min) / spacing)"""
    n = int((req.f_max - req.f_min) // req.spacing)
    return [req.f_min + req.spacing * k for k in range(1, n + 1)]


def add_drop_contrib(E, path, freqs):
    """per channel, the 1/linear noise the crossed ROADMs add, from the equipment DESCRIPTION (not from the code under
    test): the first ROADM of a path is crossed on its add path, the last on its drop path, the others express.  A ROADM
    of the default type is worth add_drop_osnr + 10log10(2) dB on add and drop and nothing on express; a ROADM with
    per-path impairment profiles is worth the roadm-osnr of the first frequency range of that path type that contains
    the channel (nothing when the profile gives none; the default model when the type has no profile for the path)"""
    from gnpy.core.elements import Roadm
    roadms = [el for el in path if isinstance(el, Roadm)]
    if len(roadms) < 2:
        return None
    prof = E.env.get('roadm_profile')
    sites = E.env.get('roadm_sites') or []
    tot = [0.0] * len(freqs)
    for k, ro in enumerate(roadms):
        kind = 'add' if k == 0 else 'drop' if k == len(roadms) - 1 else 'express'
        name = ro.uid.split()[-1]
        idx = ord(name) - 65 if len(name) == 1 else len(sites)
        rimp = bool(prof) and idx < len(sites) and sites[idx]
        if rimp and prof[kind] != 'absent':
            pair = prof[kind]
            if pair is None:
                continue
            for c, f in enumerate(freqs):
                tot[c] += inv(pair[0] if f <= prof['split'] else pair[1])
        elif kind != 'express':
            ad = prof['add_drop_osnr'] if rimp else E.env['add_drop_osnr']
            for c in range(len(freqs)):
                tot[c] += inv(ad + LOG10_2)
    return tot


def rx_g01(raw01, contrib, tx_osnr):
    """receiver GSNR (0.1 nm, dB): line + ROADM stages + transmitter, each once; tx_osnr is the mode's value or, with a
    user-defined spectrum, one value per channel (each channel counts ITS OWN transmitter)"""
    tx = tx_osnr if isinstance(tx_osnr, list) else [tx_osnr] * len(raw01)
    return [to_db(inv(r) + c + inv(t)) for r, c, t in zip(raw01, contrib, tx)]


def gen_spectrum(rng, env):
    """partitions of a user-defined initial spectrum inside the band (as the transmission example / worker_utils take
    them): 1-3 partitions with their own slot width, baud rate, power offset, transmitter power and transmitter OSNR"""
    hi = F0 + (env['nch'] + 0.5) * 50e9
    cursor = F0 + 25e9
    parts = []
    for _ in range(rng.choice([1, 2, 2, 3])):
        slot = rng.choice([37.5e9, 50e9, 50e9, 75e9])
        n = rng.randint(1, 4)
        while n > 0 and cursor + n * slot > hi:
            n -= 1
        if n == 0:
            break
        f_min = cursor + slot / 2
        parts.append({'f_min': f_min, 'f_max': f_min + (n - 1) * slot, 'baud_rate': rng.choice([b for b in BAUDS if b * 1.15 <= slot]),
                      'slot_width': slot, 'roll_off': 0.15, 'delta_pdb': rng.choice([0, 0, 1, -1, 3]),
                      'tx_osnr': rng.choice([24, 30, 35, 40, 45]), 'tx_power_dbm': rng.choice([0, 0, -3, 2])})
        cursor = f_min + (n - 1) * slot + slot / 2 + rng.choice([0, 0, 12.5e9])
    if sum(int(round((p_['f_max'] - p_['f_min']) / p_['slot_width'])) + 1 for p_ in parts) < 2:
        return None
    return parts


def metric_py(g01, tot_pen):
    import numpy as np
    with np.errstate(invalid='ignore'):
        return float(min(np.array(g01) - np.array(tot_pen)))


def rx_snapshot(rx):
    import numpy as np
    n = len(rx.snr_01nm)
    return {'g01': [float(x) for x in rx.snr_01nm], 'raw01': [float(x) for x in rx.raw_snr_01nm],
            'pen': [float(x) for x in np.broadcast_to(rx.total_penalty, (n,))],
            'cd': [float(x) for x in rx.chromatic_dispersion], 'pmd': [float(x) for x in rx.pmd],
            'pdl': [float(x) for x in rx.pdl]}


# ------------------------------------------------------------------ amplifier state tracer (shared with C16)
class AmpTracer:
    """records, per Edfa OBJECT, what happens to it while requests are computed: S = propagate_and_optimize_mode entered
    with this amplifier on its path (the designed gains are recorded there), R = a (baud, offset) iteration starts (they are
    written back), P = the amplifier propagates a spectrum (total input power pin_db, effective gain afterwards).
    The events come from the call structure, never from the gain values; the model predicts every gain from the designed
    gain of the network element, p_max and the input powers."""

    def __init__(self, net):
        import gnpy.core.elements as elements
        self.designed = {el.uid: (float(el.effective_gain), float(el.params.p_max)) for el in net.nodes()
                         if isinstance(el, elements.Edfa)}
        self.traces = {}
        self.keep = []
        self.loop = None

    def _tr(self, amp):
        t = self.traces.get(id(amp))
        if t is None:
            self.keep.append(amp)
            g0, pmax = self.designed.get(amp.uid, (None, None))
            t = self.traces[id(amp)] = {'uid': amp.uid, 'g0': g0, 'pmax': pmax, 'events': [], 'gains': [], 'before': []}
        return t

    def __enter__(self):
        import gnpy.core.elements as elements
        import gnpy.topology.request as rq
        self._el, self._rq = elements, rq
        self._call, self._pom, self._ci = elements.Edfa.__call__, rq.propagate_and_optimize_mode, \
            rq.create_input_spectral_information
        tracer = self

        def call(amp, si):
            before = float(amp.effective_gain)
            out = tracer._call(amp, si)
            t = tracer._tr(amp)
            t['events'].append(['P', float(amp.pin_db)])
            t['gains'].append(float(amp.effective_gain))
            t['before'].append(before)
            return out

        def pom(path, req, equipment):
            amps = [el for el in path if isinstance(el, elements.Edfa)]
            for a in amps:
                tracer._tr(a)['events'].append(['S'])
            tracer.loop = amps
            try:
                return tracer._pom(path, req, equipment)
            finally:
                tracer.loop = None

        def ci(*a, **kw):
            if tracer.loop is not None:
                for amp in tracer.loop:
                    tracer._tr(amp)['events'].append(['R'])
            return tracer._ci(*a, **kw)
        elements.Edfa.__call__ = call
        rq.propagate_and_optimize_mode = pom
        rq.create_input_spectral_information = ci
        return self

    def __exit__(self, *exc):
        self._el.Edfa.__call__ = self._call
        self._rq.propagate_and_optimize_mode = self._pom
        self._rq.create_input_spectral_information = self._ci
        return False

    def result(self):
        return [{k: v for k, v in t.items()} for t in self.traces.values() if t['gains'] and t['g0'] is not None]


def term_amp(t):
    evs = []
    for e in t['events']:
        if e[0] == 'S':
            evs.append('ASnap')
        elif e[0] == 'R':
            evs.append('ARestore')
        else:
            evs.append('ap_none' if math.isinf(e[1]) else f'ap {fl(e[1])}')
    return f"amp_case {fl(t['g0'])} {fl(t['pmax'])} {listlit(evs)}"


def judge_amp(ctx, case, t, line, prop='Verdict'):
    """model history vs observed effective gains (1e-9 dB), and the clamp law on every single propagation (oracle)"""
    for k, (e, b, g) in enumerate(zip([e for e in t['events'] if e[0] == 'P'], t['before'], t['gains'])):
        want = b if math.isinf(e[1]) else min(b, t['pmax'] - e[1])
        if abs(want - g) > 1e-9:
            ctx.violation('amplifier_clamp_law', f"{t['uid']}: gain {b} dB before, p_max {t['pmax']} dBm, input {e[1]} dBm: "
                          f'effective gain {g} dB after the propagation, min(gain, p_max - pin) = {want}', case)
            return False
    model = [float(pq(x)) for x in line.split(',')] if line else []
    if len(model) != len(t['gains']) or any(abs(a - b) > 1e-9 for a, b in zip(model, t['gains'])):
        ctx.corr_break(f'corr:{prop}.amp_history', f"{t['uid']} (designed {t['g0']} dB, p_max {t['pmax']}): events {t['events']}: "
                       f"observed gains {t['gains']}, model {model}", case, impl=t['gains'], model=model)
        return False
    return True


# ------------------------------------------------------------------ C. decision cases
BAUDS = [28e9, 32e9, 44e9, 56e9, 64e9]
SPACINGS = [37.5e9, 50e9, 62.5e9, 75e9, 87.5e9, 100e9]


def gen_modes(rng, nmodes):
    bauds = rng.sample(BAUDS, rng.randint(1, min(3, len(BAUDS))))
    offs = rng.choice([[0], [0, 0, 3], [0, 1.5, 6], [-2, 0, 4], [0, 8]])
    modes = []
    for k in range(nmodes):
        br = rng.choice(bauds)
        fit = [s for s in SPACINGS if s >= br * 1.15]
        modes.append({'format': f'm{k}', 'baud_rate': br, 'OSNR': None, 'bit_rate': rng.choice([100e9, 200e9, 200e9, 300e9, 400e9]),
                      'roll_off': 0.15, 'tx_osnr': rng.choice([32, 36, 40, 45]), 'min_spacing': rng.choice(fit[:3]),
                      'cost': 1, 'equalization_offset_db': rng.choice(offs)})
    if rng.random() < 0.3:
        for m in modes:
            m.pop('equalization_offset_db') if m['equalization_offset_db'] == 0 else None
    return modes


def gen_decision(rng, big=False):
    env = gen_env(rng)
    ggn = rng.random() < 0.04
    if ggn:
        env['nsites'], env['nch'] = 2, rng.randint(5, 7)
        env['lines'] = [['A', 'B', [round(rng.uniform(20, 110), 1)], [round(rng.uniform(20, 110), 1)]]]
    auto = rng.random() < 0.6
    nmodes = rng.randint(1, 3 if ggn else 8) if auto else rng.randint(1, 3)
    modes = gen_modes(rng, nmodes)
    names = [chr(65 + i) for i in range(env['nsites'])]
    src, dst = rng.sample(names, 2)
    if auto:
        r = rng.random()
        if r < 0.08:
            spacing = 37.5e9 if min(m['min_spacing'] for m in modes) > 37.5e9 else 25e9     # nothing fits
        else:
            spacing = rng.choice([s for s in SPACINGS if s >= min(m['min_spacing'] for m in modes)])
        mode = None
    else:
        mode = rng.randrange(len(modes))
        spacing = rng.choice([s for s in SPACINGS if s >= modes[mode]['min_spacing']])
        if rng.random() < 0.05:                                                       # malformed: refused at load
            spacing = max(s for s in [25e9] + SPACINGS if s < modes[mode]['min_spacing'])
    deltas = [rng.choice([-6, -1, -0.02, -0.01, 0, 0.01, 0.02, 0.5, 3, 9]) for _ in modes]
    tabscale = [[rng.choice([0.9, 0.999, 1.0, 1.0, 1.001, 1.001, 1.2, 1.2, 3, 3, 3, 10, 10, 10, 10, 10, -0.25, -0.5, -0.75, -0.9])
                 for _ in range(3)] for _ in modes]
    worst = (not auto) and rng.random() < 0.25
    if worst:
        # regime "the worst channel is not the one with the lowest raw GSNR": CD differs from channel to channel (sloped /
        # tabulated dispersion on every span), the CD table of the requested mode ends INSIDE the spread of the channels
        # (some get +inf), and the threshold leaves room below the best channels
        while all(f['kind'] == 'flat' for f in env['fibers']):
            env['fibers'] = gen_fibers(rng)
        env['span_types'] = [rng.choice([1, 2]) for _ in env['span_types']]
        tabscale[mode][0] = rng.choice([-0.25, -0.5, -0.75, -0.9])
        deltas[mode] = rng.choice([-6, -6, -1, -0.02])
    return {'kind': 'decision', 'env': env, 'modes': modes, 'mode': mode, 'spacing': spacing, 'src': src, 'dst': dst,
            'bidir': rng.random() < 0.4, 'tx_power_dbm': rng.choice([None, None, 0, -3, 3, 10]),
            'deltas': deltas, 'tabscale': tabscale, 'force_cd_table': worst,
            'tabseed': rng.randrange(1 << 30), 'nosnr': auto and rng.random() < 0.04,
            'spectrum': gen_spectrum(rng, env) if (not auto and rng.random() < 0.4) else None,
            'sim': {'nli_params': {'method': rng.choice(['ggn_approx', 'ggn_approx', 'ggn_spectrally_separated']),
                                   'dispersion_tolerance': 4, 'phase_shift_tolerance': 0.1,
                                   'computed_number_of_channels': rng.randint(2, 3)},
                    'raman_params': {'flag': False}} if ggn else None}


def gen_multiband(rng):
    """automatic mode selection on the shipped C+L example: every line amplifier of the path is a Multiband_amplifier whose
    band amplifiers (C, L) have their own designed gain; a first mode with a power offset saturates them, the following
    ones must be judged on the designed gains again"""
    src, dst = rng.choice([('Site_A', 'Site_D'), ('Site_D', 'Site_A'), ('Site_A', 'Site_G')])
    lo = 191.35e12 + rng.choice([0, 1.0e12, 2.0e12])
    env = {'multiband': True, 'nsites': 4, 'lines': [], 'nch': 0, 'margin': rng.choice([0, 2]), 'add_drop_osnr': 38,
           'f_min': lo, 'f_max': lo + rng.choice([0.8e12, 1.2e12]), 'roadm_profile': None, 'roadm_sites': []}
    modes = [{'format': 'm0', 'baud_rate': 64e9, 'OSNR': None, 'bit_rate': 400e9, 'roll_off': 0.15, 'tx_osnr': 40,
              'min_spacing': 75e9, 'cost': 1, 'equalization_offset_db': rng.choice([3, 4, 6])},
             {'format': 'm1', 'baud_rate': rng.choice([32e9, 44e9]), 'OSNR': None, 'bit_rate': 100e9, 'roll_off': 0.15,
              'tx_osnr': rng.choice([36, 40]), 'min_spacing': 50e9, 'cost': 1, 'equalization_offset_db': 0}]
    return {'kind': 'decision', 'env': env, 'modes': modes, 'mode': None, 'spacing': rng.choice([75e9, 100e9]), 'src': src,
            'dst': dst, 'bidir': False, 'tx_power_dbm': None, 'deltas': [9, rng.choice([-1, 0.5, -0.02, 0.02])],
            'tabscale': [[10, 10, 10], [10, 10, 10]], 'force_cd_table': False, 'tabseed': rng.randrange(1 << 30),
            'nosnr': False, 'spectrum': None, 'sim': None}


def complete_modes(E, case, path, req_probe, spectrum=None, tx_list=None):
    """thresholds and penalty tables are drawn relative to what the path really shows, so that boundary situations
    (metric within 0.01 dB of the threshold, impairment exactly at / just beyond the last tabulated value) are common.
    Deterministic function of the case; the completed library is stored in the case (replays use it as is)."""
    import random
    if case.get('modes_final'):
        return case['modes_final']
    rng = random.Random(case['tabseed'])
    contrib = add_drop_contrib(E, path, sorted(spectrum) if spectrum else channel_freqs(req_probe))
    out, frs = [], []
    for k, m in enumerate(case['modes']):
        m = dict(m)
        if m['min_spacing'] > req_probe.spacing:
            # never propagated with this spacing (and could not be: the slot is narrower than the signal)
            frs.append(None)
            m['tabs'] = [[], [], []]
            m['OSNR'] = 15
            out.append(m)
            continue
        fr = fresh_propagation(E, path, req_probe, m['baud_rate'], m.get('equalization_offset_db', 0), 0.15,
                               spectrum if k == case['mode'] else None)
        frs.append(fr)
        tabs = []
        for j, key in enumerate(('cd', 'pmd', 'pdl')):
            top = max(fr[key])
            sc = case['tabscale'][k][j]
            absent = rng.random() < 0.3
            if (absent and not (case.get('force_cd_table') and j == 0 and k == case['mode'])) or top <= 0:
                tabs.append([])
                continue
            if sc < 0:
                # the table ends INSIDE the spread of the channels: some channels are inside, the others outside
                lo_v = min(fr[key])
                hi = top if top == lo_v else lo_v + (-sc) * (top - lo_v)
            else:
                hi = top if sc == 1.0 else float(f'{top * sc:.6g}')
            pts = [[hi, round(rng.uniform(0.2, 2.5), 2)]]
            if rng.random() < 0.6:
                pts.append([float(f'{hi * rng.uniform(0.2, 0.8):.4g}'), round(rng.uniform(0, 1), 2)])
            if rng.random() < 0.2:
                pts.append([0.0, 0.0])
            rng.shuffle(pts)
            tabs.append(pts)
        rp = raw_penalties(tabs)
        if rp:
            m['penalties'] = rp
        m['tabs'] = tabs
        m['OSNR'] = 10
        out.append(m)
    # thresholds: metric of the mode under its own (baud, offset) propagation, shifted by the case's delta
    E.set_modes([clean_mode(m) for m in out])
    for k, (m, lm, fr) in enumerate(zip(out, E.lib(), frs)):
        if fr is None:
            continue
        if len(fr['raw01']) != len(contrib):
            continue                                                  # a mode other than the requested one (uniform comb)
        g = rx_g01(fr['raw01'], contrib, tx_list if (tx_list and k == case['mode']) else m['tx_osnr'])
        met = metric_py(g, pen_py(lm['penalties'], fr))
        if math.isinf(met) or math.isnan(met):
            met = min(g)
        m['OSNR'] = round(met - E.env['margin'] + case['deltas'][k], 2)
    case['modes_final'] = out
    return out


def pen_py(pen, fr):
    """total penalty per channel with numpy.interp on the tables loaded by gnpy (used only to place thresholds)"""
    import numpy as np
    tot = np.zeros(len(fr['cd']))
    for imp, key in zip(IMPS, ('cd', 'pmd', 'pdl')):
        if imp in pen:
            tot = tot + np.interp(np.array(fr[key]), pen[imp]['up_to_boundary'], pen[imp]['penalty_value'],
                                  left=np.inf, right=np.inf)
    return tot


def clean_mode(m):
    return {k: v for k, v in m.items() if k != 'tabs'}


def drive_decision(case):
    """sets the process-wide simulation parameters of the case (default: gn_model_analytic) around _drive_decision"""
    from gnpy.core.parameters import SimParams
    import warnings
    warnings.filterwarnings('ignore', message='Polyfit may be poorly conditioned')
    SimParams.set_params(copy.deepcopy(case.get('sim') or {}))
    try:
        return _drive_decision(case)
    finally:
        SimParams.set_params({})


def _drive_decision(case):
    """runs the real planning step for one request; returns the environment and the observations (implementation's
    decision and figures, figures of fresh independent propagations for the model)"""
    import gnpy.topology.request as rq
    import gnpy.core.elements as elements
    from gnpy.tools.json_io import requests_from_json
    from gnpy.core.exceptions import ServiceError
    from gnpy.core.utils import dbm2watt
    E = Env(case['env'])
    txp = None if case['tx_power_dbm'] is None else dbm2watt(case['tx_power_dbm'])
    fmt = None if case['mode'] is None else case['modes'][case['mode']]['format']
    rj = request_json(0, case['src'], case['dst'], fmt, case['spacing'], case['bidir'], tx_power=txp)
    pj = copy.deepcopy(rj)
    pj['path-constraints']['te-bandwidth']['trx_mode'] = None
    # path of the request (routing is C11's business; here it only has to be the one the code uses)
    E.set_modes([dict(clean_mode(m), OSNR=10) for m in case['modes']])
    probe = rq.correct_json_route_list(E.net, requests_from_json({'path-request': [pj]}, E.eq))
    pths = rq.compute_path_dsjctn(E.net, E.eq, probe, [])
    path = pths[0]
    spec = tx_list = None
    if case.get('spectrum') and case['mode'] is not None:
        from gnpy.tools.json_io import _spectrum_from_json
        spec = _spectrum_from_json(copy.deepcopy(case['spectrum']))
        tx_list = [float(spec[f].tx_osnr) for f in sorted(spec)]          # each channel's own transmitter OSNR
    modes = complete_modes(E, case, path, probe[0], spec, tx_list)
    E.set_modes([clean_mode(m) for m in modes])
    lib = E.lib()
    obs = {}
    try:
        rqs = requests_from_json({'path-request': [rj]}, E.eq)
    except ServiceError:
        obs['exc'] = 'ServiceError'
        return obs
    rqs = rq.correct_json_route_list(E.net, rqs)
    req = rqs[0]
    if spec:
        req.initial_spectrum = spec                                       # as designed_network / the transmission example do
    obs['tx_list'] = tx_list
    designed = {el.uid: el.effective_gain for el in path if isinstance(el, elements.Edfa)}
    # ---- instrumentation: every receiver evaluation (calc_penalties on a receiving transceiver) and every propagation
    evals, iters_log = [], []
    orig_cp = elements.Transceiver.calc_penalties
    orig_ci = rq.create_input_spectral_information
    dest_uid, src_uid = path[-1].uid, path[0].uid
    pen_ids = {id(m['penalties']): k for k, m in enumerate(lib)}

    phase = ['fwd']
    orig_fr = rq.find_reversed_path

    def frp(pth):
        phase[0] = 'rev'
        return orig_fr(pth)

    def cp(self, penalties):
        orig_cp(self, penalties)
        if self.uid == (dest_uid if phase[0] == 'fwd' else src_uid):
            evals.append({'dir': phase[0], 'mode': pen_ids.get(id(penalties)), 'it': len(iters_log) - 1,
                          'snap': rx_snapshot(self), 'pen_keys': sorted(self.penalties), 'arg_keys': sorted(penalties)})

    def ci(*a, **kw):
        iters_log.append([float(kw['baud_rate']), float(kw.get('delta_pdb', 0) or 0)])
        return orig_ci(*a, **kw)
    elements.Transceiver.calc_penalties = cp
    rq.create_input_spectral_information = ci
    rq.find_reversed_path = frp
    orig_call = elements.Transceiver.__call__
    if case.get('nosnr'):
        # a receiver that records nothing (snr stays None): the loop must answer NO_COMPUTED_SNR
        elements.Transceiver.__call__ = lambda self, si: si
    try:
        with AmpTracer(E.net) as tracer:
            try:
                prop, rev, revprop = rq.compute_path_with_disjunction(E.net, E.eq, rqs, pths)
            except Exception as e:
                e._under_test = True
                raise
        obs['amp_traces'] = tracer.result()
    finally:
        elements.Transceiver.calc_penalties = orig_cp
        rq.create_input_spectral_information = orig_ci
        rq.find_reversed_path = orig_fr
        elements.Transceiver.__call__ = orig_call
    obs.update({'reason': getattr(req, 'blocking_reason', None), 'tsp_mode': req.tsp_mode, 'baud_rate': req.baud_rate,
                'OSNR': req.OSNR, 'tx_osnr': req.tx_osnr, 'offset': req.offset_db, 'bit_rate': req.bit_rate,
                'iters': iters_log, 'route': [el.uid for el in path], 'evals': evals})
    obs['fwd'] = rx_snapshot(prop[0][-1]) if prop[0] and getattr(prop[0][-1], 'snr_01nm', None) is not None else None
    obs['rev'] = rx_snapshot(revprop[0][-1]) if revprop[0] and not case.get('nosnr') else None
    obs['gains_after'] = {el.uid: el.effective_gain for el in prop[0] if isinstance(el, elements.Edfa)} if prop[0] else {}
    obs['gains_designed'] = designed
    obs['network_untouched'] = designed == {el.uid: el.effective_gain for el in path if isinstance(el, elements.Edfa)}
    # ---- fresh, independent figures for the model
    rpath = rq.find_reversed_path(path)
    fq_ = sorted(spec) if spec else channel_freqs(probe[0])
    obs['contrib'], obs['rcontrib'] = add_drop_contrib(E, path, fq_), add_drop_contrib(E, rpath, fq_)
    obs['margin'] = E.eq['SI']['default'].sys_margins
    roll = E.eq['SI']['default'].roll_off
    pr = probe[0]
    if case['mode'] is None:
        fits = [m for m in lib if float(m['min_spacing']) <= pr.spacing]
        its = sorted({(m['baud_rate'], m['equalization_offset_db']) for m in fits}, reverse=True)
        obs['fresh'] = [[br, off, fresh_propagation(E, path, pr, br, off, roll)] for (br, off) in its]
        if case['bidir'] and req.baud_rate is not None:
            # the code only propagates Z->A when a mode was selected or last explored (baud_rate set); it does so with the
            # request as the selection left it (roll-off included)
            obs['fresh_rev'] = {k: fresh_propagation(E, rpath, pr, m['baud_rate'], m['equalization_offset_db'], req.roll_off)
                                for k, m in enumerate(lib) if float(m['min_spacing']) <= pr.spacing}
    else:
        m = lib[case['mode']]
        obs['fresh_fixed'] = fresh_propagation(E, path, pr, m['baud_rate'], m['equalization_offset_db'], m['roll_off'], spec)
        if case['bidir']:
            obs['fresh_fixed_rev'] = fresh_propagation(E, rpath, pr, m['baud_rate'], m['equalization_offset_db'], m['roll_off'],
                                                       spec)
    obs['_lib'] = [{'format': m['format'], 'penalties': m['penalties']} for m in lib]
    return obs


# ------------------------------------------------------------------ C. model terms, oracles, diff
def mode_lit(k, m):
    tabs = m.get('tabs') or [[], [], []]
    return (f"md {k} {fl(float(m['baud_rate']))} {fl(float(m.get('equalization_offset_db', 0) or 0))} "
            f"{fl(float(m['bit_rate']))} {fl(float(m['min_spacing']))} {fl(float(m['OSNR']))} {tabs_lit(tabs)}")


def figs_lit(g, fr):
    return f"(fg {fll(g)} {fll(fr['cd'])} {fll(fr['pmd'])} {fll(fr['pdl'])})"


def term_decision(case, obs, observed=False):
    modes = case['modes_final']
    margin = obs['margin']
    if case['mode'] is not None:
        m = modes[case['mode']]
        fr = obs['fresh_fixed']
        tx = obs.get('tx_list') or m['tx_osnr']
        fwd = figs_lit(rx_g01(fr['raw01'], obs['contrib'], tx), fr)
        if case['bidir']:
            rr = obs['fresh_fixed_rev']
            rev = '(Some ' + figs_lit(rx_g01(rr['raw01'], obs['rcontrib'], tx), rr) + ')'
        else:
            rev = 'None'
        return f"fixed_case {fl(float(m['OSNR']))} {fl(float(margin))} {tabs_lit(m['tabs'])} {fwd} {rev}"
    lib = listlit([mode_lit(k, m) for k, m in enumerate(modes)])
    seen = {}
    if observed:
        for e in obs['evals']:
            if e['dir'] == 'fwd':
                br, off = obs['iters'][e['it']]
                seen[(br, off, e['mode'])] = e['snap']
    entries = []
    for br, off, fr in ([] if case.get('nosnr') else obs['fresh']):
        for k, m in enumerate(modes):
            if m['baud_rate'] == br and float(m.get('equalization_offset_db', 0) or 0) == off \
                    and m['min_spacing'] <= case['spacing']:
                sn = seen.get((br, off, k))
                if sn is not None:
                    f = f"(fg {fll(sn['g01'])} {fll(sn['cd'])} {fll(sn['pmd'])} {fll(sn['pdl'])})"
                else:
                    f = figs_lit(rx_g01(fr['raw01'], obs['contrib'], m['tx_osnr']), fr)
                entries.append(f'({fl(float(br))}, {fl(float(off))}, {k}, {f})')
    rl = []
    for k, rr in (obs.get('fresh_rev') or {}).items():
        rl.append(f"({k}, {figs_lit(rx_g01(rr['raw01'], obs['rcontrib'], modes[int(k)]['tx_osnr']), rr)})")
    return f"auto_case {fl(float(margin))} {fl(float(case['spacing']))} {lib} {listlit(entries)} {listlit(rl)}"


def np_metric(snap):
    import numpy as np
    with np.errstate(invalid='ignore'):
        return float(round(min(np.array(snap['g01']) - np.array(snap['pen'])), 2)), float(min(np.array(snap['g01']) - np.array(snap['pen'])))


def tie(raw, thr):
    """not judged: the rounded metric equals the threshold, or the metric sits on a rounding tie"""
    if math.isinf(raw) or math.isnan(raw):
        return False
    r = round(raw, 2)
    frac = abs(raw * 100 - math.floor(raw * 100) - 0.5)
    return abs(r - thr) < 1e-9 or frac < 1e-6


def impl_line(case, obs):
    """the implementation's decision in the text form of Run/C13.v (floats as python floats)"""
    modes = case['modes_final']
    fmt = {m['format']: k for k, m in enumerate(modes)}
    fm = np_metric(obs['fwd'])[0] if obs['fwd'] else None
    rm = np_metric(obs['rev'])[0] if obs['rev'] else None
    if case['mode'] is not None:
        return {'reason': obs['reason'], 'fwd': fm, 'rev': rm}
    fw = [e for e in obs['evals'] if e['dir'] == 'fwd']
    if obs['reason'] == 'NO_FEASIBLE_BAUDRATE_WITH_SPACING':
        kind = 'B'
    elif obs['reason'] == 'NO_COMPUTED_SNR':
        kind = 'C'
    elif obs['reason'] == 'NO_FEASIBLE_MODE':
        kind = 'N'
    else:
        kind = 'S'
    out = {'kind': kind, 'reason': obs['reason'], 'fwd': fm if kind in 'SN' else None, 'rev': rm}
    if kind in 'SN':
        out['mode'] = fmt.get(obs['tsp_mode'])
        out['it'] = obs['iters'][fw[-1]['it']] if fw else None
        out['order'] = [(obs['iters'][e['it']][0], obs['iters'][e['it']][1], e['mode']) for e in fw]
    return out


def parse_model(case, line):
    if line.startswith('E:'):
        return {'exc': line}
    p = line.split('|')

    def met(x):
        return None if x == '-' else (-math.inf if x == '-inf' else float(pq(x)))
    if case['mode'] is not None:
        return {'reason': None if p[0] == '-' else p[0], 'fwd': met(p[1]), 'rev': met(p[2])}
    o = p[0].split(':')
    out = {'kind': o[0], 'reason': None if p[1] == '-' else p[1], 'fwd': met(p[2]), 'rev': met(p[3])}
    if o[0] in 'SN':
        out['mode'] = int(o[1])
        out['it'] = [float(pq(x)) for x in o[2].split(',')]
    order = []
    if p[4]:
        for x in p[4].split(';'):
            it, k = x.split(':')
            b, f = it.split(',')
            order.append((float(pq(b)), float(pq(f)), int(k)))
    out['order'] = order
    return out


def same_metric(a, b):
    if a is None or b is None:
        return a is None and b is None
    if math.isnan(a) or math.isnan(b):
        return False
    return close_db(a, b, 1e-9)


def diff_decision(case, impl, model):
    """None when implementation and model agree, else a short description"""
    if 'exc' in model:
        return f'model raised {model["exc"]}'
    if impl['reason'] != model['reason']:
        return f"blocking reason: impl {impl['reason']} / model {model['reason']}"
    if case['mode'] is None:
        if impl['kind'] != model['kind']:
            return f"outcome kind: impl {impl['kind']} / model {model['kind']}"
        if impl['kind'] in 'SN':
            if impl['mode'] != model['mode']:
                return f"mode: impl m{impl['mode']} / model m{model['mode']}"
            if [float(x) for x in impl['it']] != model['it']:
                return f"deciding propagation: impl {impl['it']} / model {model['it']}"
            n = len(impl['order'])
            if [tuple(x) for x in impl['order']] != model['order'][:n]:
                return f"exploration order: impl {impl['order']} / model {model['order'][:n]}"
    if not same_metric(impl['fwd'], model['fwd']):
        return f"forward metric: impl {impl['fwd']} / model {model['fwd']}"
    if not same_metric(impl['rev'], model['rev']):
        return f"reverse metric: impl {impl['rev']} / model {model['rev']}"
    return None


def case_public(case):
    return {k: v for k, v in case.items() if not k.startswith('_')}


def leak_check(case, obs):
    """oracle: the receiver figures evaluated inside the mode loop are those of a fresh propagation of the same
    (baud rate, offset) on the designed path.  Returns a violation record or None."""
    if case['mode'] is not None:
        return None
    modes = case['modes_final']
    fresh = {(br, off): fr for br, off, fr in obs['fresh']}
    for e in obs['evals']:
        if e['dir'] != 'fwd':
            continue
        br, off = obs['iters'][e['it']]
        fr = fresh.get((br, off))
        if fr is None or e['mode'] is None:
            return {'what': f'propagation ({br},{off}) or mode not among the expected ones', 'eval': e}
        exp = rx_g01(fr['raw01'], obs['contrib'], modes[e['mode']]['tx_osnr'])
        bad = [k for k, (a, b) in enumerate(zip(e['snap']['g01'], exp)) if not close_db(a, b, 1e-8)]
        if bad or len(exp) != len(e['snap']['g01']):
            k = bad[0] if bad else 0
            return {'iteration': e['it'], 'propagation': [br, off], 'mode': e['mode'], 'channel': k,
                    'gsnr_in_loop': e['snap']['g01'][k], 'gsnr_fresh': exp[k], 'first_iteration': e['it'] == 0,
                    'gains_designed': obs['gains_designed'], 'gains_after_loop': obs['gains_after']}
    return None


def own_oracles(ctx, case, obs):
    """the property evaluated on the implementation's own result (no model involved)"""
    modes = case['modes_final']
    pub = case_public(case)
    margin = obs['margin']
    if not obs.get('network_untouched', True):
        ctx.violation('designed_network_modified', 'an amplifier of the designed network changed its gain while the request was evaluated', pub)
    # the library as loaded lists exactly the impairments of the equipment description
    for m, lm0 in zip(modes, obs['_lib']):
        want = sorted(imp for imp, t in zip(IMPS, m['tabs']) if t)
        if sorted(lm0['penalties']) != want:
            ctx.violation('normalisation_drops_impairment', f"{m['format']}: equipment lists {want}, loaded {sorted(lm0['penalties'])}", pub)
            break
    # every evaluation of the receiver uses the penalties of the mode being evaluated, and only those
    for e in obs.get('evals', []):
        if e['pen_keys'] != e['arg_keys']:
            ctx.violation('stale_penalty_entries', f"evaluation of mode m{e['mode']} ({e['dir']}): receiver holds penalties "
                          f"{e['pen_keys']}, the mode lists {e['arg_keys']}", pub)
            break
        if e['mode'] is not None and not case.get('nosnr'):
            exp = pen_py(obs['_lib'][e['mode']]['penalties'], e['snap'])
            if any(not close_db(float(a), float(b), 1e-9) for a, b in zip(e['snap']['pen'], exp)):
                ctx.violation('penalty_not_of_current_mode', f"evaluation of mode m{e['mode']} ({e['dir']}): total penalty "
                              f"{e['snap']['pen'][:3]} but its tables give {[float(x) for x in exp[:3]]}", pub)
                break
    if case.get('nosnr'):
        if any(m['min_spacing'] <= case['spacing'] for m in modes) and obs['reason'] != 'NO_COMPUTED_SNR':
            ctx.violation('no_snr_not_reported', f"receiver without figures but blocking_reason {obs['reason']}", pub)
        return
    if obs['reason'] in ('NO_FEASIBLE_BAUDRATE_WITH_SPACING',):
        if any(m['min_spacing'] <= case['spacing'] for m in modes):
            ctx.violation('no_baudrate_but_one_fits', 'blocked NO_FEASIBLE_BAUDRATE_WITH_SPACING although a mode fits the spacing', pub)
        return
    if case['mode'] is None and not any(m['min_spacing'] <= case['spacing'] for m in modes):
        ctx.violation('mode_without_fit', f"no mode fits the spacing but the request ends with {obs['reason']} / {obs['tsp_mode']}", pub)
        return
    fin = next((m for m in modes if m['format'] == obs['tsp_mode']), None)
    if fin is None or obs['fwd'] is None:
        ctx.violation('no_mode_recorded', f"reason {obs['reason']} but no mode / figures recorded", pub)
        return
    if case['mode'] is None and fin['min_spacing'] > case['spacing']:
        ctx.violation('mode_does_not_fit_spacing', f"{fin['format']} needs {fin['min_spacing']} > {case['spacing']}", pub)
    thr = fin['OSNR'] + margin
    # bookkeeping of the selected / last explored mode
    want = (fin['baud_rate'], fin['OSNR'], fin['tx_osnr'], fin['bit_rate'], fin.get('equalization_offset_db', 0) or 0)
    got = (obs['baud_rate'], obs['OSNR'], obs['tx_osnr'], obs['bit_rate'], obs['offset'])
    if want != got:
        ctx.violation('mode_bookkeeping', f'request carries {got}, mode {fin["format"]} says {want}', pub)
    # once each
    for snap, contrib, name in ((obs['fwd'], obs['contrib'], 'forward'), (obs['rev'], obs['rcontrib'], 'reverse')):
        if snap is None:
            continue
        for k, (g, r) in enumerate(zip(snap['g01'], snap['raw01'])):
            a, b = inv(g), inv(r) + contrib[k] + inv(obs['tx_list'][k] if obs.get('tx_list') else fin['tx_osnr'])
            if abs(a - b) > 1e-9 * max(a, b):
                ctx.violation('noise_not_counted_once',
                              f'{name} channel {k}: 1/GSNR_rx = {a:.12g} but line + add + drop + tx = {b:.12g} '
                              f'(ratio {a / b:.9f})', pub)
                break
    # verdict vs the figures the result carries
    fm, fraw = np_metric(obs['fwd'])
    rmm = np_metric(obs['rev']) if obs['rev'] else None
    if tie(fraw, thr) or (rmm and tie(rmm[1], thr)):
        ctx.count('unjudged_threshold_equal_own')
    else:
        if case['mode'] is not None:
            blocked = (fm < thr) or (rmm is not None and rmm[0] < thr) or math.isnan(fm)
            if blocked != (obs['reason'] == 'MODE_NOT_FEASIBLE') or (obs['reason'] not in (None, 'MODE_NOT_FEASIBLE')):
                ctx.violation('verdict_vs_own_figures', f'fixed mode: metric fwd {fm} rev {rmm and rmm[0]} threshold {thr} '
                              f'but blocking_reason {obs["reason"]}', pub)
        else:
            if obs['reason'] == 'NO_FEASIBLE_MODE':
                if fm > thr:
                    ctx.violation('verdict_vs_own_figures', f'NO_FEASIBLE_MODE although the last explored mode has metric {fm} > {thr}', pub)
            else:
                if not fm > thr:
                    ctx.violation('verdict_vs_own_figures', f'{fin["format"]} selected with metric {fm} <= threshold {thr}', pub)
                revblocked = rmm is not None and rmm[0] < thr
                if revblocked != (obs['reason'] == 'MODE_NOT_FEASIBLE') or obs['reason'] not in (None, 'MODE_NOT_FEASIBLE'):
                    ctx.violation('verdict_vs_own_figures', f'selected {fin["format"]}: reverse metric {rmm and rmm[0]} threshold {thr} '
                                  f'but blocking_reason {obs["reason"]}', pub)
    lm = next(m for m in obs['_lib'] if m['format'] == fin['format'])
    # the selected mode must be feasible as itself: with its own power offset, not with the one of a sibling mode
    fw = [e for e in obs['evals'] if e['dir'] == 'fwd']
    if case['mode'] is None and obs['reason'] != 'NO_FEASIBLE_MODE' and fw:
        it = obs['iters'][fw[-1]['it']]
        own = [fin['baud_rate'], float(fin.get('equalization_offset_db', 0) or 0)]
        if it != own:
            ctx.violation('mode_judged_on_foreign_propagation',
                          f"{fin['format']} (baud {own[0]}, offset {own[1]} dB) was selected on the propagation {it}", pub)
            fr = next((f for b, o, f in obs['fresh'] if [b, o] == own), None)
            raw = metric_py(rx_g01(fr['raw01'], obs['contrib'], fin['tx_osnr']), pen_py(lm['penalties'], fr))
            if not tie(raw, thr) and not round(raw, 2) > thr:
                ctx.violation('selected_mode_infeasible_with_own_offset',
                              f"{fin['format']} (offset {own[1]} dB) was selected on a propagation made with offset {it[1]} dB "
                              f"(metric {fm}); propagated with its own offset its metric is {round(raw, 2)} <= threshold {thr}",
                              pub, detail={'deciding_propagation': it, 'own': own, 'metric_foreign': fm,
                                           'metric_own': round(raw, 2), 'threshold': thr})
    # the path handed back carries the state of the deciding propagation only (started from the designed gains)
    if case['mode'] is None and fw:
        it = obs['iters'][fw[-1]['it']]
        fr = next((f for b, o, f in obs['fresh'] if [b, o] == it), None)
    else:
        fr = obs.get('fresh_fixed') if case['mode'] is not None else None
    if fr is not None:
        badg = [(u, g, fr['gains'].get(u)) for u, g in obs['gains_after'].items()
                if fr['gains'].get(u) is None or abs(g - fr['gains'][u]) > 1e-9]
        if badg:
            ctx.violation('returned_path_state', f'amplifier gains on the returned path differ from those of a fresh propagation '
                          f'of the deciding (baud, offset): {badg[:3]}', pub)
    # an impairment outside the table always blocks
    for snap in (obs['fwd'], obs['rev']):
        if snap is None:
            continue
        for imp, key in zip(IMPS, ('cd', 'pmd', 'pdl')):
            if imp in lm['penalties']:
                lo, hi = lm['penalties'][imp]['up_to_boundary'][0], lm['penalties'][imp]['up_to_boundary'][-1]
                if any(v < lo or v > hi for v in snap[key]) and obs['reason'] is None:
                    ctx.violation('outside_table_accepted', f'{imp} {snap[key]} outside [{lo},{hi}] yet the request is feasible', pub)


def judged(case, obs, model, observed=False):
    """False when a metric on the decision path equals its threshold (or is a rounding tie): not judged"""
    modes = case['modes_final']
    margin = obs['margin']
    lib = obs['_lib']
    if case['mode'] is not None:
        m = modes[case['mode']]
        frs = [(obs['fresh_fixed'], obs['contrib'])] + ([(obs['fresh_fixed_rev'], obs['rcontrib'])] if case['bidir'] else [])
        for fr, c in frs:
            raw = metric_py(rx_g01(fr['raw01'], c, obs.get('tx_list') or m['tx_osnr']), pen_py(lib[case['mode']]['penalties'], fr))
            if tie(raw, m['OSNR'] + margin):
                return False
        return True
    if 'exc' in model or case.get('nosnr'):
        return True
    fresh = {(br, off): fr for br, off, fr in obs['fresh']}
    seen = {}
    if observed:
        # the model was fed with the figures observed inside the loop: ties are judged on those
        for e in obs['evals']:
            if e['dir'] == 'fwd':
                seen[(obs['iters'][e['it']][0], obs['iters'][e['it']][1], e['mode'])] = e['snap']
    for (br, off, k) in model['order']:
        fr = fresh[(br, off)]
        raw = metric_py(rx_g01(fr['raw01'], obs['contrib'], modes[k]['tx_osnr']), pen_py(lib[k]['penalties'], fr))
        if tie(raw, modes[k]['OSNR'] + margin):
            return False
        sn = seen.get((br, off, k))
        if sn is not None and tie(np_metric(sn)[1], modes[k]['OSNR'] + margin):
            return False
        if model.get('kind') == 'S' and [br, off] == model['it'] and k == model['mode']:
            break
    if model.get('mode') is not None and case['bidir'] and str(model['mode']) in {str(x) for x in (obs.get('fresh_rev') or {})}:
        k = model['mode']
        fr = (obs['fresh_rev'].get(k) or obs['fresh_rev'].get(str(k)))
        raw = metric_py(rx_g01(fr['raw01'], obs['rcontrib'], modes[k]['tx_osnr']), pen_py(lib[k]['penalties'], fr))
        if tie(raw, modes[k]['OSNR'] + margin):
            return False
    return True


# ------------------------------------------------------------------ known findings
# none open.  Found by this check and fixed in /repo: the Edfa clamp persisting across the iterations of the mode loop
# (6c7139d6, oracle keys mode_loop_state_leak / returned_path_state, corpus f06_*.json) and modes judged on the propagation
# of a sibling's offset (1495bc6e, oracle keys mode_judged_on_foreign_propagation / selected_mode_infeasible_with_own_offset,
# corpus sibling_offset.json).  The corpus cases are regressions that must pass.
MATCHERS = {}


# ------------------------------------------------------------------ run
def crash_record(e):
    """an exception as an observation (a worker must never kill the pool)"""
    import traceback
    tb = traceback.extract_tb(e.__traceback__)
    inner = tb[-1] if tb else None
    return {'type': type(e).__name__, 'message': str(e)[:400],
            'where': f'{inner.filename}:{inner.lineno} {inner.name}' if inner else '',
            'in_gnpy': bool(getattr(e, '_under_test', False)),       # raised by the call under test, not by a reference run
            'traceback': ''.join(traceback.format_exception(type(e), e, e.__traceback__))[-3000:]}


def report_crash(ctx, case, crash):
    """an exception out of the code under test on a generated input is neither a verdict nor a refusal: a violation with
    its input; an exception raised by the harness itself is reported the same way (never swallowed)"""
    key = 'exception_instead_of_result' if crash['in_gnpy'] else 'harness_exception'
    ctx.violation(key, f"{crash['type']}: {crash['message']} at {crash['where']}", case, detail=crash)


def _drive_worker(case):
    try:
        obs = drive_decision(case)
    except Exception as e:                                             # noqa: returned as an observation
        obs = {'crash': crash_record(e)}
    return case.get('modes_final'), obs


def pmap(fn, items, procs=14):
    """the gnpy side of the cases is independent per case: spread over processes (results in input order)"""
    if len(items) < 8:
        return [fn(x) for x in items]
    import multiprocessing as mp
    common.setup_gnpy_path()
    import gnpy.topology.request, gnpy.tools.json_io, gnpy.tools.worker_utils  # noqa: imported before the fork
    base_json()
    with mp.get_context('fork').Pool(procs) as pool:
        return pool.map(fn, items, chunksize=4)


def load_corpus():
    cases = []
    for f in sorted(glob.glob(os.path.join(common.VERIF, 'corpus', 'C13', '*.json'))):
        c = json.load(open(f))
        c['_corpus'] = os.path.basename(f)
        cases.append(c)
    return cases


def run(ctx):
    rng = ctx.rng
    import time
    t0 = time.time()
    # second tie: re-translate the decision code of request.py / elements.py / utils.py / json_io.py from /repo's source;
    # the equivalence lemmas of Proofs/VerdictGen.v are then re-checked by check_props against what the code says now
    from . import pygen_c13
    gen_ok, gen_msg = pygen_c13.regenerate()
    ctx.proof = common.check_props('C13')
    if not gen_ok:
        ctx.proof['ok'] = False
        ctx.proof['log'] = 'harness/pygen_c13.py: ' + gen_msg + '\n' + ctx.proof.get('log', '')
        ctx.proof['failed_file'] = 'theories/Gen/VerdictGen.v (translation of /repo source failed)'
    ctx.extra['t_proof_s'] = round(time.time() - t0, 1)
    ctx.rule = ('(a) random receivers x histories of update_snr calls; (b) random penalty lists x impairment arrays; '
                '(c) whole decisions: random 2-4 ROADM networks (random amplifier p_max, ROADM add/drop OSNR, PMD, PDL), random '
                'transceiver libraries of 1-8 modes (shared baud rates, offsets, thresholds within 0.02 dB of the real metric, '
                '40 % of the fixed-mode requests with a user-defined initial spectrum of 1-3 partitions (own slot width, baud rate, '
                'power offset, tx power, tx OSNR), '
                'penalty tables ending below / at / above the path impairments), fixed or automatic mode, uni/bidirectional; '
                'non-trivial = a decision with at least two explored modes, or a bidirectional one, or a penalty table in play; '
                'distinct by content hash')
    cases = load_corpus()
    if ctx.replay:
        cases = [json.load(open(ctx.replay))['case']]
    else:
        cases += [gen_upd(rng) for _ in range(ctx.scale(120, 2000))]
        cases += [gen_pen(rng) for _ in range(ctx.scale(120, 2000))]
        cases += [gen_decision(rng) for _ in range(ctx.scale(200, 2500))]
        cases += [gen_multiband(rng) for _ in range(ctx.scale(3, 12))]
    terms, meta = [], []
    amp_terms, amp_meta = [], []
    dec = [c for c in cases if c['kind'] == 'decision']
    driven = {}
    for c, (mf, obs) in zip(dec, pmap(_drive_worker, dec)):
        c['modes_final'] = mf
        driven[id(c)] = obs
    for c in cases:
        kind = c['kind']
        ctx.count('kind_' + kind)
        if kind == 'upd':
            impl = drive_upd(c)
            ctx.case(case_public(c), len(c['hist']) > 1)
            terms.append(term_upd(c))
            meta.append((c, impl, None))
        elif kind == 'pen':
            impl = drive_pen(c)
            ctx.case(case_public(c), any(c['tabs']))
            terms.append(term_pen(c))
            meta.append((c, impl, None))
        else:
            obs = driven[id(c)]
            if obs.get('crash'):
                ctx.case(case_public(c), False)
                ctx.count('crashes')
                report_crash(ctx, case_public(c), obs['crash'])
                continue
            if obs.get('exc'):
                # malformed stream: a spacing below the mode's min_spacing is refused at load
                ctx.count('refused_' + obs['exc'])
                m = c['modes'][c['mode']] if c['mode'] is not None else None
                if not (m and m['min_spacing'] > c['spacing']):
                    ctx.violation('unexpected_refusal', f"{obs['exc']} for a valid request", case_public(c))
                continue
            nfw = len([e for e in obs['evals'] if e['dir'] == 'fwd'])
            ctx.case(case_public(c), nfw > 1 or c['bidir'] or any(any(m['tabs']) for m in c['modes_final']))
            ctx.count('decision_auto' if c['mode'] is None else 'decision_fixed')
            ctx.count('decision_bidir' if c['bidir'] else 'decision_unidir')
            if c.get('sim'):
                ctx.count('decision_under_' + c['sim']['nli_params']['method'])
            if c['env'].get('multiband'):
                ctx.count('decision_on_multiband_line')
            if c.get('force_cd_table'):
                ctx.count('decision_worst_channel_regime')
            if obs.get('tx_list'):
                ctx.count('decision_with_initial_spectrum')
                if len(set(obs['tx_list'])) > 1:
                    ctx.count('initial_spectrum_with_several_tx_osnr')
            ctx.count('reason_' + str(obs['reason']))
            ctx.count('modes_evaluated', nfw)
            ctx.count('propagations_in_loop', len(obs['iters']))
            own_oracles(ctx, c, obs)
            lk = leak_check(c, obs)
            if lk:
                ctx.count('state_leak_cases')
                ctx.violation('mode_loop_state_leak',
                              f"mode loop: propagation #{lk.get('iteration')} {lk.get('propagation')} mode m{lk.get('mode')}: "
                              f"GSNR {lk.get('gsnr_in_loop')} dB inside the loop vs {lk.get('gsnr_fresh')} dB propagated alone",
                              case_public(c), detail=lk)
            terms.append(term_decision(c, obs, observed=bool(lk)))
            meta.append((c, impl_line(c, obs), (obs, lk)))
            for t in obs.get('amp_traces', []):
                amp_terms.append(term_amp(t))
                amp_meta.append((c, t))
    ctx.extra['t_gnpy_s'] = round(time.time() - t0 - ctx.extra['t_proof_s'], 1)
    t1 = time.time()
    lines = common.coq_eval('C13', 'Prelude Model.Verdict Run.C13', terms, per_file=ctx.scale(12, 40))
    ctx.extra['t_coq_eval_s'] = round(time.time() - t1, 1)
    for (c, impl, extra), line in zip(meta, lines):
        if c['kind'] == 'upd':
            judge_upd(ctx, c, impl, line)
        elif c['kind'] == 'pen':
            judge_pen(ctx, c, impl, line)
        else:
            obs, lk = extra
            model = parse_model(c, line)
            if not judged(c, obs, model, observed=bool(lk)):
                ctx.count('unjudged_threshold_equal')
                continue
            ctx.count('judged_decisions')
            if lk:
                ctx.count('judged_with_observed_figures')  # only when a leak was flagged
            d = diff_decision(c, impl, model)
            if d:
                ctx.corr_break('corr:Verdict.decision', d, case_public(c), impl=impl, model=model)
            elif model.get('kind'):
                ctx.count('outcome_' + model['kind'])
    if ctx.thorough and not ctx.replay:
        import subprocess
        import sys
        for f in sorted(glob.glob(os.path.join(common.VERIF, 'corpus', 'C13', '*.py'))):
            r = subprocess.run([sys.executable, f], env=dict(os.environ, PYTHONPATH=common.REPO, PYTHONHASHSEED='0'),
                               capture_output=True, text=True, timeout=1800)
            ctx.count('corpus_scripts')
            if r.returncode != 0:
                ctx.violation('corpus_script_fails', f'{os.path.basename(f)} exits {r.returncode}: {r.stdout[-600:]}',
                              {'script': os.path.basename(f)})
    amp_lines = common.coq_eval('C13', 'Prelude Model.Verdict Run.C13', amp_terms, per_file=ctx.scale(120, 400), tag='amps')
    for (c, t), line in zip(amp_meta, amp_lines):
        ctx.count('amplifier_histories')
        ctx.count('amplifier_propagations', len(t['gains']))
        if any(g < b - 1e-12 for g, b in zip(t['gains'], t['before'])):
            ctx.count('amplifier_histories_with_a_clamp')
        judge_amp(ctx, case_public(c), t, line)
    ctx.assumptions += [
        'translator tie: harness/pygen_c13.py (fail-closed Python-ast -> Gallina for the fixed-mode verdict of '
        'compute_path_with_disjunction, the filters / sort key / acceptance test / reasons of propagate_and_optimize_mode, '
        'Transceiver._calc_penalty, snr_sum, Transceiver.update_snr, the penalty normalisation test of json_io; the code around '
        'them is matched literally against templates; dB values are translated symbolically into 1/linear)',
        'receiver figures handed to the model are computed here from the line GSNR of a fresh propagation '
        '(10^(-x/10), log10 of the Python math module) plus the add/drop OSNR of the equipment description and the mode tx_osnr',
        'decisions whose rounded metric equals the threshold (or sits on a rounding tie) are not judged (counted)',
        'ROADM noise handed to the model comes from the equipment description: default add_drop_osnr model, or per-path '
        'roadm-osnr profiles with two frequency ranges (add / drop / express) on the sites that use the profiled type',
    ]
    return common.finish(ctx, MATCHERS)
