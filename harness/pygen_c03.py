"""Translator tie for C03: the scalar content of the analytic GN model in /repo is re-read on every run, translated
(fail closed) into Gallina terms over `Num` and written to coq/theories/Gen/GNGen.v; Proofs/GNGen.v proves every generated
definition equal to the hand-written model Model/GN.v, for every Num (NumR of the theorems, NumF of the execution).

TRANSLATED (entry [cut i, pump j] of the numpy matrices; ci, cj are the model's per-channel records):
  NliSolver.SPM_WEIGHT / XPM_WEIGHT      the two weights                                           -> g_spm_weight, g_xpm_weight
  NliSolver.effective_length             (1 - exp(-alpha L)) / alpha                               -> g_effective_length
  NliSolver._psi                         mean beta2, the two band edges, the asinh kernel, the prefactor -> g_psi
  NliSolver._gn_analytic                 asymptotic length, eta at the cut frequency, eta          -> g_asymptotic_length, g_eta
  NliSolver.compute_nli                  nli_matrix entry (analytic arm)                           -> g_term
  Fiber.alpha, Fiber.beta2               Neper conversion; dispersion without / with slope; beta2  -> g_alpha, g_disp_noslope, g_disp_slope, g_beta2
  FiberParams.__init__                   reference wavelength / frequency, default dispersion, effective area / gamma
                                         defaulting, contrast, loss_coef scaling                   -> g_ref_*, g_default_*, g_area_from_gamma, g_contrast, g_loss_scale
  FiberParams.effective_area_scaling, gamma_scaling                                                -> g_effective_area_scaling, g_gamma_scaling
  Fiber.propagate / RamanFiber.propagate input attenuation and info.apply_attenuation_db          -> g_att_in_db, g_att_lin
TEMPLATE-MATCHED (every statement must be the expected one): the outer()/ones() broadcasting of _psi and _gn_analytic
(which index is cut and which is pump), the weight matrix, the analytic arm of compute_nli, the branch structure of
Fiber.beta2 (table / no slope `is None` / slope) and loss_coef_func, both propagate methods, the table interpolation
Fiber.interpolate_parameter_over_spectrum (scipy interp1d + SpectrumError) and SpectralInformation.__init__ (every
per-channel array re-ordered by argsort(frequency), overlap and baud/slot checks).
"""
import ast
import os

from . import common
from .pygen import Unsupported, dotted, unify, match_template, find, strip_doc
from .pygen_c04 import NumTr, key_of

SCIENCE = 'gnpy/core/science_utils.py'
ELEMENTS = 'gnpy/core/elements.py'
PARAMS = 'gnpy/core/parameters.py'
INFO = 'gnpy/core/info.py'


class GNTr(NumTr):
    """adds x ** 2 (written x * x), exp, log, log10, sqrt, arcsinh, pi"""
    FUN = {'exp': 'nexp', 'log': 'nln', 'log10': 'nlog10', 'sqrt': 'nsqrt', 'arcsinh': 'nasinh', 'abs': 'nabs', 'asarray': None}

    def e(self, n):
        if isinstance(n, ast.BinOp) and isinstance(n.op, ast.Pow):
            if not (isinstance(n.right, ast.Constant) and n.right.value == 2):
                raise Unsupported('power other than ** 2')
            x = self.e(n.left)
            return f'({x} * {x})'
        if isinstance(n, ast.Call) and isinstance(n.func, ast.Name) and n.func.id in self.FUN and len(n.args) == 1 and not n.keywords:
            f = self.FUN[n.func.id]
            return self.e(n.args[0]) if f is None else f'({f} {self.e(n.args[0])})'
        if isinstance(n, ast.Name) and n.id == 'pi':
            return 'npi'
        return super().e(n)


CIJ = {'cut_baud_rate': '(p_B ci)', 'pump_baud_rate': '(p_B cj)', 'cut_beta': '(p_beta2 ci)', 'pump_beta': '(p_beta2 cj)',
       'df': '(p_f cj - p_f ci)', 'asymptotic_length': 'la', 'effective_length': 'leff'}

PSI_TEMPLATE = """
cut_baud_rate = outer(baud_rate, ones(baud_rate.size))
cut_beta = outer(beta2, ones(baud_rate.size))
pump_baud_rate = baud_rate
pump_beta = outer(ones(baud_rate.size), beta2)
beta2 = H_beta
right_extreme = H_right
left_extreme = H_left
psi = H_psi
psi *= H_factor
return psi
"""
GN_TEMPLATE = """
nch = spectral_info.number_of_channels
frequency = spectral_info.frequency
baud_rate = spectral_info.baud_rate
delta_frequency = spectral_info.df
alpha = fiber.alpha(frequency)
beta2 = fiber.beta2(frequency)
gamma = outer(fiber.gamma(frequency), ones(nch))
length = fiber.params.length
identity = diag(ones(nch))
weight = spm_weight * identity + xpm_weight * (ones([nch, nch]) - identity)
effective_length = NliSolver.effective_length(alpha, length)
asymptotic_length = H_la
cut_baud_rate = outer(baud_rate, ones(nch))
pump_baud_rate = outer(ones(nch), baud_rate)
psi = NliSolver._psi(delta_frequency, baud_rate, beta2, effective_length, asymptotic_length)
eta_cut_central_frequency = H_eta1
eta = H_eta
return eta
"""
NLI_ARM_TEMPLATE = """
eta = NliSolver._gn_analytic(spectral_info, fiber)
cut_power = outer(spectral_info.pch, ones(spectral_info.number_of_channels))
pump_power = outer(ones(spectral_info.number_of_channels), spectral_info.pch)
nli_matrix = H_nli
nli = sum(nli_matrix, 1)
"""


def class_const(cls, name):
    for s in cls.body:
        if isinstance(s, ast.Assign) and len(s.targets) == 1 and isinstance(s.targets[0], ast.Name) and s.targets[0].id == name:
            return s.value
    raise Unsupported(f'{name} not found')


def gen_solver(tree):
    cls = find(tree, 'NliSolver')
    tr = GNTr()
    out = ['(* gnpy/core/science_utils.py: NliSolver *)',
           f"Definition g_spm_weight : NT N := {tr.e(class_const(cls, 'SPM_WEIGHT'))}.",
           f"Definition g_xpm_weight : NT N := {tr.e(class_const(cls, 'XPM_WEIGHT'))}.",
           'Definition g_weight (self : bool) : NT N := if self then g_spm_weight else g_xpm_weight.']
    fn = find(tree, 'NliSolver.effective_length')
    b = match_template('return H_r', strip_doc(fn.body), 'NliSolver.effective_length')
    if [a.arg for a in fn.args.args] != ['alpha', 'length']:
        raise Unsupported('signature of effective_length')
    out.append(f"Definition g_effective_length (alpha length : NT N) : NT N := {tr.e(b['H_r'])}.")
    # _psi
    fn = find(tree, 'NliSolver._psi')
    if [a.arg for a in fn.args.args] != ['df', 'baud_rate', 'beta2', 'effective_length', 'asymptotic_length']:
        raise Unsupported('signature of _psi')
    b = match_template(PSI_TEMPLATE, strip_doc(fn.body), 'NliSolver._psi')
    tr = GNTr(names=CIJ)
    out.append('(* _psi, entry [cut ci, pump cj]; la, leff: asymptotic and effective length of the pump column *)')
    out.append('Definition g_psi (ci cj : pch) (la leff : NT N) : NT N :=\n'
               f"  let beta2 := {tr.e(b['H_beta'])} in\n  let right_extreme := {tr.e(b['H_right'])} in\n"
               f"  let left_extreme := {tr.e(b['H_left'])} in\n  let psi := {tr.e(b['H_psi'])} in\n  psi * {tr.e(b['H_factor'])}.")
    # _gn_analytic
    fn = find(tree, 'NliSolver._gn_analytic')
    if [a.arg for a in fn.args.args] != ['spectral_info', 'fiber', 'spm_weight', 'xpm_weight'] or \
            [dotted(d) for d in fn.args.defaults] != ['SPM_WEIGHT', 'XPM_WEIGHT']:
        raise Unsupported('signature of _gn_analytic')
    b = match_template(GN_TEMPLATE, strip_doc(fn.body), 'NliSolver._gn_analytic')
    tr = GNTr(names={'alpha': 'alpha'})
    out.append(f"Definition g_asymptotic_length (alpha : NT N) : NT N := {tr.e(b['H_la'])}.")
    tr = GNTr(names={'gamma': '(p_gamma ci)', 'weight': '(g_weight self)', 'psi': 'psi', 'cut_baud_rate': '(p_B ci)',
                     'pump_baud_rate': '(p_B cj)'})
    out.append('(* _gn_analytic, entry [cut ci, pump cj] given psi of that entry; self <-> identity matrix *)')
    out.append('Definition g_eta (ci cj : pch) (self : bool) (psi : NT N) : NT N :=\n'
               f"  let eta_cut_central_frequency := {tr.e(b['H_eta1'])} in\n  {tr.e(b['H_eta'])}.")
    # compute_nli, analytic arm
    fn = find(tree, 'NliSolver.compute_nli')
    arm = None
    for s in strip_doc(fn.body):
        if isinstance(s, ast.If) and unify(ast.parse("'gn_model_analytic' == sim_params.nli_params.method").body[0].value, s.test, {}):
            arm = s.body
    if arm is None:
        raise Unsupported('compute_nli: the gn_model_analytic arm was not found')
    b = match_template(NLI_ARM_TEMPLATE, arm, 'NliSolver.compute_nli (analytic arm)')
    tr = GNTr(names={'cut_power': '(p_P ci)', 'pump_power': '(p_P cj)', 'eta': 'eta'})
    out.append(f"Definition g_term (ci cj : pch) (eta : NT N) : NT N := {tr.e(b['H_nli'])}.")
    return '\n'.join(out) + '\n'


BETA2_TEMPLATE = """
frequency = asarray(self.params.ref_frequency if frequency is None else frequency)
if self.params.dispersion.size > 1:
    dispersion = self.interpolate_parameter_over_spectrum(self.params.dispersion, self.params.f_dispersion_ref,
                                                          frequency, 'Chromatic Dispersion')
else:
    if self.params.dispersion_slope is None:
        dispersion = H_noslope
    else:
        wavelength = H_wl
        dispersion = H_slope
beta2 = H_beta2
return beta2
"""
LOSS_TEMPLATE = """
frequency = asarray(frequency)
if self.params.loss_coef.size > 1:
    loss_coef = self.interpolate_parameter_over_spectrum(self.params.loss_coef, self.params.f_loss_ref,
                                                         frequency, 'Loss Coefficient')
else:
    loss_coef = full(frequency.size, self.params.loss_coef)
return squeeze(loss_coef)
"""
FIBER_PROPAGATE_TEMPLATE = """
attenuation_in_db = H_att
spectral_info.apply_attenuation_db(attenuation_in_db)
stimulated_raman_scattering = RamanSolver.calculate_stimulated_raman_scattering(spectral_info, self)
nli = NliSolver.compute_nli(spectral_info, stimulated_raman_scattering, self)
spectral_info.add_nli(nli)
spectral_info.chromatic_dispersion += self.chromatic_dispersion(spectral_info.frequency)
spectral_info.pmd = sqrt(spectral_info.pmd ** 2 + self.pmd ** 2)
spectral_info.latency += self.params.latency
attenuation_fiber = stimulated_raman_scattering.loss_profile[:, -1]
spectral_info.apply_attenuation_lin(attenuation_fiber)
attenuation_out_db = self.params.con_out
spectral_info.apply_attenuation_db(attenuation_out_db)
self.pch_out_dbm = spectral_info.pch_dbm
self.propagated_labels = spectral_info.label
"""
RAMAN_PROPAGATE_TEMPLATE = """
pin = spectral_info.ptot_dbm
attenuation_in_db = H_att
spectral_info.apply_attenuation_db(attenuation_in_db)
stimulated_raman_scattering = RamanSolver.calculate_stimulated_raman_scattering(spectral_info, self)
spontaneous_raman_scattering = \\
    RamanSolver.calculate_spontaneous_raman_scattering(spectral_info, stimulated_raman_scattering, self)
nli = NliSolver.compute_nli(spectral_info, stimulated_raman_scattering, self)
spectral_info.add_nli(nli)
ase = spontaneous_raman_scattering
spectral_info.add_ase(ase)
spectral_info.chromatic_dispersion += self.chromatic_dispersion(spectral_info.frequency)
spectral_info.pmd = sqrt(spectral_info.pmd ** 2 + self.pmd ** 2)
spectral_info.latency += self.params.latency
attenuation_fiber = stimulated_raman_scattering.loss_profile[:spectral_info.number_of_channels, -1]
spectral_info.apply_attenuation_lin(attenuation_fiber)
attenuation_out_db = self.params.con_out
spectral_info.apply_attenuation_db(attenuation_out_db)
self.pch_out_dbm = spectral_info.pch_dbm
self.propagated_labels = spectral_info.label
pout = spectral_info.ptot_dbm
self.actual_raman_gain = self.loss + pout - pin
"""
ATT_DB_TEMPLATE = """
attenuation_lin = H_lin
self.apply_attenuation_lin(attenuation_lin)
"""


def gen_fiber(trees):
    el, info = trees[ELEMENTS], trees[INFO]
    out = ['(* gnpy/core/elements.py: Fiber.alpha (lc = loss_coef_func(f) [dB/m]) *)']
    b = match_template('return H_r', strip_doc(find(el, 'Fiber.alpha').body), 'Fiber.alpha')
    r = b['H_r']
    if not (isinstance(r, ast.BinOp) and isinstance(r.op, ast.Div)
            and unify(ast.parse('self.loss_coef_func(frequency)').body[0].value, r.left, {})):
        raise Unsupported('Fiber.alpha is not loss_coef_func(frequency) / <constant>')
    out.append(f"Definition g_alpha (lc : NT N) : NT N := lc / {GNTr().e(r.right)}.")
    match_template(LOSS_TEMPLATE, strip_doc(find(el, 'Fiber.loss_coef_func').body), 'Fiber.loss_coef_func')
    b = match_template(BETA2_TEMPLATE, strip_doc(find(el, 'Fiber.beta2').body), 'Fiber.beta2')
    tr = GNTr(attr={'self.params.f_dispersion_ref': 'f_ref', 'self.params.dispersion': 'd', 'self.params.dispersion_slope': 's'},
              names={'frequency': 'f', 'c': 'c_light', 'dispersion': 'dispersion', 'wavelength': 'wavelength'})
    out += ['(* Fiber.beta2: scalar dispersion without slope / with slope (f_ref = reference frequency), then beta2 *)',
            f"Definition g_disp_noslope (f f_ref d : NT N) : NT N := {tr.e(b['H_noslope'])}.",
            f"Definition g_disp_slope (f f_ref d s : NT N) : NT N :=\n  let wavelength := {tr.e(b['H_wl'])} in\n  {tr.e(b['H_slope'])}.",
            f"Definition g_beta2 (f dispersion : NT N) : NT N := {tr.e(b['H_beta2'])}."]
    tr = GNTr(attr={'self.params.con_in': 'con_in', 'self.params.att_in': 'att_in'})
    b1 = match_template(FIBER_PROPAGATE_TEMPLATE, strip_doc(find(el, 'Fiber.propagate').body), 'Fiber.propagate')
    b2 = match_template(RAMAN_PROPAGATE_TEMPLATE, strip_doc(find(el, 'RamanFiber.propagate').body), 'RamanFiber.propagate')
    a1, a2 = tr.e(b1['H_att']), tr.e(b2['H_att'])
    if a1 != a2:
        raise Unsupported('Fiber.propagate and RamanFiber.propagate apply different input attenuations')
    b = match_template(ATT_DB_TEMPLATE, strip_doc(find(info, 'SpectralInformation.apply_attenuation_db').body), 'apply_attenuation_db')
    out += ['(* Fiber.propagate / RamanFiber.propagate: attenuation applied before the NLI is computed; info.apply_attenuation_db *)',
            f'Definition g_att_in_db (con_in att_in : NT N) : NT N := {a1}.',
            f"Definition g_att_lin (attenuation_db : NT N) : NT N := {GNTr().e(b['H_lin'])}."]
    return '\n'.join(out) + '\n'


AREA_TEMPLATE = """
if self._effective_area is not None:
    default_gamma = H_dg
    self._gamma = kwargs.get('gamma', default_gamma)
elif 'gamma' in kwargs:
    self._gamma = kwargs['gamma']
    self._effective_area = H_area
else:
    self._effective_area = H_defarea
    self._gamma = H_defgamma
"""
REF_TEMPLATE = """
if 'ref_wavelength' in kwargs:
    self._ref_wavelength = kwargs['ref_wavelength']
    self._ref_frequency = H_f_of_w
elif 'ref_frequency' in kwargs:
    self._ref_frequency = kwargs['ref_frequency']
    self._ref_wavelength = H_w_of_f
else:
    self._ref_wavelength = H_defw
    self._ref_frequency = H_deff
"""


def init_stmts(fn):
    body = strip_doc(fn.body)
    if not (len(body) == 1 and isinstance(body[0], ast.Try)):
        raise Unsupported('FiberParams.__init__ is not a single try block')
    return body[0].body


def assigned(stmts, target):
    hits = [s for s in stmts if isinstance(s, ast.Assign) and len(s.targets) == 1 and isinstance(s.targets[0], ast.Attribute)
            and dotted(s.targets[0]) == target]
    if len(hits) != 1:
        raise Unsupported(f'{target} is assigned {len(hits)} times at the top level of FiberParams.__init__')
    return hits[0].value


def gen_params(tree):
    fn = find(tree, 'FiberParams.__init__')
    stmts = init_stmts(fn)
    consts = {'self._n1': 'g_n1', 'self._core_radius': 'g_core_radius', 'self._n2': 'g_n2'}
    tr0 = GNTr(names={'c': 'c_light'})
    out = ['(* gnpy/core/parameters.py: FiberParams.__init__ *)']
    for t, g in consts.items():
        out.append(f'Definition {g} : NT N := {tr0.e(assigned(stmts, t))}.')
    ref = [s for s in stmts if isinstance(s, ast.If) and unify(ast.parse("'ref_wavelength' in kwargs").body[0].value, s.test, {})]
    if len(ref) != 1:
        raise Unsupported('reference wavelength / frequency selection')
    b = match_template(REF_TEMPLATE, ref, 'FiberParams.__init__ (reference)')
    tr = GNTr(attr={'self._ref_wavelength': 'w', 'self._ref_frequency': 'f'}, names={'c': 'c_light'})
    out += [f"Definition g_ref_frequency_of_wavelength (w : NT N) : NT N := {tr.e(b['H_f_of_w'])}.",
            f"Definition g_ref_wavelength_of_frequency (f : NT N) : NT N := {tr.e(b['H_w_of_f'])}.",
            f"Definition g_default_ref_wavelength : NT N := {tr.e(b['H_defw'])}.",
            f"Definition g_default_ref_frequency : NT N := let w := g_default_ref_wavelength in {tr.e(b['H_deff'])}."]
    area = [s for s in stmts if isinstance(s, ast.If) and unify(ast.parse('self._effective_area is not None').body[0].value, s.test, {})]
    if len(area) != 1:
        raise Unsupported('effective area / gamma selection')
    b = match_template(AREA_TEMPLATE, area, 'FiberParams.__init__ (effective area)')
    tr = GNTr(attr=dict(consts, **{'self._ref_wavelength': 'ref_wavelength', 'self._gamma': 'gamma', 'self._effective_area': 'area'}),
              names={'c': 'c_light'})
    dg, dg2 = tr.e(b['H_dg']), tr.e(b['H_defgamma'])
    if dg != dg2:
        raise Unsupported('the two default gamma formulas differ')
    out += [f"Definition g_area_from_gamma (ref_wavelength gamma : NT N) : NT N := {tr.e(b['H_area'])}.",
            f"Definition g_default_area : NT N := {tr.e(b['H_defarea'])}."]
    tr = GNTr(attr=dict(consts, **{'self._ref_frequency': 'ref_frequency', 'self._effective_area': 'area'}), names={'c': 'c_light'})
    out.append(f"Definition g_contrast (ref_frequency area : NT N) : NT N := {tr.e(assigned(stmts, 'self._contrast'))}.")
    # default dispersion and the loss scaling
    disp = [s for s in stmts if isinstance(s, ast.If) and unify(ast.parse("'dispersion_per_frequency' in kwargs").body[0].value, s.test, {})]
    if len(disp) != 1 or not disp[0].orelse or not isinstance(disp[0].orelse[0], ast.If) or not disp[0].orelse[0].orelse:
        raise Unsupported('dispersion selection')
    dflt = [s for s in disp[0].orelse[0].orelse if isinstance(s, ast.Assign) and dotted(s.targets[0]) == 'self._dispersion']
    if len(dflt) != 1:
        raise Unsupported('default dispersion')
    out.append(f'Definition g_default_dispersion : NT N := {tr0.e(dflt[0].value)}.')
    loss = [s for s in stmts if isinstance(s, ast.If) and unify(ast.parse("isinstance(kwargs['loss_coef'], dict)").body[0].value, s.test, {})]
    if len(loss) != 1:
        raise Unsupported('loss_coef selection')
    scal = []
    for arm in (loss[0].body, loss[0].orelse):
        v = [s.value for s in arm if isinstance(s, ast.Assign) and dotted(s.targets[0]) == 'self._loss_coef']
        if len(v) != 1 or not (isinstance(v[0], ast.BinOp) and isinstance(v[0].op, ast.Mult) and isinstance(v[0].left, ast.Call)
                               and dotted(v[0].left.func) == 'asarray'):
            raise Unsupported('loss_coef scaling')
        scal.append(tr0.e(v[0].right))
    if scal[0] != scal[1]:
        raise Unsupported('per-frequency and scalar loss_coef are scaled differently')
    out.append(f'Definition g_loss_scale (v : NT N) : NT N := v * {scal[0]}.')
    # effective_area_scaling / gamma_scaling
    fn = find(tree, 'FiberParams.effective_area_scaling')
    b = match_template('V = H_v\nw = H_w\nreturn asarray(H_r)', strip_doc(fn.body), 'effective_area_scaling')
    tr = GNTr(attr=dict(consts, **{'self._contrast': 'contrast'}), names={'c': 'c_light', 'frequency': 'f'})
    out.append('Definition g_effective_area_scaling (contrast f : NT N) : NT N :=\n'
               f"  let V := {tr.e(b['H_v'])} in\n  let w := {tr.e(b['H_w'])} in\n  {tr.e(b['H_r'])}.")
    fn = find(tree, 'FiberParams.gamma_scaling')
    b = match_template('return asarray(H_r)', strip_doc(fn.body), 'gamma_scaling')
    r = b['H_r']
    call = ast.parse('self.effective_area_scaling(frequency)').body[0].value
    hits = [x for x in ast.walk(r) if unify(call, x, {})]
    if len(hits) != 1:
        raise Unsupported('gamma_scaling does not call effective_area_scaling(frequency) exactly once')

    class Sub(ast.NodeTransformer):
        def visit_Call(self, node):
            return ast.Name(id='area_f') if node is hits[0] else self.generic_visit(node)
    r2 = Sub().visit(r)
    out.append(f"Definition g_gamma_scaling (area_f f : NT N) : NT N := {tr.e(r2)}.")
    return '\n'.join(out) + '\n'


INTERP_TEMPLATE = """
try:
    interpolation = interp1d(ref_frequency, parameter)(spectrum_frequency)
    return interpolation
except ValueError:
    try:
        start = spectrum_frequency[0]
        stop = spectrum_frequency[-1]
    except IndexError:
        start = spectrum_frequency
        stop = spectrum_frequency
    raise SpectrumError(H_msg)
"""
# SpectralInformation.__init__: every per-channel array is re-ordered by increasing frequency before anything else
SI_INIT_TEMPLATE = """
indices = argsort(frequency)
self._frequency = frequency[indices]
self._df = outer(ones(frequency.shape), self._frequency) - outer(self._frequency, ones(frequency.shape))
self._number_of_channels = len(self._frequency)
self._channel_number = [*range(1, self._number_of_channels + 1)]
self._slot_width = slot_width[indices]
self._baud_rate = baud_rate[indices]
overlap = self._frequency[:-1] + self._slot_width[:-1] / 2 > self._frequency[1:] - self._slot_width[1:] / 2
if any(overlap):
    overlap = H_pairs
    raise SpectrumError(H_msg1)
exceed = self._baud_rate > self._slot_width
if any(exceed):
    raise SpectrumError(H_msg2)
self._pch = pch[indices]
self._signal_ratio = signal_ratio[indices]
self._nli_ratio = nli_ratio[indices]
self._ase_ratio = ase_ratio[indices]
self._roll_off = roll_off[indices]
self._chromatic_dispersion = chromatic_dispersion[indices]
self._pmd = pmd[indices]
self._pdl = pdl[indices]
self._latency = latency[indices]
self._delta_pdb_per_channel = delta_pdb_per_channel[indices]
self._tx_osnr = tx_osnr[indices]
self._tx_power = tx_power[indices]
self._label = label[indices]
"""


def check_plumbing(trees):
    """statements with no scalar content of their own, on which the meaning of the translated terms rests: the sorting of
    every per-channel array in SpectralInformation.__init__ (the matrices are indexed by sorted position) and the table
    interpolation used for per-frequency loss / dispersion (scipy interp1d: sorts its abscissae, refuses extrapolation)"""
    match_template(SI_INIT_TEMPLATE, strip_doc(find(trees[INFO], 'SpectralInformation.__init__').body), 'SpectralInformation.__init__')
    match_template(INTERP_TEMPLATE, strip_doc(find(trees[ELEMENTS], 'Fiber.interpolate_parameter_over_spectrum').body),
                   'Fiber.interpolate_parameter_over_spectrum')


def generate(repo=None):
    repo = repo or common.REPO
    trees = {p: ast.parse(open(os.path.join(repo, p)).read()) for p in (SCIENCE, ELEMENTS, PARAMS, INFO)}
    check_plumbing(trees)
    parts = ['(* GENERATED on every run by harness/pygen_c03.py from gnpy/core/science_utils.py, gnpy/core/elements.py,',
             '   gnpy/core/parameters.py and gnpy/core/info.py of /repo - do not edit. *)',
             'From Verif Require Import Prelude Num Model.GN.', '',
             'Section GNGen.', 'Context {N : Num}.', 'Local Open Scope num_scope.', '',
             gen_solver(trees[SCIENCE]), gen_fiber(trees), gen_params(trees[PARAMS]), 'End GNGen.', '']
    return '\n'.join(parts)


def regenerate():
    """(Re)write coq/theories/Gen/GNGen.v when its content changed. Returns (ok, message)."""
    dst = os.path.join(common.COQ, 'theories', 'Gen', 'GNGen.v')
    try:
        txt = generate()
    except (Unsupported, SyntaxError, OSError, KeyError) as e:
        return False, f'translation failed: {type(e).__name__}: {e}'
    os.makedirs(os.path.dirname(dst), exist_ok=True)
    if not os.path.exists(dst) or open(dst).read() != txt:
        with open(dst, 'w') as f:
            f.write(txt)
    return True, 'ok'


if __name__ == '__main__':
    print(generate())
