"""C03 — fibre NLI equals the GN-model closed form and obeys its scaling laws.

Tie: random fibres x random non-overlapping WDM combs are driven through the real code
  (a) Fiber.__call__ with NliSolver.compute_nli wrapped (captures the NLI vector really added to the spectrum), and
  (b) NliSolver.compute_nli called directly (also with unsorted duck-typed spectra),
and through the Gallina model `Verif.Model.GN.fiber_nli` instantiated at NumF (binary64; Gallina exp/ln/asinh) and
evaluated by vm_compute; per-channel NLI compared with relative tolerance 1e-9.  The same Gallina term instantiated
at NumR (Coq reals) is what Props/C03.v proves the scaling laws about.
Oracle (on the implementation's own results): non-negativity, x k power -> x k^3 NLI, adding a channel / raising a
power never lowers any channel's NLI, supplying the channels in another order gives the same per-channel NLI.
"""
import glob
import json
import math
import os
from types import SimpleNamespace as NS

from . import common
from .common import listlit, zlit

TOL = 1e-9


# ------------------------------------------------------------------ literals / parsing
def hexf(x):
    x = float(x)
    if x != x or x in (math.inf, -math.inf):
        raise ValueError('non-finite literal')
    return f'({x.hex()})' if x >= 0 else f'(-{(-x).hex()})'


def flist(xs):
    return listlit([hexf(x) for x in xs])


def parse_f(s):
    if s == 'nan':
        return math.nan
    if s == 'inf':
        return math.inf
    if s == '-inf':
        return -math.inf
    m, e = s.split(':')
    return math.ldexp(int(m), int(e))


def parse_row(s):
    if s.startswith('E:'):
        return s
    if s == '':
        return []
    return [parse_f(t) for t in s.split(',')]


def coq_eval_retry(ctx, *a, **k):
    """coqc is occasionally killed when the machine is overloaded: retry once before giving up"""
    import time
    try:
        return common.coq_eval(*a, **k)
    except RuntimeError as e:
        ctx.notes.append(f'coq_eval retried after: {str(e)[:200]}')
        time.sleep(10)
        return common.coq_eval(*a, **k)


# ------------------------------------------------------------------ generators
def gen_comb(rng, nmax):
    """non-overlapping comb: list of [f, baud, slot, power_W]"""
    style = rng.random()
    n = rng.choice([1, 2, 3, 5, 8, 13, 21, 40, 64, 96, 120]) if rng.random() < 0.5 else rng.randint(1, nmax)
    n = min(n, nmax)
    band_lo = rng.choice([191.3e12, 191.3e12, 186.0e12, 192.5e12])
    chans = []
    if style < 0.4:
        slot = rng.choice([37.5e9, 50e9, 50e9, 75e9, 100e9, 150e9])
        baud = rng.choice([slot * 0.64, slot * 0.85, slot, 32e9 if slot >= 32e9 else slot])
        # one slot width for all, baud rate per channel: any re-assignment of baud rates still fits every slot
        mixed_baud = rng.random() < 0.45
        f0 = band_lo + rng.randint(0, 40) * 12.5e9
        step = slot * rng.choice([1, 1, 1, 2])
        p = 10 ** (rng.uniform(-6, 4) / 10) * 1e-3
        for i in range(n):
            b = min(slot, rng.choice([slot * rng.uniform(0.3, 1.0), 24e9, 32e9, 44e9, 64e9])) if mixed_baud else baud
            chans.append([f0 + i * step, b, slot, p if rng.random() < 0.8 or style < 0.2 else
                          10 ** (rng.uniform(-8, 5) / 10) * 1e-3])
    else:
        edge = band_lo + rng.randint(0, 40) * 6.25e9
        for i in range(n):
            slot = rng.choice([25e9, 37.5e9, 50e9, 62.5e9, 75e9, 87.5e9, 100e9, 112.5e9, 150e9])
            baud = min(slot, rng.choice([slot * rng.uniform(0.5, 1.0), 32e9, 44e9, 64e9, 90e9, 24e9]))
            gap = rng.choice([0, 0, 0, 6.25e9, 12.5e9, 50e9, 300e9]) if rng.random() < 0.7 else rng.uniform(0, 500e9)
            f = edge + gap + slot / 2
            edge = f + slot / 2
            chans.append([f, baud, slot, 10 ** (rng.uniform(-10, 6) / 10) * 1e-3])
    return chans


def gen_table(rng, lo, hi, vlo, vhi, cover=True):
    k = rng.randint(2, 6)
    span = hi - lo
    if cover:
        a = lo - rng.choice([0, 0, 1e9, rng.uniform(0, 2e12)])
        b = hi + rng.choice([0, 0, 1e9, rng.uniform(0, 2e12)])
    else:
        if rng.random() < 0.5:
            a, b = lo + max(1e9, span * rng.uniform(0.05, 0.9)) + 1e9, hi + 3e12
        else:
            a, b = lo - 3e12, hi - max(1e9, span * rng.uniform(0.05, 0.9)) - 1e9
        if b <= a:
            b = a + 1e12
    inner = sorted(rng.uniform(a, b) for _ in range(k - 2))
    fs = [a] + inner + [b]
    fs = sorted(set(fs))
    vs = [rng.uniform(vlo, vhi) for _ in fs]
    return fs, vs


def zero_crossing_dispersion(rng, fd, chans):
    """dispersion (slope or per-frequency table) whose zero lies inside the comb, off the channel grid and away from
    the mirror points where two channels would have exactly opposite beta2 (0/0 in the kernel): beta2 changes sign
    across the channels.  None if no safe position is found."""
    c0 = 299792458.0
    fs = sorted(c[0] for c in chans)
    for _ in range(12):
        i = rng.randrange(len(fs) - 1)
        t = rng.choice([rng.uniform(0.08, 0.42), rng.uniform(0.58, 0.92)])
        fz = fs[i] + t * (fs[i + 1] - fs[i])
        if rng.random() < 0.6:
            fref = c0 / 1550e-9 if not fd['ref'] else (c0 / fd['ref'][1] if fd['ref'][0] == 'w' else fd['ref'][1])
            slope = rng.uniform(0.04e3, 0.09e3)
            cand = ['l', slope * (c0 / fref - c0 / fz), slope]
        else:
            lo, hi = fs[0] - rng.uniform(1e9, 1e12), fs[-1] + rng.uniform(1e9, 1e12)
            k = rng.uniform(2e-18, 8e-18)              # s/m^2 per Hz
            cand = ['t', [lo, fz, hi], [k * (fz - lo), 0.0, -k * (hi - fz)]]
        b2 = [ref_phys(dict(fd, disp=cand), f)[1] for f in fs]
        big = max(abs(x) for x in b2)
        if min(abs(x) for x in b2) < 1e-3 * big:
            continue
        if any(abs(b2[a] + b2[b]) < 1e-3 * big for a in range(len(b2)) for b in range(a + 1, len(b2))):
            continue
        if min(b2) < 0 < max(b2):
            return cand
    return None


def gen_case(rng, nmax=120, malformed=False):
    chans = gen_comb(rng, nmax)
    lo = min(c[0] for c in chans)
    hi = max(c[0] for c in chans)
    fd = {'length_km': rng.choice([rng.uniform(1, 200), rng.uniform(1, 200), 10 ** rng.uniform(0, 2.3), 80.0, 1.0, 200.0]),
          'att_in': rng.choice([0, 0, 0.0, 1e-9, rng.uniform(0, 3)]),
          'con_in': rng.choice([0, 0.0, 0.5, 1e-9, rng.uniform(0, 2)]),
          'con_out': rng.choice([0, 0.0, 0.5, rng.uniform(0, 2)])}
    r = rng.random()
    fd['ref'] = None if r < 0.7 else (['w', rng.uniform(1530e-9, 1600e-9)] if r < 0.85 else ['f', rng.uniform(186e12, 196e12)])
    bad = rng.choice(['loss', 'disp']) if malformed else None
    if rng.random() < 0.5 and bad != 'loss':
        fd['loss'] = rng.uniform(0.15, 0.35)
    else:
        fs, vs = gen_table(rng, lo, hi, 0.16, 0.3, cover=bad != 'loss')
        fd['loss'] = {'frequency': fs, 'value': vs}
    r = rng.random()
    sign = -1 if rng.random() < 0.1 else 1
    if bad == 'disp' or r < 0.25:
        fs, vs = gen_table(rng, lo, hi, 3e-6, 2.4e-5, cover=bad != 'disp')
        fd['disp'] = ['t', fs, [sign * v for v in vs]]
    elif r < 0.4:
        fd['disp'] = None
    elif r < 0.7:
        fd['disp'] = ['s', sign * rng.choice([1.67e-5, 4e-6, 2.0e-5, rng.uniform(2e-6, 2.5e-5)])]
    else:
        # D + slope; keep the zero-dispersion frequency outside of the comb (beta2 of a pair must not cancel)
        fd['disp'] = ['l', rng.uniform(8e-6, 2.5e-5),
                      rng.choice([0.06e3, 0.058e3, rng.uniform(0.02e3, 0.09e3), 0.0, 0.0, 1e-9, -1e-9, -0.03e3, 0])]
    r = rng.random()
    fd['area'] = None if r < 0.4 else (['a', rng.uniform(50e-12, 130e-12)] if r < 0.75 else ['g', rng.uniform(0.7e-3, 2.2e-3)])
    if not malformed and len(chans) >= 2 and rng.random() < 0.15:
        z = zero_crossing_dispersion(rng, fd, chans)
        if z:
            fd['disp'] = z
    raman_flag = False
    if not malformed and len(chans) <= 40 and rng.random() < 0.25:
        # Raman-amplified span (needs the Raman solver) or a plain fibre with inter-channel Raman scattering on
        raman_flag = True
        if rng.random() < 0.7:
            npump = rng.randint(1, 3)
            fd['raman'] = {'temperature': rng.choice([283, 298.15]),
                           'pumps': [[rng.uniform(0.05, 0.3), rng.uniform(200e12, 206e12),
                                      rng.choice(['counterprop', 'counterprop', 'coprop'])] for _ in range(npump)]}
            fd['att_in'] = rng.choice([rng.uniform(0.3, 4), rng.uniform(0.3, 4), 0])
            fd['length_km'] = rng.uniform(20, 160)
            if isinstance(fd['loss'], dict):       # the Raman solver needs the loss at the pump frequencies too
                top = max(pf for _, pf, _ in fd['raman']['pumps']) + 1e12
                if fd['loss']['frequency'][-1] < top:
                    fd['loss'] = {'frequency': fd['loss']['frequency'] + [top], 'value': fd['loss']['value'] + [rng.uniform(0.2, 0.3)]}
                # ... and at the reference frequency (RamanFiber reports its gain against Fiber.loss)
                fref = 299792458.0 / 1550e-9 if not fd['ref'] else (299792458.0 / fd['ref'][1] if fd['ref'][0] == 'w' else fd['ref'][1])
                if fref < fd['loss']['frequency'][0]:
                    fd['loss'] = {'frequency': [fref - 1e11] + fd['loss']['frequency'], 'value': [rng.uniform(0.2, 0.3)] + fd['loss']['value']}
    # per-frequency tables are listed by increasing, decreasing or arbitrary frequency
    def reorder(fs, vs):
        how = rng.choice(['inc', 'inc', 'dec', 'dec', 'shuffled'])
        idx = list(range(len(fs)))
        if how == 'dec':
            idx.reverse()
        elif how == 'shuffled':
            rng.shuffle(idx)
        return [fs[i] for i in idx], [vs[i] for i in idx]
    if isinstance(fd['loss'], dict):
        a_, b_ = reorder(fd['loss']['frequency'], fd['loss']['value'])
        fd['loss'] = {'frequency': a_, 'value': b_}
    if fd['disp'] and fd['disp'][0] == 't':
        a_, b_ = reorder(fd['disp'][1], fd['disp'][2])
        fd['disp'] = ['t', a_, b_]
    ints = rng.random() < 0.3
    if ints:        # integral Hz / Baud values, handed over as int64 arrays
        # (slot widths 2 Hz narrower so that rounding the centre frequencies cannot make neighbours overlap)
        chans = [[float(round(c[0])), float(min(math.floor(c[1]), math.floor(c[2]) - 2)), float(math.floor(c[2]) - 2), c[3]] for c in chans]
    return {'fiber': fd, 'raman_flag': raman_flag, 'ints': ints, 'chan': chans, 'order': 'shuffled' if rng.random() < 0.3 and len(chans) > 1 else 'sorted',
            'perm_seed': rng.randint(0, 10 ** 9), 'k': rng.choice([2.0, 2.0, 0.5, rng.uniform(0.25, 4)]),
            'pick': rng.randint(0, len(chans) - 1), 'raise_db': rng.uniform(0.1, 6)}


def gen_history(rng):
    base = gen_case(rng, nmax=24)
    while base['fiber'].get('raman') and rng.random() < 0.7:       # Raman spans are slow: keep a few
        base = gen_case(rng, nmax=24)
    fd = base['fiber']
    chans = sorted(base['chan'], key=lambda c: c[0])
    steps = [{'set': {}, 'chan': chans}]
    for _ in range(rng.randint(1, 3)):
        what = rng.choice(['length_km', 'length_km', 'att_in', 'con_in', 'con_out', None])
        upd = {}
        if what == 'length_km':
            upd['length_km'] = rng.choice([fd['length_km'] / 2, fd['length_km'] * rng.uniform(0.2, 1.8), rng.uniform(1, 150)])
        elif what:
            upd[what] = rng.choice([0.0, rng.uniform(0.1, 3)])
        prev = steps[-1]['chan']
        r = rng.random()
        if r < 0.55:
            new = [list(c) for c in prev]                                     # the same comb again
        elif r < 0.7:
            new = [[c[0], c[1], c[2], c[3] * 10 ** (rng.uniform(-3, 3) / 10)] for c in prev]      # same grid, other powers
        elif r < 0.85:
            new = [[c[0], min(c[2], c[1] * rng.uniform(0.6, 1.3)), c[2], c[3]] for c in prev]     # other baud rates
        else:
            keep = sorted(rng.sample(range(len(prev)), max(1, len(prev) - rng.randint(1, max(1, len(prev) // 2)))))
            new = [list(prev[i]) for i in keep]                               # fewer channels
        steps.append({'set': upd, 'chan': new})
    return dict(base, order='sorted', history=steps, chan=chans)


# ------------------------------------------------------------------ implementation driver
def make_fiber(fd):
    from gnpy.core.elements import Fiber, RamanFiber
    p = {'length': fd['length_km'], 'length_units': 'km', 'att_in': fd['att_in'], 'con_in': fd['con_in'],
         'con_out': fd['con_out'], 'pmd_coef': 1.265e-15, 'loss_coef': fd['loss']}
    if fd['ref']:
        p['ref_wavelength' if fd['ref'][0] == 'w' else 'ref_frequency'] = fd['ref'][1]
    d = fd['disp']
    if d:
        if d[0] == 's':
            p['dispersion'] = d[1]
        elif d[0] == 'l':
            p['dispersion'], p['dispersion_slope'] = d[1], d[2]
        else:
            p['dispersion_per_frequency'] = {'frequency': d[1], 'value': d[2]}
    a = fd['area']
    if a:
        p['effective_area' if a[0] == 'a' else 'gamma'] = a[1]
    rm = fd.get('raman')
    if rm:
        fib = RamanFiber(uid='fiber', type_variety='SSMF', params=p, operational={
            'temperature': rm['temperature'],
            'raman_pumps': [{'power': pw, 'frequency': fr, 'propagation_direction': d_} for pw, fr, d_ in rm['pumps']]})
    else:
        fib = Fiber(uid='fiber', type_variety='SSMF', params=p)
    fib.ref_pch_in_dbm = 0.0
    return fib


def set_sim(raman_flag):
    from gnpy.core.parameters import SimParams
    SimParams.set_params({'nli_params': {'method': 'gn_model_analytic'},
                          'raman_params': {'flag': bool(raman_flag), 'result_spatial_resolution': 10e3,
                                           'solver_spatial_resolution': 100}})


_INTS = [False]      # the comb of the case in hand is supplied with integer-typed frequency / baud rate / slot width


def typed(values):
    """the vector as gnpy is given it: float64, or int64 (as json.load / numpy.arange produce) when the case says so and
    every value is integral"""
    import numpy as np
    a = np.array(values, dtype=float)
    if _INTS[0] and len(values) and all(float(v).is_integer() and abs(v) < 2 ** 62 for v in values):
        return a.astype(np.int64)
    return a


def make_si(chans):
    import numpy as np
    from gnpy.core.info import create_arbitrary_spectral_information
    f, b, s = (typed([c[i] for c in chans]) for i in range(3))
    p = np.array([c[3] for c in chans], dtype=float)
    return create_arbitrary_spectral_information(f, slot_width=s, pch=p, baud_rate=b, tx_osnr=40.0, tx_power=p)


def duck_si(chans):
    """what _gn_analytic / compute_nli read from a spectral information, in the order given (not sorted)"""
    import numpy as np
    f, b = (typed([c[i] for c in chans]) for i in (0, 1))
    p = np.array([c[3] for c in chans], dtype=float)
    n = len(chans)
    return NS(number_of_channels=n, frequency=f, baud_rate=b, pch=p,
              df=np.outer(np.ones(n), f) - np.outer(f, np.ones(n)), channel_number=list(range(1, n + 1)))


def direct_nli(fib, chans, duck=False):
    from gnpy.core.science_utils import NliSolver
    si = duck_si(chans) if duck else make_si(chans)
    return [float(x) for x in NliSolver.compute_nli(si, None, fib)]


def drive(case):
    """fresh fibre object, one propagation"""
    set_sim(case.get('raman_flag'))
    try:
        fib = make_fiber(case['fiber'])
    except Exception as e:   # noqa
        set_sim(False)
        return {'out': f'E:{type(e).__name__}', 'exc': str(e)}
    return propagate(fib, case)


def apply_setters(fib, upd):
    """change public fibre parameters the way client code does (network.py sets params.length, att_in, con_in/out)"""
    for k, v in upd.items():
        if k == 'length_km':
            fib.params.length = v * 1e3
        else:
            setattr(fib.params, k, v)


def propagate(fib, case):
    """returns dict(out= list of nli | 'E:Type', ratio=..., phys=...) from Fiber.__call__ with compute_nli wrapped"""
    import gnpy.core.science_utils as su
    from gnpy.core.info import SpectralInformation
    rec = {}
    set_sim(case.get('raman_flag'))
    _INTS[0] = bool(case.get('ints'))
    rec['fiber'] = fib
    chans = sorted(case['chan'], key=lambda c: c[0])
    captured = {}
    orig = su.NliSolver.compute_nli

    def wrapped(spectral_info, srs, fiber):
        res = orig(spectral_info, srs, fiber)
        captured['nli'] = [float(x) for x in res]
        captured['pch'] = [float(x) for x in spectral_info.pch]
        captured['freq'] = [float(x) for x in spectral_info.frequency]
        return res
    orig_add = SpectralInformation.add_nli

    def wrapped_add(self, nli):
        res = orig_add(self, nli)
        captured['share'] = [float(x) for x in self._nli_ratio]     # before a Raman fibre adds its ASE
        return res
    su.NliSolver.compute_nli = staticmethod(wrapped)
    SpectralInformation.add_nli = wrapped_add
    try:
        supplied = list(case['chan'])
        if case.get('order') == 'shuffled':      # the comb is handed over in another order; SpectralInformation sorts
            import random
            random.Random(case['perm_seed'] + 1).shuffle(supplied)
        try:
            si = make_si(supplied)
            out = fib(si)
            rec['out'] = captured['nli']
            rec['pch_at_nli'] = captured['pch']
            rec['freq'] = captured['freq']
            rec['nli_ratio'] = captured['share']
        except Exception as e:  # noqa
            rec['out'] = f'E:{type(e).__name__}'
            rec['exc'] = str(e)
    finally:
        su.NliSolver.compute_nli = staticmethod(orig)
        SpectralInformation.add_nli = orig_add
        set_sim(False)
    try:
        f0 = chans[0][0]
        rec['phys'] = [float(fib.alpha(f0)), float(fib.beta2(f0)), float(fib.gamma(f0))]
    except Exception as e:  # noqa
        rec['phys'] = f'E:{type(e).__name__}'
    return rec


# ------------------------------------------------------------------ property oracle on the implementation
def close(a, b, tol):
    return abs(a - b) <= tol * max(abs(a), abs(b), 1e-300)


def oracle(case, rec, rng_perm):
    """the statement of C03 evaluated on what compute_nli returns; list of (key, description).
    An exception raised by the implementation on a variation (scaled / raised / reduced / permuted) of a comb it
    accepted is itself a failure of the law being tested, never a crash of the check."""
    state = {'step': 'baseline'}
    try:
        return _oracle(case, rec, state)
    except Exception as e:  # noqa
        key = {'permuted': 'order_dependence_raises', 'permuted_solver': 'order_dependence_raises',
               'scaled': 'scaling_raises', 'raised': 'power_raise_raises', 'reduced': 'channel_removal_raises',
               'baseline': 'exception'}[state['step']]
        return [(key, f"{state['step']} comb: {type(e).__name__}: {str(e)[:160]} (the comb itself was accepted)")]


def _oracle(case, rec, state):
    import random
    fails = []
    fib = rec['fiber']
    chans = sorted(case['chan'], key=lambda c: c[0])
    base = direct_nli(fib, chans)
    if any(not (x >= 0) or x != x or x == math.inf for x in base):
        fails.append(('negative_or_nan', f'NLI not a non-negative finite number: {min(base)}'))
        return fails
    # cube law
    k = case['k']
    state['step'] = 'scaled'
    sc = direct_nli(fib, [[c[0], c[1], c[2], c[3] * k] for c in chans])
    for i, (a, b) in enumerate(zip(base, sc)):
        if not close(a * k ** 3, b, 1e-9):
            fails.append(('not_cubic', f'power x{k}: channel {i} NLI x{b / a if a else math.inf} instead of x{k ** 3}'))
            break
    # raising one power never lowers anybody's NLI
    j = case['pick'] % len(chans)
    up = [list(c) for c in chans]
    up[j][3] *= 10 ** (case['raise_db'] / 10)
    state['step'] = 'raised'
    ra = direct_nli(fib, up)
    for i, (a, b) in enumerate(zip(base, ra)):
        if b < a * (1 - 1e-12):
            fails.append(('power_raise_lowers_nli', f'raising channel {j} by {case["raise_db"]:.2f} dB lowers NLI of channel {i}: {a} -> {b}'))
            break
    if i_strict(base, ra, j) is False:
        fails.append(('power_raise_no_effect', f'raising channel {j} does not raise its own NLI'))
    # adding a channel never lowers anybody's NLI (comb without channel j  vs  comb with it)
    if len(chans) > 1:
        less = chans[:j] + chans[j + 1:]
        state['step'] = 'reduced'
        lo = direct_nli(fib, less)
        hi = base[:j] + base[j + 1:]
        for i, (a, b) in enumerate(zip(lo, hi)):
            if b < a * (1 - 1e-12):
                fails.append(('added_channel_lowers_nli', f'adding channel {j} lowers NLI of a neighbour: {a} -> {b}'))
                break
    # order independence: (1) the channels supplied in another order to the spectral information,
    # (2) compute_nli itself on unsorted arrays
    r = random.Random(case['perm_seed'])
    perm = list(range(len(chans)))
    r.shuffle(perm)
    sh = [chans[i] for i in perm]
    state['step'] = 'permuted'
    v1 = direct_nli(fib, sh)                 # SpectralInformation sorts -> same order as base
    for i, (a, b) in enumerate(zip(base, v1)):
        if not close(a, b, 1e-12):
            fails.append(('order_dependent', f'channels supplied in another order: NLI of channel {i} {a} -> {b}'))
            break
    state['step'] = 'permuted_solver'
    v2 = direct_nli(fib, sh, duck=True)
    for pos, i in enumerate(perm):
        if not close(base[i], v2[pos], 1e-9):
            fails.append(('order_dependent_solver', f'compute_nli on unsorted arrays: channel {i} {base[i]} -> {v2[pos]}'))
            break
    return fails


def ref_phys(fd, f):
    """alpha, beta2, gamma of the fibre at frequency f from its declared parameters, written independently of gnpy
    (scalar arithmetic): what 'that fibre' means in the statement.  None where a table does not cover f."""
    c0, n2, r, n1 = 299792458.0, 2.6e-20, 4.2e-6, 1.468
    if not fd['ref']:
        lam = 1550e-9
        fref = c0 / lam
    elif fd['ref'][0] == 'w':
        lam = fd['ref'][1]
        fref = c0 / lam
    else:
        fref = fd['ref'][1]
        lam = c0 / fref

    def interp(xs, ys):
        if len(xs) == 1:
            return None
        xs, ys = zip(*sorted(zip(xs, ys)))       # rows in any order: the table is a function of frequency
        if f < xs[0] or f > xs[-1]:
            return 'out'
        for x0, x1, y0, y1 in zip(xs, xs[1:], ys, ys[1:]):
            if f <= x1:
                return y0 + (y1 - y0) * (f - x0) / (x1 - x0)
    ls = fd['loss']
    if isinstance(ls, dict):
        lc = ls['value'][0] if len(ls['value']) == 1 else interp(ls['frequency'], ls['value'])
    else:
        lc = ls
    d = fd['disp']
    if not d:
        disp = (f / fref) ** 2 * 1.67e-5
    elif d[0] == 's':
        disp = (f / fref) ** 2 * d[1]
    elif d[0] == 'l':
        disp = d[1] + d[2] * (c0 / f - c0 / fref)        # a declared slope, zero included, means D + S (lambda - lambda_ref)
    else:
        disp = (f / d[1][0]) ** 2 * d[2][0] if len(d[1]) == 1 else interp(d[1], d[2])
    if lc == 'out' or disp == 'out':
        return None
    a = fd['area']
    aeff = 83e-12 if not a else (a[1] if a[0] == 'a' else 2 * math.pi * n2 / (lam * a[1]))
    contrast = 0.5 * (c0 / (2 * math.pi * fref * r * n1) * math.exp(math.pi * r ** 2 / aeff)) ** 2
    v = 2 * math.pi * f / c0 * r * n1 * math.sqrt(2 * contrast)
    w = r / math.sqrt(math.log(v))
    return [lc * 1e-3 / (10 * math.log10(math.e)), -((c0 / f) ** 2 * disp) / (2 * math.pi * c0),
            2 * math.pi * n2 * f / (c0 * math.pi * w ** 2)]


def ref_nli(fd, chans):
    """the published GN closed form (arXiv:1209.0394 eq. 120-123) on the declared fibre and the launched comb, plain
    scalar Python: nli_i = sum_j P_i P_j^2 gamma_i^2 w_ij psi_ij / B_j^2, w_ii = 16/27, w_ij = 32/27,
    psi_ij = [asinh(pi^2 La_j |b_ij| B_i (df + B_j/2)) - asinh(pi^2 La_j |b_ij| B_i (df - B_j/2))] Leff_j^2 / (4 pi |b_ij| La_j).
    chans: [f, baud, slot, power launched into the fibre]; None when a table does not cover the comb"""
    length = fd['length_km'] * 1e3
    att = 10 ** (-(fd['con_in'] + fd['att_in']) / 10)
    ph = [ref_phys(fd, c[0]) for c in chans]
    if any(p is None for p in ph):
        return None
    n = len(chans)
    f = [c[0] for c in chans]
    bw = [c[1] for c in chans]
    pw = [c[3] * att for c in chans]
    la = [1 / p[0] for p in ph]
    leff2 = [((1 - math.exp(-p[0] * length)) / p[0]) ** 2 for p in ph]
    out = []
    pi2 = math.pi ** 2
    for i in range(n):
        acc = 0.0
        bi, b2i = bw[i], ph[i][1]
        for j in range(n):
            b = abs(b2i + ph[j][1]) / 2
            cc = pi2 * la[j] * b * bi
            df = f[j] - f[i]
            psi = (math.asinh(cc * (df + bw[j] / 2)) - math.asinh(cc * (df - bw[j] / 2))) / (4 * math.pi * b * la[j]) * leff2[j]
            acc += pw[j] ** 2 * (16 / 27 if i == j else 32 / 27) * psi / bw[j] ** 2
        out.append(pw[i] * ph[i][2] ** 2 * acc)
    return out


def i_strict(base, ra, j):
    return ra[j] > base[j] if base[j] > 0 else None


# ------------------------------------------------------------------ model side
def sorted_table(fs, vs):
    pairs = sorted(zip(fs, vs))
    return [a for a, _ in pairs], [b for _, b in pairs]


def fiber_term(fd):
    ref = 'rD' if not fd['ref'] else f"({'rW' if fd['ref'][0] == 'w' else 'rF'} {hexf(fd['ref'][1])})"
    ls = fd['loss']
    if isinstance(ls, dict):
        lf, lv = sorted_table(ls['frequency'], ls['value'])       # a table is a set of (frequency, value) rows
        loss = f'(lT {flist(lf)} {flist(lv)})'
    else:
        loss = f'(lS {hexf(ls)})'
    d = fd['disp']
    if not d:
        disp = 'dD'
    elif d[0] == 's':
        disp = f'(dS {hexf(d[1])})'
    elif d[0] == 'l':
        disp = f'(dL {hexf(d[1])} {hexf(d[2])})'
    else:
        df_, dv_ = sorted_table(d[1], d[2])
        disp = f'(dT {flist(df_)} {flist(dv_)})'
    a = fd['area']
    area = 'aD' if not a else f"({'aA' if a[0] == 'a' else 'aG'} {hexf(a[1])})"
    return f"(fb {hexf(fd['length_km'] * 1e3)} {hexf(fd['att_in'])} {hexf(fd['con_in'])} {ref} {loss} {disp} {area})"


def chan_terms(chans):
    return listlit([f'ch {hexf(c[0])} {hexf(c[1])} {hexf(c[3])}' for c in chans])


def selftest_terms(rng, n):
    pts = []
    for _ in range(n):
        pts.append((0, rng.choice([rng.uniform(-30, 30), rng.uniform(-1, 1), rng.uniform(-700, 700), -10 ** rng.uniform(-8, 0)])))
        pts.append((1, 10 ** rng.uniform(-30, 30) if rng.random() < 0.6 else rng.uniform(0.5, 2)))
        pts.append((2, rng.choice([-1, 1]) * 10 ** rng.uniform(-9, 9)))
        pts.append((3, rng.uniform(-30, 30) if rng.random() < 0.7 else rng.uniform(-0.5, 0.5)))
        pts.append((4, 10 ** rng.uniform(-30, 30) if rng.random() < 0.6 else rng.uniform(0.5, 2)))
    return pts


def selftest_ref(k, x):
    return [math.exp, math.log, math.asinh, lambda v: 10.0 ** v, math.log10][k](x)


# ------------------------------------------------------------------ run
def strip(c):
    return {k: v for k, v in c.items() if not k.startswith('_')}


def run(ctx):
    import logging
    import warnings
    logging.disable(logging.CRITICAL)
    import numpy  # noqa (numpy installs an 'always' filter for RankWarning at import time)
    import gnpy.core.elements  # noqa
    warnings.simplefilter('ignore')
    from gnpy.core.parameters import SimParams
    rng = ctx.rng
    # second tie: re-translate the scalar content of the analytic GN model from /repo's source; the equivalence lemmas of
    # Proofs/GNGen.v are then re-checked by check_props against what the code says now
    from . import pygen_c03
    gen_ok, gen_msg = pygen_c03.regenerate()
    ctx.proof = common.check_props('C03')
    if not gen_ok:
        ctx.proof['ok'] = False
        ctx.proof['log'] = 'harness/pygen_c03.py: ' + gen_msg + '\n' + ctx.proof.get('log', '')
        ctx.proof['failed_file'] = 'theories/Gen/GNGen.v (translation of /repo source failed)'
    ctx.rule = ('random fibres (1-200 km; scalar or per-frequency loss; default / scalar / slope / per-frequency '
                'dispersion, either sign; default / effective-area / gamma; reference wavelength or frequency; input '
                'connector and padding loss) x random non-overlapping combs (1-120 channels, C or L band, uniform or '
                'mixed baud rate / slot width / power, gaps) through Fiber.__call__ + NliSolver.compute_nli and the '
                'Gallina model at NumF; non-trivial = at least 2 channels and a numeric result; distinct by content hash')
    SimParams.set_params({'nli_params': {'method': 'gn_model_analytic'}, 'raman_params': {'flag': False}})
    cases = []
    for f in sorted(glob.glob(os.path.join(common.VERIF, 'corpus', 'C03', '*.json'))):
        c = json.load(open(f))
        c['_corpus'] = os.path.basename(f)
        cases.append(c)
    if ctx.replay:
        cases = [json.load(open(ctx.replay))['case']]
    else:
        n = ctx.scale(200, 3000)
        nbad = ctx.scale(16, 120)
        cases += [gen_case(rng, nmax=ctx.scale(120, 120)) for _ in range(n)]
        cases += [gen_case(rng, nmax=12, malformed=True) for _ in range(nbad)]
        cases += [gen_history(rng) for _ in range(ctx.scale(30, 400))]

    # --- binary64 elementary functions of NumF against libm (trusted-base sanity, not a property verdict)
    pts = selftest_terms(rng, ctx.scale(60, 400))
    st_terms = [f'run_fun {k} {hexf(x)}' for k, x in pts]

    terms, meta = [], []
    def judge(c, rec, record=None):
        """one propagation: counters, oracles on the implementation, model terms (record = what to store as failing input)"""
        chans = sorted(c['chan'], key=lambda ch: ch[0])
        n = len(chans)
        numeric = not isinstance(rec['out'], str)
        ctx.case(strip(record or c), n >= 2 and numeric)
        ctx.count('channels_total', n)
        ctx.count('nch_1' if n == 1 else 'nch_2_10' if n <= 10 else 'nch_11_50' if n <= 50 else 'nch_51_120')
        fd = c['fiber']
        ctx.count('loss_table' if isinstance(fd['loss'], dict) else 'loss_scalar')
        for tbl in ([fd['loss']['frequency']] if isinstance(fd['loss'], dict) else []) + ([fd['disp'][1]] if fd['disp'] and fd['disp'][0] == 't' else []):
            if len(tbl) > 1:
                ctx.count('table_increasing' if tbl == sorted(tbl) else 'table_decreasing' if tbl == sorted(tbl, reverse=True) else 'table_shuffled')
        ctx.count('disp_' + (fd['disp'][0] if fd['disp'] else 'default'))
        ctx.count('area_' + (fd['area'][0] if fd['area'] else 'default'))
        ctx.count('ref_' + (fd['ref'][0] if fd['ref'] else 'default'))
        if c.get('ints'):
            ctx.count('integer_typed_comb')
        if fd.get('raman'):
            ctx.count('raman_fiber')
        elif c.get('raman_flag'):
            ctx.count('plain_fiber_raman_flag_on')
        ctx.count('comb_mixed' if len({(ch[1], ch[2]) for ch in chans}) > 1 else 'comb_uniform')
        ctx.count('outcome_numeric' if numeric else 'outcome_' + rec['out'])
        if numeric and not isinstance(rec['phys'], str):
            b2s = [ref_phys(fd, ch[0]) for ch in chans]
            if all(b2s) and min(x[1] for x in b2s) < 0 < max(x[1] for x in b2s):
                ctx.count('beta2_changes_sign_in_comb')
        if numeric:
            for key, desc in oracle(c, rec, rng):
                ctx.violation(key, desc, strip(record or c))
            # the NLI added in the fibre is the published closed form on the launched comb and the declared fibre
            ref_v = ref_nli(fd, chans)
            if ref_v is not None:
                ctx.count('closed_form_checked')
                for i, (a, b) in enumerate(zip(rec['out'], ref_v)):
                    if not close(a, b, 1e-9):
                        ctx.violation('closed_form', f'channel {i} of {len(chans)}: Fiber.__call__ added NLI {a!r}, GN closed form gives {b!r} '
                                      f'(rel {abs(a - b) / max(abs(b), 1e-300):.3g})', strip(record or c))
                        break
            # the coefficients the solver used are those of the declared fibre
            ref = ref_phys(fd, chans[0][0])
            if ref and not isinstance(rec['phys'], str):
                for name, a, b in zip(('alpha', 'beta2', 'gamma'), rec['phys'], ref):
                    if not close(a, b, 1e-9):
                        ctx.violation('fibre_coefficient', f'{name} at {chans[0][0]:.6g} Hz: fibre gives {a!r}, declared parameters give {b!r}', strip(record or c))
            # the spectrum handed to the NLI solver is the input spectrum after the input connector and padding
            att = 10 ** (-(fd['con_in'] + fd['att_in']) / 10)
            for i, (pw, ch) in enumerate(zip(rec['pch_at_nli'], chans)):
                if not close(pw, ch[3] * att, 1e-12):
                    ctx.violation('launch_power', f'channel {i}: NLI computed on {pw!r} W, input after con_in + att_in '
                                  f'({fd["con_in"]} + {fd["att_in"]} dB) is {ch[3] * att!r} W', strip(record or c))
                    break
            # the NLI really added to the spectrum is the vector compute_nli returned, channel by channel
            for i, (r_, nl, ch) in enumerate(zip(rec['nli_ratio'], rec['out'], chans)):
                if not close(r_, nl / (ch[3] * att), 1e-9):
                    ctx.violation('nli_not_added', f'channel {i}: nli share after Fiber.__call__ {r_} != compute_nli/pch {nl / (ch[3] * att)}', strip(record or c))
                    break
        # model: channels in the order the solver saw them (sorted by SpectralInformation)
        terms.append(f'run_nli {fiber_term(fd)} {chan_terms(chans)}')
        terms.append(f'run_phys {fiber_term(fd)} {hexf(chans[0][0])}')
        # compute_nli on unsorted arrays vs the model on the same unsorted list
        sh = None
        if c.get('order') == 'shuffled' and numeric:
            import random
            r = random.Random(c['perm_seed'])
            sh = list(chans)
            r.shuffle(sh)
            fd0 = dict(fd, con_in=0, att_in=0)
            terms.append(f'run_nli {fiber_term(fd0)} {chan_terms(sh)}')
            try:
                rec['duck'] = direct_nli(rec['fiber'], sh, duck=True)
            except Exception as e:  # noqa
                rec['duck'] = f'E:{type(e).__name__}'
                ctx.violation('order_dependence_raises', f'compute_nli on unsorted arrays: {type(e).__name__}: {str(e)[:120]}', strip(record or c))
            ctx.count('unsorted_solver_cases')
        meta.append((record or c, rec, sh is not None))


    for c in cases:
        if 'history' in c:
            continue
        rec = drive(c)
        if isinstance(rec['out'], str) and c.get('order') == 'shuffled' and 'fiber' in rec:
            rec2 = drive(dict(c, order='sorted'))
            if not isinstance(rec2['out'], str):
                ctx.violation('order_dependence_raises',
                              f"comb accepted when supplied sorted by frequency, but {rec['out'][2:]} ({rec.get('exc', '')[:120]}) "
                              'when the same channels are supplied in another order', strip(c))
                rec = rec2
        judge(c, rec)

    # histories: ONE fibre object, propagated several times while its public parameters are changed through their setters
    # (length, att_in, con_in, con_out) and the comb is kept or changed; every call is judged like a single propagation on
    # a fibre declared with the parameters in force at that call, and must equal what a freshly built fibre gives
    for c in cases:
        if 'history' not in c:
            continue
        ctx.count('histories')
        set_sim(c.get('raman_flag'))
        try:
            fib = make_fiber(c['fiber'])
        except Exception as e:  # noqa
            ctx.violation('exception', f'fibre of a history cannot be built: {type(e).__name__}: {e}', strip(c))
            continue
        fd = dict(c['fiber'])
        for k, step in enumerate(c['history']):
            fd = dict(fd, **step['set'])
            upto = dict(c, history=c['history'][:k + 1])
            step_case = dict({kk: v for kk, v in c.items() if kk != 'history'}, fiber=fd, chan=step['chan'], order='sorted')
            try:
                apply_setters(fib, step['set'])
                rec = propagate(fib, step_case)
            except Exception as e:  # noqa
                ctx.violation('exception', f'step {k + 1} of a history: {type(e).__name__}: {str(e)[:150]}', strip(upto))
                break
            rec2 = drive(step_case)
            ctx.count('history_steps')
            for key_ in step['set']:
                ctx.count('history_set_' + key_)
            if isinstance(rec['out'], str) or isinstance(rec2['out'], str):
                if rec['out'] != rec2['out']:
                    ctx.violation('history_dependence', f"step {k + 1}: used fibre {rec['out'] if isinstance(rec['out'], str) else 'numeric'}, "
                                  f"fresh fibre with the same parameters {rec2['out'] if isinstance(rec2['out'], str) else 'numeric'}", strip(upto))
            else:
                for i_, (a_, b_) in enumerate(zip(rec['out'], rec2['out'])):
                    if not close(a_, b_, 1e-12):
                        ctx.violation('history_dependence', f'step {k + 1} (after setting {step["set"]}): NLI of channel {i_} on the used fibre '
                                      f'{a_!r}, on a fresh fibre with the same parameters {b_!r}', strip(upto))
                        break
            if 'fiber' in rec2:
                rec['fiber'] = rec2['fiber']       # the variations of the scaling oracles are run on the fresh object
            judge(step_case, rec, record=upto)

    outs = coq_eval_retry(ctx, 'C03', 'Prelude Num NumRun Model.GN Run.C03', terms + st_terms, per_file=ctx.scale(30, 60),
                           prelude='Open Scope float_scope.')
    model_rows, st_rows = outs[:len(terms)], outs[len(terms):]

    # self-test verdict
    worst = 0.0
    for (k, x), s in zip(pts, st_rows):
        got, ref = parse_f(s), selftest_ref(k, x)
        err = abs(got - ref) / abs(ref) if ref not in (0.0,) and ref == ref and abs(ref) != math.inf else (0.0 if got == ref else 1.0)
        worst = max(worst, err)
    ctx.extra['numf_selftest'] = {'points': len(pts), 'max_rel_err_vs_libm': worst}
    if worst > 1e-13:
        raise RuntimeError(f'NumF elementary functions off by {worst} relative')

    it = iter(model_rows)
    worst_dev = [0.0]
    for c, rec, has_duck in meta:
        m_nli = parse_row(next(it))
        m_phys = parse_row(next(it))
        m_duck = parse_row(next(it)) if has_duck else None

        def diff(impl, model, what):
            if isinstance(impl, str) or isinstance(model, str):
                mi = impl if isinstance(impl, str) else 'numeric'
                mm = 'E:' + model[2:].split(':')[0] if isinstance(model, str) else 'numeric'
                if mi != mm:
                    return f'{what}: implementation {mi} ({rec.get("exc", "")[:80]}), model {mm}'
                return None
            if len(impl) != len(model):
                return f'{what}: {len(impl)} values vs {len(model)}'
            for i, (a, b) in enumerate(zip(impl, model)):
                if a == a and b == b and max(abs(a), abs(b)) > 0:
                    worst_dev[0] = max(worst_dev[0], abs(a - b) / max(abs(a), abs(b)))
                if not close(a, b, TOL):
                    return f'{what}: channel {i} implementation {a!r} model {b!r} (rel {abs(a - b) / max(abs(a), 1e-300):.3g})'
            return None
        dphys = diff(rec['phys'], m_phys, 'alpha/beta2/gamma at first channel')
        d = diff(rec['out'], m_nli, 'NLI')
        if d is None and has_duck:
            d = diff(rec['duck'], m_duck, 'NLI on unsorted arrays')
        if d or dphys:
            ctx.corr_break('corr:GN.fiber_nli', '; '.join(x for x in (d, dphys) if x), strip(c),
                           impl=None if isinstance(rec['out'], str) else rec['out'][:8],
                           model=None if isinstance(m_nli, str) else m_nli[:8])
    ctx.extra['max_rel_deviation_model_vs_gnpy'] = worst_dev[0]
    ctx.assumptions += [
        'translator tie: harness/pygen_c03.py (fail-closed Python-ast -> Gallina over Num for the SPM/XPM weights, '
        'effective_length, the scalar content of _psi / _gn_analytic / the analytic arm of compute_nli, Fiber.alpha and '
        'beta2, the reference / effective-area / contrast / loss-scaling statements of FiberParams.__init__, '
        'effective_area_scaling, gamma_scaling, the input attenuation of Fiber.propagate and RamanFiber.propagate; the '
        'outer()/ones() broadcasting and the branch structure around them are matched against templates) is trusted; '
        'float literals are read as exact decimals, scipy.constants.c as 299792458',
        'NumF (binary64 with Gallina exp/ln/asinh/10^x/log10) approximates NumR: not proved; checked against libm on '
        'random points in every run (max relative error recorded in coverage.numf_selftest) and absorbed by the 1e-9 tolerance (measured deviation model vs gnpy <= 3e-13)',
        'Raman effect off (sim_params.raman_params.flag = False); the GGN methods are not covered by C03',
        'per-frequency loss / dispersion tables are given to gnpy in increasing, decreasing or arbitrary row order; model and references use the rows sorted by frequency',
    ]
    return common.finish(ctx, {})
