"""Translator tie for C18: /repo source -> coq/theories/Gen/YangGen.v (regenerated on every run).

Second tie between gnpy's legacy <-> YANG converters and Model/Yang.v (the behavioural correspondence of harness/c18.py
is the first; the precision table Model/YangPrecision.v is a third, also regenerated).  Proofs/YangGen.v proves every
generated definition equal to the hand-written model function, so an edit of the source that changes a translated
decision breaks a proof obligation, and an edit that leaves the expected statement shapes makes the translation fail
(reported as a broken tie).  Built on harness/pygen.py (find / strip_doc / Unsupported).

What is read (M = matched statement by statement against a template; T = translated into Gallina, i.e. a hole of the
template whose content decides the generated term):

 gnpy/tools/yang_convert_utils.py
  module constants ELEMENTS_KEY, ROADM_KEY, TRANSCEIVER_KEY, PARAMS_KEY, DEGREE_KEY, LOSS_COEF_KEY*, RAMAN_COEF_KEY,
     EQPT_TYPES, EDFA_CONFIG_KEYS, SIM_PARAMS_KEYS, *_NMSP, ...                               T (values)
  convert_degree            M loop / pop / final assignment;  T the element guard (type test and params presence), the list
                              of equalisation types, the test on the popped value (truthiness), HOW the new entries are
                              accumulated (extend vs assignment), the entry dict (keys, order), the test on the result, its key
  convert_back_degree + process_power_targets
                            M;  T the guard, the key popped, the truthiness test, the list of types, the PRESENCE test
                              `eq_type not in target`, the test that creates the per-type dict
  convert_design_band / convert_back_design_band
                            M;  T the guard (Roadm or Transceiver), keys, truthiness tests, accumulation, entry dict
  convert_loss_coeff_list / convert_back_loss_coeff_list
                            M;  T the compound guard's keys and type test, the keys popped, the truthiness tests, which list
                              is zipped to which key, the keys read back
  convert_raman_coef / convert_back_raman_coef
                            M;  T the guard key ('g0' / 'g0_per_frequency'), keys, the truthiness test (a bare name: any
                              further condition such as an element-type test is outside the subset), zip order
  convert_nf_coef / convert_back_nf_coef (and the nf_fit_coeff twins)
                            M;  T the container / entry keys, the type test on the first entry, the enumerate start, the
                              sort key, the FILTER of the comprehension that reads the coefficients back (none = keep all)
  convert_delta_power_range, process_span_data, process_si_data, convert_range_to_dict, convert_back_delta_power_range
                            M;  T container keys, list / dict keys, the indexes 0 1 2 and the keys they go to, the
                              variable each element of the list read back comes from (must be the popped dict)
 gnpy/tools/convert_legacy_yang.py
  legacy_to_yang / yang_to_legacy
                            M the if / elif skeleton;  T every branch test (key or any(.. for k in LIST)) and, per branch,
                              the ORDER of the calls (incl. the position of remove_namespace_context) and the wrapping
  _convert_api_section, _convert_api_core_sections, _convert_api_extra_items
                            M whole bodies;  T whether the caller's payload / item is deep-copied before it is converted in
                              place, the list of converted sections
 gnpy/tools/json_io.py
  _equipment_from_json (Edfa and Transceiver other_name loops), Transceiver.__init__ (mode aliases)
                            M;  T the keys, the order of copy / pop / assignment inside the loops

Rules that are part of the trusted translator: `d.pop(K, None)` is jget + jdel; `d[K] = v` is jset; `K in d` is jhas;
`if x:` on a JSON value is Python truthiness (`truthy`); the Gallina skeleton of each function (text below) mirrors the
statement list of its template.
"""
import ast
import os

from . import common
from .pygen import Unsupported, strip_doc, find

UTILS = 'gnpy/tools/yang_convert_utils.py'
CLY = 'gnpy/tools/convert_legacy_yang.py'
JIO = 'gnpy/tools/json_io.py'
DST = os.path.join(common.COQ, 'theories', 'Gen', 'YangGen.v')


# ---------------------------------------------------------------------------------------------- helpers
def slit(s):
    if not isinstance(s, str) or '"' in s or '\\' in s or '\n' in s:
        raise Unsupported(f'string constant {s!r}')
    return f'"{s}"%string'


def module_constants(tree):
    strs, lists = {}, {}
    for s in tree.body:
        if isinstance(s, ast.Assign) and len(s.targets) == 1 and isinstance(s.targets[0], ast.Name):
            n, v = s.targets[0].id, s.value
            if isinstance(v, ast.Constant) and isinstance(v.value, str):
                strs[n] = v.value
            elif isinstance(v, ast.List) and all(isinstance(x, ast.Constant) and isinstance(x.value, str) for x in v.elts):
                lists[n] = [x.value for x in v.elts]
    return strs, lists


def unify(t, n, binds):
    """structural equality of two ast nodes; a Name `H_x` in the template matches any expression and an expression
    statement `H_x` any single statement; a hole that occurs twice must match the same source text"""
    def bind(name, node):
        key = ast.unparse(node) if isinstance(node, ast.AST) else repr(node)
        if name in binds and binds[name][1] != key:
            return False
        binds[name] = (node, key)
        return True
    if isinstance(t, ast.Name) and t.id.startswith('H_'):
        return bind(t.id, n)
    if isinstance(t, ast.Expr) and isinstance(t.value, ast.Name) and t.value.id.startswith('H_'):
        return bind(t.value.id, n)
    if type(t) is not type(n):
        return False
    if isinstance(t, ast.AST):
        for f in t._fields:
            if f in ('type_comment', 'kind', 'returns', 'annotation', 'decorator_list'):
                continue
            if not unify(getattr(t, f, None), getattr(n, f, None), binds):
                return False
        return True
    if isinstance(t, list):
        return len(t) == len(n) and all(unify(a, b, binds) for a, b in zip(t, n))
    return t == n


def match(template_src, stmts, what):
    tmpl = ast.parse(template_src).body
    binds = {}
    if not unify(tmpl, stmts, binds):
        raise Unsupported(f'{what}: the statements no longer have the expected shape')
    return {k: v[0] for k, v in binds.items()}


class Src:
    def __init__(self, repo):
        self.repo = repo
        self.trees = {}
        for p in (UTILS, CLY, JIO):
            self.trees[p] = ast.parse(open(os.path.join(repo, p)).read())
        self.strs, self.lists = module_constants(self.trees[UTILS])

    def body(self, path, qual):
        return strip_doc(find(self.trees[path], qual).body)

    def k(self, node):
        """a key: string literal or module constant"""
        if isinstance(node, ast.Constant) and isinstance(node.value, str):
            return node.value
        if isinstance(node, ast.Name) and node.id in self.strs:
            return self.strs[node.id]
        raise Unsupported(f'key expression {ast.unparse(node)}')

    def klist(self, node):
        if isinstance(node, ast.Name) and node.id in self.lists:
            return self.lists[node.id]
        if isinstance(node, (ast.List, ast.Tuple)):
            return [self.k(x) for x in node.elts]
        raise Unsupported(f'list of keys {ast.unparse(node)}')


def glist(items):
    return '[' + '; '.join(items) + ']'


# ---- decision atoms --------------------------------------------------------------------------------
def type_test(src, node, var='elem'):
    """elem['type'] == C | != C | in (C1, ..) | not in (..)  ->  Gallina bool over t (the json value of the type)"""
    if not (isinstance(node, ast.Compare) and len(node.ops) == 1 and isinstance(node.left, ast.Subscript)
            and isinstance(node.left.value, ast.Name) and node.left.value.id == var
            and isinstance(node.left.slice, ast.Constant) and node.left.slice.value == 'type'):
        raise Unsupported(f'element type test {ast.unparse(node)}')
    op, rhs = node.ops[0], node.comparators[0]
    if isinstance(op, (ast.Eq, ast.NotEq)):
        t = f'is_str {slit(src.k(rhs))} t'
        return t if isinstance(op, ast.Eq) else f'negb ({t})'
    if isinstance(op, (ast.In, ast.NotIn)):
        ks = src.klist(rhs)
        t = ' || '.join(f'is_str {slit(k)} t' for k in ks)
        return f'({t})' if isinstance(op, ast.In) else f'negb ({t})'
    raise Unsupported(f'element type test {ast.unparse(node)}')


def presence(src, node, var, obj):
    """K in var | K not in var  ->  bool over the Gallina obj `obj`"""
    if isinstance(node, ast.Compare) and len(node.ops) == 1 and isinstance(node.comparators[0], ast.Name) \
            and node.comparators[0].id == var:
        k = slit(src.k(node.left))
        if isinstance(node.ops[0], ast.In):
            return f'jhas {k} {obj}'
        if isinstance(node.ops[0], ast.NotIn):
            return f'negb (jhas {k} {obj})'
    raise Unsupported(f'presence test {ast.unparse(node)}')


def guard(src, node, var='elem', obj='e'):
    """boolean combination of one element type test (first operand) and presence tests on the element"""
    def g(n, first):
        if isinstance(n, ast.BoolOp):
            op = ' && ' if isinstance(n.op, ast.And) else ' || '
            parts = [g(v, first and i == 0) for i, v in enumerate(n.values)]
            return '(' + op.join(parts) + ')'
        if isinstance(n, ast.UnaryOp) and isinstance(n.op, ast.Not):
            return f'negb {g(n.operand, first)}'
        if isinstance(n, ast.Compare) and isinstance(n.left, ast.Subscript):
            if not first:
                raise Unsupported('the element type must be the first thing the guard reads')
            return '(' + type_test(src, n, var) + ')'
        return '(' + presence(src, n, var, obj) + ')'
    return g(node, True)


def truth(node, var, term):
    """`var` | `not var` as an `if` test -> Python truthiness of the Gallina json `term`"""
    if isinstance(node, ast.Name) and node.id == var:
        return f'truthy {term}'
    if isinstance(node, ast.UnaryOp) and isinstance(node.op, ast.Not) and isinstance(node.operand, ast.Name) \
            and node.operand.id == var:
        return f'negb (truthy {term})'
    raise Unsupported(f'truthiness test {ast.unparse(node)} on {var}')


def opt_test(src, node, dvar, kexpr):
    """how the presence of dvar[k] is tested: `k in d` / `k not in d` (presence) or `d.get(k)` / `not d.get(k)` (truthiness)
    -> (Gallina function on option json saying "present", negated?)"""
    neg = False
    n = node
    if isinstance(n, ast.UnaryOp) and isinstance(n.op, ast.Not):
        neg, n = True, n.operand
    if isinstance(n, ast.Compare) and len(n.ops) == 1 and isinstance(n.comparators[0], ast.Name) \
            and n.comparators[0].id == dvar and ast.dump(n.left) == ast.dump(kexpr):
        if isinstance(n.ops[0], ast.NotIn):
            neg = not neg
        elif not isinstance(n.ops[0], ast.In):
            raise Unsupported(ast.unparse(node))
        return 'fun o : option json => match o with Some _ => true | None => false end', neg
    if isinstance(n, ast.Call) and isinstance(n.func, ast.Attribute) and n.func.attr == 'get' \
            and isinstance(n.func.value, ast.Name) and n.func.value.id == dvar and len(n.args) == 1 \
            and ast.dump(n.args[0]) == ast.dump(kexpr):
        return 'fun o : option json => match o with Some v => truthy v | None => false end', neg
    raise Unsupported(f'test on {dvar}[{ast.unparse(kexpr)}]: {ast.unparse(node)}')


def accumulate(stmt, acc, comp_hole):
    """`acc.extend(COMP)` -> old ++ new ; `acc = COMP` -> new"""
    if isinstance(stmt, ast.Expr) and isinstance(stmt.value, ast.Call) and isinstance(stmt.value.func, ast.Attribute) \
            and stmt.value.func.attr == 'extend' and isinstance(stmt.value.func.value, ast.Name) \
            and stmt.value.func.value.id == acc and len(stmt.value.args) == 1:
        return 'fun old new : list json => old ++ new', stmt.value.args[0]
    if isinstance(stmt, ast.Assign) and len(stmt.targets) == 1 and isinstance(stmt.targets[0], ast.Name) \
            and stmt.targets[0].id == acc:
        return 'fun old new : list json => new', stmt.value
    raise Unsupported(f'accumulation into {acc}: {ast.unparse(stmt)}')


def entry_dict(src, comp, kvar, vvar, itvar, eqt=None):
    """[{K1: a, K2: b} for kvar, vvar in itvar.items()]  ->  Gallina entry builder over (deg, target)"""
    t = ast.parse(f'[H_D for {kvar}, {vvar} in {itvar}.items()]').body[0].value
    b = {}
    if not unify(t, comp, b) or not isinstance(b['H_D'][0], ast.Dict):
        raise Unsupported(f'entry comprehension {ast.unparse(comp)}')
    d = b['H_D'][0]
    out = []
    for k, v in zip(d.keys, d.values):
        if isinstance(k, ast.Name) and eqt and k.id == eqt:
            kk = 'eqt'
        else:
            kk = slit(src.k(k))
        if isinstance(v, ast.Name) and v.id == kvar:
            vv = 'JStr deg'
        elif isinstance(v, ast.Name) and v.id == vvar:
            vv = 'target'
        else:
            raise Unsupported(f'entry value {ast.unparse(v)}')
        out.append(f'({kk}, {vv})')
    return 'JObj ' + glist(out)


# ---------------------------------------------------------------------------------------------- the functions
def gen_degree(src, out):
    b = match('''
for elem in json_data[ELEMENTS_KEY]:
    if H_guard:
        new_targets = []
        for equalization_type in H_types:
            targets = elem[PARAMS_KEY].pop(equalization_type, None)
            if H_poptest:
                H_acc
        if H_outtest:
            elem[PARAMS_KEY][H_outkey] = new_targets
return json_data
''', src.body(UTILS, 'convert_degree'), 'convert_degree')
    accf, comp = accumulate(b['H_acc'], 'new_targets', None)
    out += [
        '(* ' + UTILS + ': convert_degree *)',
        f'Definition g_cd_types : list string := {glist(slit(k) for k in src.klist(b["H_types"]))}.',
        f'Definition g_cd_guard (t : json) (e : obj) : bool := {guard(src, b["H_guard"])}.',
        f'Definition g_cd_poptest (targets : json) : bool := {truth(b["H_poptest"], "targets", "targets")}.',
        f'Definition g_cd_acc : list json -> list json -> list json := {accf}.',
        f'Definition g_cd_entry (eqt deg : string) (target : json) : json := '
        f'{entry_dict(src, comp, "degree", "target", "targets", "equalization_type")}.',
        f'Definition g_cd_outtest (new_targets : list json) : bool := {truth(b["H_outtest"], "new_targets", "(JArr new_targets)")}.',
        f'Definition g_cd_outkey : string := {slit(src.k(b["H_outkey"]))}.',
        '''Definition g_cd_step (st : res (obj * list json)) (eqt : string) : res (obj * list json) :=
  let* (p, nt) := st in
  match jget eqt p with
  | None => Ok (p, nt)
  | Some t =>
      if g_cd_poptest t then
        match t with
        | JObj items => Ok (jdel eqt p, g_cd_acc nt (map (fun dv => g_cd_entry eqt (fst dv) (snd dv)) items))
        | _ => Err "AttributeError:items"%string
        end
      else Ok (jdel eqt p, nt)
  end.
Definition g_cd_params (p : obj) : res obj :=
  let* (p', nt) := fold_left g_cd_step g_cd_types (Ok (p, [])) in
  Ok (if g_cd_outtest nt then jset g_cd_outkey (JArr nt) p' else p').
Definition g_convert_degree (doc : obj) : res obj :=
  on_elements (fun e => let* t := jreq K_type e in if g_cd_guard t e then upd_sub K_params g_cd_params e else Ok e) doc.
''']


def gen_back_degree(src, out):
    b = match('''
for elem in json_data[ELEMENTS_KEY]:
    if H_skip:
        continue
    power_targets = elem[PARAMS_KEY].pop(H_key, None)
    if H_empty:
        continue
    process_power_targets(elem, power_targets)
return json_data
''', src.body(UTILS, 'convert_back_degree'), 'convert_back_degree')
    p = match('''
equalization_types = H_types
for target in power_targets:
    degree_uid = target[DEGREE_KEY]
    for eq_type in equalization_types:
        if H_absent:
            continue
        if H_init:
            elem[PARAMS_KEY][eq_type] = {}
        elem[PARAMS_KEY][eq_type][degree_uid] = target[eq_type]
''', src.body(UTILS, 'process_power_targets'), 'process_power_targets')
    eqk = ast.Name(id='eq_type', ctx=ast.Load())
    pres, neg = opt_test(src, p['H_absent'], 'target', eqk)
    if not neg:
        raise Unsupported('process_power_targets: the test before `continue` must say that the value is absent')
    # `eq_type not in elem[PARAMS_KEY]`
    t = ast.parse('eq_type not in elem[PARAMS_KEY]').body[0].value
    if ast.dump(t) != ast.dump(p['H_init']):
        raise Unsupported(f'process_power_targets: {ast.unparse(p["H_init"])}')
    out += [
        '(* ' + UTILS + ': convert_back_degree, process_power_targets *)',
        f'Definition g_cbd_skip (t : json) (e : obj) : bool := {guard(src, b["H_skip"])}.',
        f'Definition g_cbd_key : string := {slit(src.k(b["H_key"]))}.',
        f'Definition g_cbd_empty (power_targets : json) : bool := {truth(b["H_empty"], "power_targets", "power_targets")}.',
        f'Definition g_cbd_types : list string := {glist(slit(k) for k in src.klist(p["H_types"]))}.',
        f'Definition g_cbd_present : option json -> bool := {pres}.',
        '''Definition g_cbd_target_step (du : string) (tg : obj) (st : res obj) (eqt : string) : res obj :=
  let* p := st in
  if g_cbd_present (jget eqt tg) then
    let* v := jreq eqt tg in
    let* cur := match jget eqt p with
                | None => Ok []
                | Some (JObj d) => Ok d
                | Some _ => Err "TypeError:item assignment"%string
                end in
    Ok (jset eqt (JObj (jset du v cur)) p)
  else Ok p.
Definition g_cbd_target (st : res obj) (t : json) : res obj :=
  let* p := st in
  let* tg := as_obj t in
  let* duj := jreq K_degree tg in
  let* du := as_key duj in
  fold_left (g_cbd_target_step du tg) g_cbd_types (Ok p).
Definition g_cbd_params (p : obj) : res obj :=
  match jget g_cbd_key p with
  | None => Ok p
  | Some pt =>
      let p' := jdel g_cbd_key p in
      if g_cbd_empty pt then Ok p' else let* l := as_arr pt in fold_left g_cbd_target l (Ok p')
  end.
Definition g_convert_back_degree (doc : obj) : res obj :=
  on_elements (fun e => let* t := jreq K_type e in if g_cbd_skip t e then Ok e else upd_sub K_params g_cbd_params e) doc.
''']


def gen_design_band(src, out):
    b = match('''
for elem in json_data[ELEMENTS_KEY]:
    if H_guard:
        new_targets = []
        targets = elem[PARAMS_KEY].pop(H_key, None)
        if H_poptest:
            H_acc
        if H_outtest:
            elem[PARAMS_KEY][H_outkey] = new_targets
return json_data
''', src.body(UTILS, 'convert_design_band'), 'convert_design_band')
    accf, comp = accumulate(b['H_acc'], 'new_targets', None)
    out += [
        '(* ' + UTILS + ': convert_design_band *)',
        f'Definition g_db_guard (t : json) (e : obj) : bool := {guard(src, b["H_guard"])}.',
        f'Definition g_db_key : string := {slit(src.k(b["H_key"]))}.',
        f'Definition g_db_poptest (targets : json) : bool := {truth(b["H_poptest"], "targets", "targets")}.',
        f'Definition g_db_acc : list json -> list json -> list json := {accf}.',
        f'Definition g_db_entry (deg : string) (target : json) : json := {entry_dict(src, comp, "degree", "target", "targets")}.',
        f'Definition g_db_outtest (new_targets : list json) : bool := {truth(b["H_outtest"], "new_targets", "(JArr new_targets)")}.',
        f'Definition g_db_outkey : string := {slit(src.k(b["H_outkey"]))}.',
        '''Definition g_db_params (p : obj) : res obj :=
  match jget g_db_key p with
  | None => Ok p
  | Some t =>
      let p' := jdel g_db_key p in
      let* nt := if g_db_poptest t then
                   match t with
                   | JObj items => Ok (g_db_acc [] (map (fun dv => g_db_entry (fst dv) (snd dv)) items))
                   | _ => Err "AttributeError:items"%string
                   end
                 else Ok [] in
      Ok (if g_db_outtest nt then jset g_db_outkey (JArr nt) p' else p')
  end.
Definition g_convert_design_band (doc : obj) : res obj :=
  on_elements (fun e => let* t := jreq K_type e in if g_db_guard t e then upd_sub K_params g_db_params e else Ok e) doc.
''']
    b = match('''
for elem in json_data[ELEMENTS_KEY]:
    if H_guard:
        targets = elem[PARAMS_KEY].pop(H_key, None)
        if H_poptest:
            design_bands = {}
            for target in targets:
                design_bands[target[DEGREE_KEY]] = target[H_vkey]
            if H_outtest:
                elem[PARAMS_KEY][H_outkey] = design_bands
return json_data
''', src.body(UTILS, 'convert_back_design_band'), 'convert_back_design_band')
    out += [
        '(* ' + UTILS + ': convert_back_design_band *)',
        f'Definition g_bdb_guard (t : json) (e : obj) : bool := {guard(src, b["H_guard"])}.',
        f'Definition g_bdb_key : string := {slit(src.k(b["H_key"]))}.',
        f'Definition g_bdb_poptest (targets : json) : bool := {truth(b["H_poptest"], "targets", "targets")}.',
        f'Definition g_bdb_vkey : string := {slit(src.k(b["H_vkey"]))}.',
        f'Definition g_bdb_outtest (design_bands : obj) : bool := {truth(b["H_outtest"], "design_bands", "(JObj design_bands)")}.',
        f'Definition g_bdb_outkey : string := {slit(src.k(b["H_outkey"]))}.',
        '''Definition g_bdb_step (st : res obj) (t : json) : res obj :=
  let* d := st in
  let* tg := as_obj t in
  let* duj := jreq K_degree tg in
  let* du := as_key duj in
  let* v := jreq g_bdb_vkey tg in
  Ok (jset du v d).
Definition g_bdb_params (p : obj) : res obj :=
  match jget g_bdb_key p with
  | None => Ok p
  | Some t =>
      let p' := jdel g_bdb_key p in
      if g_bdb_poptest t then
        let* l := as_arr t in
        let* d := fold_left g_bdb_step l (Ok []) in
        Ok (if g_bdb_outtest d then jset g_bdb_outkey (JObj d) p' else p')
      else Ok p'
  end.
Definition g_convert_back_design_band (doc : obj) : res obj :=
  on_elements (fun e => let* t := jreq K_type e in if g_bdb_guard t e then upd_sub K_params g_bdb_params e else Ok e) doc.
''']


def zip_pairs(src, comp, what):
    """[{K1: a, K2: b} for a, b in zip(X, Y)] -> (K1, K2, X, Y) with a, b the loop variables in order"""
    t = ast.parse('[{H_k1: H_a, H_k2: H_b} for H_a, H_b in zip(H_x, H_y)]').body[0].value
    b = {}
    if not unify(t, comp, b):
        raise Unsupported(f'{what}: {ast.unparse(comp)}')
    return src.k(b['H_k1'][0]), src.k(b['H_k2'][0]), ast.unparse(b['H_x'][0]), ast.unparse(b['H_y'][0])


def gen_loss(src, out):
    b = match('''
for elem in json_data[ELEMENTS_KEY]:
    if PARAMS_KEY in elem and LOSS_COEF_KEY in elem[PARAMS_KEY] and isinstance(elem[PARAMS_KEY][LOSS_COEF_KEY], dict):
        loss_coef_per_frequency = elem[PARAMS_KEY].pop(LOSS_COEF_KEY)
        loss_coef_list = loss_coef_per_frequency.pop(H_kv, None)
        frequency_list = loss_coef_per_frequency.pop(H_kf, None)
        if H_test:
            new_loss_coef_per_frequency = H_comp
            elem[PARAMS_KEY][LOSS_COEF_KEY_PER_FREQ] = new_loss_coef_per_frequency
return json_data
''', src.body(UTILS, 'convert_loss_coeff_list'), 'convert_loss_coeff_list')
    k1, k2, x, y = zip_pairs(src, b['H_comp'], 'convert_loss_coeff_list')
    names = {'frequency_list': 'fl', 'loss_coef_list': 'vl'}
    if x not in names or y not in names or x == y:
        raise Unsupported('convert_loss_coeff_list: zip arguments')
    out += [
        '(* ' + UTILS + ': convert_loss_coeff_list *)',
        f'Definition g_cl_key : string := {slit(src.strs["LOSS_COEF_KEY"])}.',
        f'Definition g_cl_outkey : string := {slit(src.strs["LOSS_COEF_KEY_PER_FREQ"])}.',
        f'Definition g_cl_kv : string := {slit(src.k(b["H_kv"]))}.',
        f'Definition g_cl_kf : string := {slit(src.k(b["H_kf"]))}.',
        f'Definition g_cl_test (loss_coef_list : json) : bool := {truth(b["H_test"], "loss_coef_list", "loss_coef_list")}.',
        f'Definition g_cl_zip (fl vl : list json) : list json := zip2 {slit(k1)} {slit(k2)} {names[x]} {names[y]}.',
        '''Definition g_cl_params (p : obj) : res obj :=
  match jget g_cl_key p with
  | Some (JObj lc) =>
      let p' := jdel g_cl_key p in
      match jget g_cl_kv lc with
      | Some v =>
          if g_cl_test v then
            let* vl := as_iter (Some v) in
            let* fl := as_iter (jget g_cl_kf lc) in
            Ok (jset g_cl_outkey (JArr (g_cl_zip fl vl)) p')
          else Ok p'
      | None => Ok p'
      end
  | _ => Ok p
  end.
Definition g_convert_loss_coeff_list (doc : obj) : res obj := on_elements (with_params g_cl_params) doc.
''']
    b = match('''
for elem in json_data[ELEMENTS_KEY]:
    if PARAMS_KEY in elem and LOSS_COEF_KEY_PER_FREQ in elem[PARAMS_KEY]:
        loss_coef_per_frequency = elem[PARAMS_KEY].pop(LOSS_COEF_KEY_PER_FREQ)
        if H_test:
            new_loss_coef_per_frequency = {
                H_k1: [item[H_r1] for item in loss_coef_per_frequency],
                H_k2: [item[H_r2] for item in loss_coef_per_frequency]}
            elem[PARAMS_KEY][H_outkey] = new_loss_coef_per_frequency
return json_data
''', src.body(UTILS, 'convert_back_loss_coeff_list'), 'convert_back_loss_coeff_list')
    out += [
        '(* ' + UTILS + ': convert_back_loss_coeff_list *)',
        f'Definition g_bcl_test (loss_coef_per_frequency : json) : bool := '
        f'{truth(b["H_test"], "loss_coef_per_frequency", "loss_coef_per_frequency")}.',
        f'Definition g_bcl_k1 : string := {slit(src.k(b["H_k1"]))}.',
        f'Definition g_bcl_r1 : string := {slit(src.k(b["H_r1"]))}.',
        f'Definition g_bcl_k2 : string := {slit(src.k(b["H_k2"]))}.',
        f'Definition g_bcl_r2 : string := {slit(src.k(b["H_r2"]))}.',
        f'Definition g_bcl_outkey : string := {slit(src.k(b["H_outkey"]))}.',
        '''Definition g_bcl_params (p : obj) : res obj :=
  match jget g_cl_outkey p with
  | None => Ok p
  | Some l =>
      let p' := jdel g_cl_outkey p in
      if g_bcl_test l then
        let* items := as_arr l in
        let* a := pluck g_bcl_r1 items in
        let* b := pluck g_bcl_r2 items in
        Ok (jset g_bcl_outkey (JObj [(g_bcl_k1, JArr a); (g_bcl_k2, JArr b)]) p')
      else Ok p'
  end.
Definition g_convert_back_loss_coeff_list (doc : obj) : res obj := on_elements (with_params g_bcl_params) doc.
''']


def gen_raman(src, out):
    b = match('''
for elem in json_data[ELEMENTS_KEY]:
    if PARAMS_KEY in elem and RAMAN_COEF_KEY in elem[PARAMS_KEY] and H_gk in elem[PARAMS_KEY][RAMAN_COEF_KEY]:
        raman_coef = elem[PARAMS_KEY].pop(RAMAN_COEF_KEY)
        g0_list = raman_coef.pop(H_kg, [])
        frequency_offset_list = raman_coef.pop(H_kf, [])
        if H_test:
            new_raman_coef = {H_k1: raman_coef[H_r1], H_k2: H_comp}
            elem[PARAMS_KEY][RAMAN_COEF_KEY] = new_raman_coef
return json_data
''', src.body(UTILS, 'convert_raman_coef'), 'convert_raman_coef')
    z1, z2, x, y = zip_pairs(src, b['H_comp'], 'convert_raman_coef')
    names = {'frequency_offset_list': 'fl', 'g0_list': 'gl'}
    if x not in names or y not in names or x == y:
        raise Unsupported('convert_raman_coef: zip arguments')
    out += [
        '(* ' + UTILS + ': convert_raman_coef *)',
        f'Definition g_rc_key : string := {slit(src.strs["RAMAN_COEF_KEY"])}.',
        f'Definition g_rc_gk : string := {slit(src.k(b["H_gk"]))}.',
        f'Definition g_rc_kg : string := {slit(src.k(b["H_kg"]))}.',
        f'Definition g_rc_kf : string := {slit(src.k(b["H_kf"]))}.',
        f'Definition g_rc_test (frequency_offset_list : json) : bool := '
        f'{truth(b["H_test"], "frequency_offset_list", "frequency_offset_list")}.',
        f'Definition g_rc_k1 : string := {slit(src.k(b["H_k1"]))}.',
        f'Definition g_rc_r1 : string := {slit(src.k(b["H_r1"]))}.',
        f'Definition g_rc_k2 : string := {slit(src.k(b["H_k2"]))}.',
        f'Definition g_rc_zip (fl gl : list json) : list json := zip2 {slit(z1)} {slit(z2)} {names[x]} {names[y]}.',
        '''Definition g_rc_params (p : obj) : res obj :=
  match jget g_rc_key p with
  | None => Ok p
  | Some rcj =>
      let* has := key_in g_rc_gk rcj in
      if has then
        let* rc := as_obj rcj in
        let p' := jdel g_rc_key p in
        let* g0 := opt_list (jget g_rc_kg rc) in
        let* fo := opt_list (jget g_rc_kf rc) in
        if g_rc_test fo then
          let* rf := jreq g_rc_r1 rc in
          let* fl := as_iter (Some fo) in
          let* gl := as_iter (Some g0) in
          Ok (jset g_rc_key (JObj [(g_rc_k1, rf); (g_rc_k2, JArr (g_rc_zip fl gl))]) p')
        else Ok p'
      else Ok p
  end.
Definition g_convert_raman_coef (doc : obj) : res obj := on_elements (with_params g_rc_params) doc.
''']
    b = match('''
for elem in json_data[ELEMENTS_KEY]:
    if PARAMS_KEY in elem and RAMAN_COEF_KEY in elem[PARAMS_KEY] and H_gk in elem[PARAMS_KEY][RAMAN_COEF_KEY]:
        raman_coef = elem[PARAMS_KEY].pop(RAMAN_COEF_KEY)
        g0_list = [g[H_rg] for g in raman_coef.get(H_gk, [])]
        frequency_offset_list = [f[H_rf] for f in raman_coef.pop(H_gk, [])]
        if H_test:
            new_raman_coef = {H_k1: raman_coef[H_r1], H_k2: g0_list, H_k3: frequency_offset_list}
            elem[PARAMS_KEY][RAMAN_COEF_KEY] = new_raman_coef
return json_data
''', src.body(UTILS, 'convert_back_raman_coef'), 'convert_back_raman_coef')
    out += [
        '(* ' + UTILS + ': convert_back_raman_coef *)',
        f'Definition g_brc_gk : string := {slit(src.k(b["H_gk"]))}.',
        f'Definition g_brc_rg : string := {slit(src.k(b["H_rg"]))}.',
        f'Definition g_brc_rf : string := {slit(src.k(b["H_rf"]))}.',
        f'Definition g_brc_test (frequency_offset_list : list json) : bool := '
        f'{truth(b["H_test"], "frequency_offset_list", "(JArr frequency_offset_list)")}.',
        f'Definition g_brc_k1 : string := {slit(src.k(b["H_k1"]))}.',
        f'Definition g_brc_r1 : string := {slit(src.k(b["H_r1"]))}.',
        f'Definition g_brc_k2 : string := {slit(src.k(b["H_k2"]))}.',
        f'Definition g_brc_k3 : string := {slit(src.k(b["H_k3"]))}.',
        '''Definition g_brc_params (p : obj) : res obj :=
  match jget g_rc_key p with
  | None => Ok p
  | Some rcj =>
      let* has := key_in g_brc_gk rcj in
      if has then
        let* rc := as_obj rcj in
        let p' := jdel g_rc_key p in
        let* gpf := jreq g_brc_gk rc in
        let* items := as_arr gpf in
        let* g0s := pluck g_brc_rg items in
        let* fos := pluck g_brc_rf items in
        if g_brc_test fos then
          let* rf := jreq g_brc_r1 rc in
          Ok (jset g_rc_key (JObj [(g_brc_k1, rf); (g_brc_k2, JArr g0s); (g_brc_k3, JArr fos)]) p')
        else Ok p'
      else Ok p
  end.
Definition g_convert_back_raman_coef (doc : obj) : res obj := on_elements (with_params g_brc_params) doc.
''']


def gen_nf(src, out):
    for fn, back, scope, pre in (('convert_nf_coef', 'convert_back_nf_coef', 'edfa', 'nf'),
                                 ('convert_nf_fit_coef', 'convert_back_nf_fit_coef', 'json_data', 'nff')):
        if scope == 'edfa':
            head = "if H_cont not in json_data:\n    return json_data\nfor edfa in json_data[H_cont]:\n"
            ind, tail = '    ', 'return json_data\n'
        else:
            head, ind, tail = '', '', 'return json_data\n'
        body_f = (f"{ind}if H_key in {scope} and not isinstance({scope}[H_key][0], dict):\n"
                  f"{ind}    nf_coef = {scope}.pop(H_key)\n"
                  f"{ind}    new_nf_coef = [{{H_ko: i, H_kc: c}} for i, c in enumerate(nf_coef)]\n"
                  f"{ind}    {scope}[H_key] = new_nf_coef\n")
        b = match(head + body_f + tail, src.body(UTILS, fn), fn)
        body_b = (f"{ind}if H_key in {scope} and isinstance({scope}[H_key][0], dict):\n"
                  f"{ind}    nf_coef = {scope}.pop(H_key)\n"
                  f"{ind}    sorted_nf_coef = sorted(nf_coef, key=lambda x: x[H_ko])\n"
                  f"{ind}    new_nf_coef = H_read\n"
                  f"{ind}    {scope}[H_key] = new_nf_coef\n")
        bb = match(head + body_b + tail, src.body(UTILS, back), back)
        # [c[K] for c in sorted_nf_coef]  or with a filter `if c.get(K)` / `if K in c`
        rd = bb['H_read']
        if not (isinstance(rd, ast.ListComp) and len(rd.generators) == 1 and isinstance(rd.generators[0].target, ast.Name)
                and isinstance(rd.generators[0].iter, ast.Name) and rd.generators[0].iter.id == 'sorted_nf_coef'
                and isinstance(rd.elt, ast.Subscript) and isinstance(rd.elt.value, ast.Name)
                and rd.elt.value.id == rd.generators[0].target.id):
            raise Unsupported(f'{back}: {ast.unparse(rd)}')
        cvar = rd.generators[0].target.id
        kc = rd.elt.slice
        ifs = rd.generators[0].ifs
        if not ifs:
            keep = 'fun _ : option json => true'
        elif len(ifs) == 1:
            keep, neg = opt_test(src, ifs[0], cvar, kc)
            if neg:
                raise Unsupported(f'{back}: negated filter')
        else:
            raise Unsupported(f'{back}: several filters')
        if src.k(bb['H_key']) != src.k(b['H_key']) or src.k(bb['H_ko']) != src.k(b['H_ko']):
            raise Unsupported(f'{fn}/{back}: keys differ')
        out += [
            f'(* {UTILS}: {fn}, {back} *)',
            f'Definition g_{pre}_key : string := {slit(src.k(b["H_key"]))}.',
            f'Definition g_{pre}_ko : string := {slit(src.k(b["H_ko"]))}.',
            f'Definition g_{pre}_kc : string := {slit(src.k(b["H_kc"]))}.',
            f'Definition g_{pre}_rc : string := {slit(src.k(kc))}.',
            f'Definition g_{pre}_keep : option json -> bool := {keep}.',
        ]
        if scope == 'edfa':
            out += [f'Definition g_{pre}_cont : string := {slit(src.k(b["H_cont"]))}.']
        out += [f'''Fixpoint g_{pre}_enum (i : Z) (l : list json) : list json :=
  match l with
  | [] => []
  | c :: t => JObj [(g_{pre}_ko, JNum i 0); (g_{pre}_kc, c)] :: g_{pre}_enum (i + 1) t
  end.
Definition g_{pre}_forth (e : obj) : res obj :=
  match jget g_{pre}_key e with
  | None => Ok e
  | Some v =>
      let* l := as_arr v in
      let* h := nth_req l 0 in
      if is_dict h then Ok e else Ok (jset g_{pre}_key (JArr (g_{pre}_enum 0 l)) (jdel g_{pre}_key e))
  end.
Definition g_{pre}_back (e : obj) : res obj :=
  match jget g_{pre}_key e with
  | None => Ok e
  | Some v =>
      let* l := as_arr v in
      let* h := nth_req l 0 in
      if is_dict h then
        let* pairs := mapM (fun it => let* o := as_obj it in let* k := jreq g_{pre}_ko o in Ok (k, it)) l in
        let* sorted := sort_by pairs in
        let* css := mapM (fun p => let* o := as_obj (snd p) in
                                   if g_{pre}_keep (jget g_{pre}_rc o) then let* c := jreq g_{pre}_rc o in Ok [c] else Ok []) sorted in
        Ok (jset g_{pre}_key (JArr (concat css)) (jdel g_{pre}_key e))
      else Ok e
  end.
''']
        if scope == 'edfa':
            out += [f'Definition g_{fn} (doc : obj) : res obj := on_entries g_{pre}_cont g_{pre}_forth doc.',
                    f'Definition g_{back} (doc : obj) : res obj := on_entries g_{pre}_cont g_{pre}_back doc.', '']
        else:
            out += [f'Definition g_{fn} (doc : obj) : res obj := g_{pre}_forth doc.',
                    f'Definition g_{back} (doc : obj) : res obj := g_{pre}_back doc.', '']


def gen_range(src, out):
    r = match('''
return {H_k0: range_values[H_i0], H_k1: range_values[H_i1], H_k2: range_values[H_i2]}
''', src.body(UTILS, 'convert_range_to_dict'), 'convert_range_to_dict')
    idx = []
    for h in ('H_i0', 'H_i1', 'H_i2'):
        if not (isinstance(r[h], ast.Constant) and isinstance(r[h].value, int) and 0 <= r[h].value <= 2):
            raise Unsupported('convert_range_to_dict: index')
        idx.append(r[h].value)
    keys = [src.k(r['H_k0']), src.k(r['H_k1']), src.k(r['H_k2'])]
    specs = {}
    for fn, var in (('process_span_data', 'span'), ('process_si_data', 'si')):
        b = match(f'''
if H_dk in {var}:
    return
if H_lk not in {var}:
    raise KeyError(H_msg)
H_v = {var}.get(H_lk, [0, 0, 0])
{var}[H_dk] = convert_range_to_dict(H_v)
del {var}[H_lk]
''', src.body(UTILS, fn), fn)
        specs[var] = (src.k(b['H_lk']), src.k(b['H_dk']))
    c = match('''
if H_c1 in json_data:
    for span in json_data[H_c1]:
        process_span_data(span)
if H_c2 in json_data:
    for si in json_data[H_c2]:
        process_si_data(si)
return json_data
''', src.body(UTILS, 'convert_delta_power_range'), 'convert_delta_power_range')
    bk = match('''
for span in json_data.get(H_c1, []):
    if H_dk1 in span:
        H_p1 = span.pop(H_dk1)
        span[H_lk1] = [H_a0, H_a1, H_a2]
for spectral_info in json_data.get(H_c2, []):
    if H_dk2 in spectral_info:
        H_p2 = spectral_info.pop(H_dk2)
        spectral_info[H_lk2] = [H_b0, H_b1, H_b2]
return json_data
''', src.body(UTILS, 'convert_back_delta_power_range'), 'convert_back_delta_power_range')

    def rd(elts, popped):
        ks = []
        for h in elts:
            n = bk[h]
            if not (isinstance(n, ast.Subscript) and isinstance(n.value, ast.Name) and isinstance(popped, ast.Name)
                    and n.value.id == popped.id):
                raise Unsupported(f'convert_back_delta_power_range: {ast.unparse(n)} is not read from the popped dict')
            ks.append(src.k(n.slice))
        return ks
    rs = rd(('H_a0', 'H_a1', 'H_a2'), bk['H_p1'])
    ri = rd(('H_b0', 'H_b1', 'H_b2'), bk['H_p2'])
    out += [
        '(* ' + UTILS + ': convert_range_to_dict, process_span_data, process_si_data, convert_delta_power_range, '
        'convert_back_delta_power_range *)',
        'Definition g_range_dict (l : list json) : res json :=',
        '  ' + ' '.join(f'let* x{j} := nth_req l {idx[j]} in' for j in range(3)),
        '  Ok (JObj ' + glist(f'({slit(keys[j])}, x{j})' for j in range(3)) + ').',
        f'Definition g_span_cont : string := {slit(src.k(c["H_c1"]))}.',
        f'Definition g_si_cont : string := {slit(src.k(c["H_c2"]))}.',
        f'Definition g_span_lk : string := {slit(specs["span"][0])}.',
        f'Definition g_span_dk : string := {slit(specs["span"][1])}.',
        f'Definition g_si_lk : string := {slit(specs["si"][0])}.',
        f'Definition g_si_dk : string := {slit(specs["si"][1])}.',
        '''Definition g_range_entry (lk dk : string) (e : obj) : res obj :=
  if jhas dk e then Ok e
  else match jget lk e with
       | None => Err (append "KeyError:" lk)
       | Some r => let* l := as_arr r in let* d := g_range_dict l in Ok (jdel lk (jset dk d e))
       end.
Definition g_convert_delta_power_range (doc : obj) : res obj :=
  let* d1 := on_entries g_span_cont (g_range_entry g_span_lk g_span_dk) doc in
  on_entries g_si_cont (g_range_entry g_si_lk g_si_dk) d1.''',
        f'Definition g_bspan_cont : string := {slit(src.k(bk["H_c1"]))}.',
        f'Definition g_bsi_cont : string := {slit(src.k(bk["H_c2"]))}.',
        f'Definition g_bspan_dk : string := {slit(src.k(bk["H_dk1"]))}.',
        f'Definition g_bspan_lk : string := {slit(src.k(bk["H_lk1"]))}.',
        f'Definition g_bsi_dk : string := {slit(src.k(bk["H_dk2"]))}.',
        f'Definition g_bsi_lk : string := {slit(src.k(bk["H_lk2"]))}.',
        f'Definition g_bspan_read : list string := {glist(slit(k) for k in rs)}.',
        f'Definition g_bsi_read : list string := {glist(slit(k) for k in ri)}.',
        '''Definition g_back_range_entry (lk dk : string) (rd : list string) (e : json) : res json :=
  let* has := key_in dk e in
  if has then
    let* eo := as_obj e in
    let* r := jreq dk eo in
    let* ro := as_obj r in
    let* vals := mapM (fun k => jreq k ro) rd in
    Ok (JObj (jset lk (JArr vals) (jdel dk eo)))
  else Ok e.
Definition g_back_range_all (key lk dk : string) (rd : list string) (doc : obj) : res obj :=
  match jget key doc with
  | None => Ok doc
  | Some l =>
      let* items := as_arr l in
      let* items' := mapM (g_back_range_entry lk dk rd) items in
      Ok (jset key (JArr items') doc)
  end.
Definition g_convert_back_delta_power_range (doc : obj) : res obj :=
  let* d1 := g_back_range_all g_bspan_cont g_bspan_lk g_bspan_dk g_bspan_read doc in
  g_back_range_all g_bsi_cont g_bsi_lk g_bsi_dk g_bsi_read d1.
''']


# ---- dispatch: order of the calls -------------------------------------------------------------------
MODEL_FN = {
    'reorder_raman_pumps': 'reorder_raman_pumps', 'reorder_lumped_losses_objects': 'reorder_lumped_losses',
    'remove_null_region_city': 'remove_null_region_city', 'convert_degree': 'convert_degree',
    'convert_design_band': 'convert_design_band', 'convert_loss_coeff_list': 'convert_loss_coeff_list',
    'convert_raman_coef': 'convert_raman_coef', 'convert_raman_efficiency': 'convert_raman_efficiency',
    'convert_delta_power_range': 'convert_delta_power_range', 'convert_nf_coef': 'convert_nf_coef',
    'add_missing_default_type_variety': 'add_missing_default_type_variety',
    'reorder_route_objects': 'reorder_route_objects', 'remove_union_that_fail': 'remove_union_that_fail',
    'convert_nf_fit_coef': 'convert_nf_fit_coef',
    'convert_back_degree': 'convert_back_degree', 'convert_back_design_band': 'convert_back_design_band',
    'convert_back_loss_coeff_list': 'convert_back_loss_coeff_list', 'convert_back_raman_coef': 'convert_back_raman_coef',
    'convert_back_delta_power_range': 'convert_back_delta_power_range',
    'convert_back_raman_efficiency': 'convert_back_raman_efficiency', 'convert_back_nf_coef': 'convert_back_nf_coef',
    'convert_back_nf_fit_coef': 'convert_back_nf_fit_coef',
}


def branch_test(src, node):
    """K in json_data | any(k in json_data for k in LIST)  -> Gallina bool over top"""
    if isinstance(node, ast.Compare) and len(node.ops) == 1 and isinstance(node.ops[0], ast.In) \
            and isinstance(node.comparators[0], ast.Name) and node.comparators[0].id == 'json_data':
        return f'jhas {slit(src.k(node.left))} top'
    t = ast.parse('any(k in json_data for k in H_l)').body[0].value
    b = {}
    if unify(t, node, b):
        n = b['H_l'][0]
        if isinstance(n, ast.BinOp) and isinstance(n.op, ast.Add):
            ks = src.klist(n.left) + src.klist(n.right)
        else:
            ks = src.klist(n)
        return f'any_key {glist(slit(k) for k in ks)} top'
    raise Unsupported(f'dispatch test {ast.unparse(node)}')


def steps_of(src, stmts):
    """the statements of one branch as a list of steps"""
    def sub(n):     # json_data[K] -> K
        if isinstance(n, ast.Subscript) and isinstance(n.value, ast.Name) and n.value.id == 'json_data':
            return src.k(n.slice)
        return None
    steps = []
    for s in stmts:
        if isinstance(s, ast.Pass):
            steps.append(('pass',))
            continue
        if isinstance(s, ast.Raise):
            steps.append(('raise',))
            continue
        if not (isinstance(s, ast.Assign) and len(s.targets) == 1):
            raise Unsupported(f'dispatch statement {ast.unparse(s)}')
        tgt, v = s.targets[0], s.value
        tself = isinstance(tgt, ast.Name) and tgt.id == 'json_data'
        tsub = sub(tgt)
        if isinstance(v, ast.Call) and isinstance(v.func, ast.Name):
            f = v.func.id
            if f == 'remove_namespace_context' and len(v.args) == 2 and tself:
                ns = src.k(v.args[1])
                if isinstance(v.args[0], ast.Name) and v.args[0].id == 'json_data':
                    steps.append(('strip', ns))
                elif sub(v.args[0]) is not None:
                    steps.append(('strip_sub', sub(v.args[0]), ns))
                else:
                    raise Unsupported(ast.unparse(s))
            elif f == '_convert_api_section' and tself:
                steps.append(('api',))
            elif f in MODEL_FN and len(v.args) == 1:
                a = v.args[0]
                if tself and isinstance(a, ast.Name) and a.id == 'json_data':
                    steps.append(('app', MODEL_FN[f]))
                elif tsub is not None and sub(a) == tsub:
                    steps.append(('under', tsub, MODEL_FN[f]))
                else:
                    raise Unsupported(f'dispatch statement {ast.unparse(s)}')
            else:
                raise Unsupported(f'dispatch call {ast.unparse(s)}')
        elif tself and sub(v) is not None:
            steps.append(('select', sub(v)))
        elif tself and isinstance(v, ast.Dict) and len(v.keys) == 1:
            k = src.k(v.keys[0])
            if isinstance(v.values[0], ast.Name) and v.values[0].id == 'json_data':
                steps.append(('wrap', k))
            elif sub(v.values[0]) is not None:
                steps.append(('wrapkey', k, sub(v.values[0])))
            else:
                raise Unsupported(ast.unparse(s))
        else:
            raise Unsupported(f'dispatch statement {ast.unparse(s)}')
    return steps


def fl(fs):
    return glist(fs)


def l2y_branch(steps):
    kinds = [s[0] for s in steps]
    if kinds == ['pass']:
        return 'Ok top'
    if kinds == ['raise']:
        return 'Err "ValueError:Unrecognized type of content"%string'
    if kinds and kinds[-1] == 'wrap' and all(k == 'app' for k in kinds[:-1]):
        fs = [s[1] for s in steps[:-1]]
        if not fs:
            return f'Ok [({slit(steps[-1][1])}, JObj top)]'
        return f'let* d := chain {fl(fs)} top in Ok [({slit(steps[-1][1])}, JObj d)]'
    if kinds and all(k == 'under' for k in kinds) and len({s[1] for s in steps}) == 1:
        return f'under {slit(steps[0][1])} {fl([s[2] for s in steps])} top'
    if kinds == ['wrapkey']:
        return f'let* s := jreq {slit(steps[0][2])} top in Ok [({slit(steps[0][1])}, s)]'
    raise Unsupported(f'legacy_to_yang branch {steps}')


def y2l_branch(steps):
    kinds = [s[0] for s in steps]
    if kinds == ['pass']:
        return 'Ok (JObj top)'
    if kinds == ['raise']:
        return 'Err "ValueError:Unrecognized type of content"%string'
    if kinds == ['api']:
        return 'Err "Unmodelled:api section"%string'
    if kinds == ['select']:
        return f'jreq {slit(steps[0][1])} top'
    if kinds == ['wrapkey']:
        return f'let* s := jreq {slit(steps[0][2])} top in Ok (JObj [({slit(steps[0][1])}, s)])'
    if kinds and kinds[0] == 'strip' and all(k == 'app' for k in kinds[1:]):
        return (f'let* t := as_obj (remove_ns {slit(steps[0][1])} (JObj top)) in '
                f'let* d := chain {fl([s[1] for s in steps[1:]])} t in Ok (JObj d)')
    if kinds and kinds[0] == 'strip_sub' and all(k == 'app' for k in kinds[1:]):
        return (f'let* inner := jreq {slit(steps[0][1])} top in '
                f'let* io := as_obj (remove_ns {slit(steps[0][2])} inner) in '
                f'let* d := chain {fl([s[1] for s in steps[1:]])} io in Ok (JObj d)')
    if kinds and kinds[-1] == 'strip' and all(k == 'app' for k in kinds[:-1]):
        return (f'let* d := chain {fl([s[1] for s in steps[:-1]])} top in '
                f'Ok (remove_ns {slit(steps[-1][1])} (JObj d))')
    if kinds and kinds[-1] == 'strip_sub' and all(k == 'under' for k in kinds[:-1]) \
            and len({s[1] for s in steps}) == 1:
        return (f'let* t\' := under {slit(steps[0][1])} {fl([s[2] for s in steps[:-1]])} top in '
                f'let* inner := jreq {slit(steps[-1][1])} t\' in Ok (remove_ns {slit(steps[-1][2])} inner)')
    if kinds and all(k == 'app' for k in kinds):
        return f'let* d := chain {fl([s[1] for s in steps])} top in Ok (JObj d)'
    if kinds and all(k == 'under' for k in kinds) and len({s[1] for s in steps}) == 1:
        return f'let* t\' := under {slit(steps[0][1])} {fl([s[2] for s in steps])} top in Ok (JObj t\')'
    raise Unsupported(f'yang_to_legacy branch {steps}')


def if_chain(node):
    """if / elif ... / else -> [(test | None, body)]"""
    out = []
    while True:
        out.append((node.test, node.body))
        if len(node.orelse) == 1 and isinstance(node.orelse[0], ast.If):
            node = node.orelse[0]
        else:
            out.append((None, node.orelse))
            return out


def gen_dispatch(src, out):
    body = src.body(CLY, 'legacy_to_yang')
    b = match('''
json_data = convert_none_to_empty(deepcopy(json_data))
H_chain
json_data = convert_dict(json_data)
return json_data
''', body, 'legacy_to_yang')
    if not isinstance(b['H_chain'], ast.If):
        raise Unsupported('legacy_to_yang: dispatch')
    lines = []
    for test, stmts in if_chain(b['H_chain']):
        br = l2y_branch(steps_of(src, stmts))
        lines.append(f'    if {branch_test(src, test)} then {br}\n    else ' if test is not None else br)
    out += ['(* ' + CLY + ': legacy_to_yang (tests and order of the calls of every branch) *)',
            'Definition g_legacy_to_yang (doc : json) : res json :=',
            '  let* top := as_obj (none_to_empty doc) in',
            '  let* r :=\n' + ''.join(lines) + ' in',
            '  convert_dict (JObj r).', '']
    body = src.body(CLY, 'yang_to_legacy')
    b = match('''
load_data(json.dumps(legacy_to_yang(json_data)))
json_data = convert_empty_to_none(json_data)
json_data = convert_back(json_data)
H_chain
return json_data
''', body, 'yang_to_legacy')
    if not isinstance(b['H_chain'], ast.If):
        raise Unsupported('yang_to_legacy: dispatch')
    lines = []
    for test, stmts in if_chain(b['H_chain']):
        br = y2l_branch(steps_of(src, stmts))
        lines.append(f'  if {branch_test(src, test)} then {br}\n  else ' if test is not None else br)
    out += ['(* ' + CLY + ': yang_to_legacy after its validation step (tests and order of the calls of every branch) *)',
            'Definition g_yang_to_legacy (doc : json) : res json :=',
            '  let* b := convert_back (empty_to_none doc) in',
            '  let* top := as_obj b in',
            ''.join(lines) + '.', '']


# ---- aliases ---------------------------------------------------------------------------------------
def gen_alias(src, out):
    fn = find(src.trees[JIO], '_equipment_from_json')
    branches = {}
    for n in ast.walk(fn):
        if isinstance(n, ast.If) and isinstance(n.test, ast.Compare) and isinstance(n.test.left, ast.Name) \
                and n.test.left.id == 'key' and isinstance(n.test.comparators[0], ast.Constant):
            branches[n.test.comparators[0].value] = n.body
    res = {}
    for kind, ctor in (('Edfa', 'Amp.from_json(extra_configs, **entry_without_other_name)'),
                       ('Transceiver', 'Transceiver(**entry_without_other_name)')):
        if kind not in branches:
            raise Unsupported(f'_equipment_from_json: branch {kind}')
        plain = 'Amp.from_json(extra_configs, **entry)' if kind == 'Edfa' else 'Transceiver(**entry)'
        b = match(f'''
if H_kon not in entry:
    equipment[key][subkey] = {plain}
else:
    for other_name in entry[H_kon] + [subkey]:
        entry_without_other_name = deepcopy(entry)
        H_s1
        H_s2
        equipment[key][other_name] = {ctor}
''', branches[kind], f'_equipment_from_json[{kind}]')
        kon = src.k(b['H_kon'])
        term = 'e'
        for h in ('H_s1', 'H_s2'):
            s = b[h]
            t1 = ast.parse('entry_without_other_name[H_k] = other_name').body[0]
            t2 = ast.parse('entry_without_other_name.pop(H_k)').body[0]
            bb = {}
            if unify(t1, s, bb):
                term = f'jset {slit(src.k(bb["H_k"][0]))} (JStr n) ({term})'
            elif unify(t2, s, bb):
                term = f'jdel {slit(src.k(bb["H_k"][0]))} ({term})'
            else:
                raise Unsupported(f'_equipment_from_json[{kind}]: {ast.unparse(s)}')
        res[kind] = (kon, term)
    out += ['(* ' + JIO + ': _equipment_from_json, other_name loops of the Edfa and Transceiver branches *)']
    for kind, nm in (('Edfa', 'edfa'), ('Transceiver', 'trx')):
        kon, term = res[kind]
        out += [f'''Definition g_expand_{nm} (e : obj) : res (list (string * obj)) :=
  if jhas {slit(kon)} e then
    let* names := alias_names e in
    Ok (map (fun n => (n, {term})) names)
  else let* sk := subkey e in Ok [(sk, e)].''']
    # Transceiver.__init__: mode aliases
    body = src.body(JIO, 'Transceiver.__init__')
    b = match('''
self.update_attr(self.default_values, kwargs, 'Transceiver')
other_modes = []
for mode_params in self.mode:
    penalties = mode_params.get('penalties')
    mode_params['penalties'] = {}
    mode_params['equalization_offset_db'] = mode_params.get('equalization_offset_db', 0)
    H_penalties
    if H_kon in mode_params:
        for other_name in mode_params[H_kon]:
            other_mode = deepcopy(mode_params)
            other_mode.pop(H_kon)
            other_mode[H_kf] = other_name
            other_modes.append(other_mode)
        mode_params.pop(H_kon)
self.mode.extend(other_modes)
''', body, 'Transceiver.__init__')
    if not (isinstance(b['H_penalties'], ast.If) and ast.unparse(b['H_penalties'].test) == 'penalties'):
        raise Unsupported('Transceiver.__init__: penalties block')
    out += ['(* ' + JIO + ': Transceiver.__init__, mode-level other_name *)',
            f'Definition g_mode_kon : string := {slit(src.k(b["H_kon"]))}.',
            f'Definition g_mode_kf : string := {slit(src.k(b["H_kf"]))}.',
            '''Definition g_mode_aliases (m : obj) : res (list obj) :=
  let* names := match jget g_mode_kon m with
                | None => Ok []
                | Some on => let* l := as_arr on in mapM as_key l
                end in
  Ok (map (fun n => jset g_mode_kf (JStr n) (jdel g_mode_kon m)) names).
Definition g_expand_modes (ms : list obj) : res (list obj) :=
  let* al := mapM g_mode_aliases ms in
  Ok (map (jdel g_mode_kon) ms ++ concat al).
''']


def copied(node, inner_src):
    """deepcopy(X) -> true ; X itself -> false (the caller's object is then converted in place)"""
    if ast.unparse(node) == f'deepcopy({inner_src})':
        return 'true'
    if ast.unparse(node) == inner_src:
        return 'false'
    raise Unsupported(f'copy of {inner_src}: {ast.unparse(node)}')


def gen_api(src, out):
    core = match('''
core_keys = H_keys
return {key: yang_to_legacy(value) for key, value in api_payload.items() if key in core_keys}
''', src.body(CLY, '_convert_api_core_sections'), '_convert_api_core_sections')
    items = match('''
result = []
for item in items:
    item_copy = H_copy
    name = item_copy.get("name")
    payload = {k: v for k, v in item_copy.items() if k != "name"}
    converted = {EQPT_NMSP: yang_to_legacy(payload)} if is_eqpt else yang_to_legacy(payload)
    result.append({"name": name, **converted})
return result
''', src.body(CLY, '_convert_api_extra_items'), '_convert_api_extra_items')
    sec = match('''
api_payload = H_copy
converted = _convert_api_core_sections(api_payload)
converted[SPECTRUM_NMSP] = yang_to_legacy({SPECTRUM_NMSP: api_payload.get(SPECTRUM_NMSP, [])})
if "extra-eqpts" in api_payload:
    converted["extra-eqpts"] = _convert_api_extra_items(api_payload["extra-eqpts"], is_eqpt=True)
if "extra-configs" in api_payload:
    converted["extra-configs"] = _convert_api_extra_items(api_payload["extra-configs"], is_eqpt=False)
return converted
''', src.body(CLY, '_convert_api_section'), '_convert_api_section')
    out += ['(* ' + CLY + ': _convert_api_section, _convert_api_core_sections, _convert_api_extra_items (the gnpy-api:api '
            'container is not modelled: what is tied is that the caller\'s payload is copied before it is converted, and '
            'which sections are converted) *)',
            f'Definition g_api_payload_copied : bool := {copied(sec["H_copy"], "json_data[API_NMSP]")}.',
            f'Definition g_api_item_copied : bool := {copied(items["H_copy"], "item")}.',
            f'Definition g_api_core_keys : list string := {glist(slit(k) for k in src.klist(core["H_keys"]))}.', '']


def generate(repo=None):
    src = Src(repo or common.REPO)
    out = ['(* GENERATED on every run by harness/pygen_c18.py from gnpy/tools/yang_convert_utils.py, '
           'convert_legacy_yang.py and json_io.py - do not edit. *)',
           'From Verif Require Import Prelude Model.YangPrecision Model.Yang.', 'Open Scope Z_scope.', '',
           '(* module constants *)']
    for name in ('ELEMENTS_KEY', 'ROADM_KEY', 'TRANSCEIVER_KEY', 'PARAMS_KEY', 'DEGREE_KEY', 'TOPO_NMSP', 'EQPT_NMSP',
                 'SERV_NMSP', 'RESP_NMSP', 'EDFA_CONFIG_NMSP', 'SIM_PARAMS_NMSP', 'SPECTRUM_NMSP', 'API_NMSP'):
        if name not in src.strs:
            raise Unsupported(f'module constant {name}')
        out.append(f'Definition g_{name} : string := {slit(src.strs[name])}.')
    for name in ('EQPT_TYPES', 'EDFA_CONFIG_KEYS', 'SIM_PARAMS_KEYS'):
        if name not in src.lists:
            raise Unsupported(f'module constant {name}')
        out.append(f'Definition g_{name} : list string := {glist(slit(k) for k in src.lists[name])}.')
    out.append('')
    gen_degree(src, out)
    gen_back_degree(src, out)
    gen_design_band(src, out)
    gen_loss(src, out)
    gen_raman(src, out)
    gen_nf(src, out)
    gen_range(src, out)
    gen_dispatch(src, out)
    gen_alias(src, out)
    gen_api(src, out)
    return '\n'.join(out) + '\n'


def regenerate():
    """(Re)write coq/theories/Gen/YangGen.v when its content changed. Returns (ok, message)."""
    try:
        txt = generate()
    except (Unsupported, SyntaxError, OSError, KeyError) as e:
        return False, f'translation failed: {type(e).__name__}: {e}'
    os.makedirs(os.path.dirname(DST), exist_ok=True)
    if not os.path.exists(DST) or open(DST).read() != txt:
        with open(DST, 'w') as f:
            f.write(txt)
    return True, 'ok'


if __name__ == '__main__':
    print(generate())
