"""C15 — every designed network yields a consistent OMS partition and spectrum map.

Tie (correspondence, same inputs through gnpy and through the Gallina model `Verif.Model.Oms`):
  (a) `align_grids` on sets of real OMS objects (built with OMS.update_spectrum) of different extents / occupancy;
  (b) `create_oms_bitmap` + `Bitmap` on band lists (through real `find_elements_common_range` on stand-in
      amplifiers): grid-aligned (judged), off-grid edges (reported, not judged exactly), bands closer than one
      slot, malformed;
  (c) `build_oms_list` on random designed networks whose OMS differ in amplifier bands (C, L, C+L, narrower
      models, shifted band edges) vs the model run on the graph extracted from networkx;
  (c') `build_oms_list` on raw graphs of stand-in elements (no design): chain-structured ones (judged) and malformed
      ones (edges back to the previous element, dead ends, shared elements, transceivers on lines, no amplifier);
  (c'') two-step: on a share of (c) and (c') the list is built, spectrum is assigned on some OMS, and the list is built
      again on the same network object; the second list is what is compared and judged;
  (d) frequency_to_n / nvalue_to_frequency / mvalue_to_slots / slots_to_m / find_common_range unit cases.
Oracle: the property evaluated directly on what the implementation built (partition, ROADM-to-ROADM runs along
graph edges, reverse pairing, one common contiguous extent, FREE exactly inside the OMS's common band(s),
alignment keeps indices unique and occupancy at its slot).  The for-all part is Props/C15.v.
"""
import copy
import glob
import json
import logging
import os
from fractions import Fraction
from types import SimpleNamespace as NS

from . import common
from .common import zlit, listlit, strlit, qlit

CH = {'UNUSABLE': 'u', 'OCCUPIED': '0', 'FREE': '1'}
REF = 193100000000000
GRID = 6250000000
GB = 25000000000


# ------------------------------------------------------------------ small helpers
def trunc_div(a, b):
    """int(a / b) on exact rationals"""
    q = Fraction(a) / Fraction(b)
    return int(q.numerator // q.denominator) if q >= 0 else -int((-q.numerator) // q.denominator)


def f2n(f, grid=GRID):
    return trunc_div(Fraction(f) - REF, Fraction(grid))


def near_tie(f, grid):
    """exact quotient within 1e-9 of an integer without being one: float rounding could decide int()"""
    q = (Fraction(f) - REF) / Fraction(grid)
    d = abs(q - round(q))
    return d != 0 and d < Fraction(1, 10 ** 9)


def rle(s):
    out, i = [], 0
    while i < len(s):
        j = i
        while j < len(s) and s[j] == s[i]:
            j += 1
        out.append(f'{s[i]}{j - i}')
        i = j
    return '.'.join(out)


def runs(l):
    out, i = [], 0
    while i < len(l):
        j = i
        while j + 1 < len(l) and l[j + 1] == l[j] + 1:
            j += 1
        out.append(f'{l[i]}:{j - i + 1}')
        i = j + 1
    return '.'.join(out)


def cells_str(bitmap):
    return ''.join(CH[v.name] for v in bitmap)


def bm_s(b):
    return ','.join([str(b.n_min), str(b.n_max), str(b.freq_index_min), str(b.freq_index_max),
                     runs(list(b.freq_index)), rle(cells_str(b.bitmap))])


def frac_s(x):
    fr = Fraction(x)
    return f'{fr.numerator}/{fr.denominator}'


def canon_model(line):
    """model errors are 'E:Type:detail' -> compare on the exception type only"""
    def c(p):
        return 'E:' + p[2:].split(':')[0] if p.startswith('E:') else p
    return '#'.join('|'.join(c(q) for q in p.split('|')) for p in line.split('#'))


def exc_s(e):
    return 'E:' + type(e).__name__


def optq(c):
    return 'None' if c is None else f'(Some {strlit(c)}%string)'


def bandlit(b):
    return f'({qlit(b[0])}, {qlit(b[1])})'


# ------------------------------------------------------------------ (a) align_grids
def gen_cells(rng, n):
    cells = ['1'] * n
    if n and rng.random() < 0.6:
        k = rng.randint(0, n // 4)
        cells[:k] = ['u'] * k
        k = rng.randint(0, n // 4)
        if k:
            cells[-k:] = ['u'] * k
    for _ in range(rng.choice([0, 1, 2, 4, 8])):
        if n:
            a = rng.randint(0, n - 1)
            k = rng.choice([1, 2, 4, 8, 12])
            cells[a:a + k] = ['0' if c == '1' else c for c in cells[a:a + k]]
    return ''.join(cells)


def gen_align(rng, malformed=False, big=False):
    grid = rng.choice([GRID, GRID, GRID, GRID, 2 * GRID, GRID // 2])
    noms = rng.choice([1, 2, 2, 3, 3, 4, 5, 6])
    same = rng.random() < 0.12
    base = (rng.randint(-60, 0), rng.randint(1, 80))
    oms = []
    for _ in range(noms):
        if big:
            lo, hi = rng.choice([-1056, -296, -288, -300]), rng.choice([320, 488, 480, 300])
        elif same:
            lo, hi = base
        else:
            lo = rng.randint(-120, 20)
            hi = lo + rng.choice([0, 1, 2, 5]) if rng.random() < 0.1 else rng.randint(lo, lo + 160)
        off_lo = rng.choice([0, 0, 0, 0, 1000000000, 3125000000, -2000000000])
        off_hi = rng.choice([0, 0, 0, 0, 1000000000, 3125000000, -2000000000])
        fmin = REF + lo * grid + off_lo
        fmax = REF + hi * grid + off_hi
        gb = rng.choice([GB, GB, GB, 2 * GRID, 0, 50000000000])
        if fmax < fmin:
            fmax = fmin                                 # well-formed maps have f_min <= f_max
        if malformed and rng.random() < 0.3:
            fmin, fmax = fmax + 3 * grid, fmin          # degenerate extent
        n = max(0, f2n(fmax, grid) - f2n(fmin, grid) + 1)
        cells = None if rng.random() < 0.2 else gen_cells(rng, n)
        if malformed and cells is not None and rng.random() < 0.3:
            cells = cells + '1' if rng.random() < 0.5 else cells[:-1]
        oms.append({'f_min': fmin, 'f_max': fmax, 'grid': grid, 'gb': gb, 'cells': cells})
    if malformed and rng.random() < 0.1:
        oms = []
    return {'kind': 'align', 'malformed': malformed, 'oms': oms}


def drive_align(case):
    from gnpy.topology.spectrum_assignment import OMS, BitmapValue, align_grids
    val = {'u': BitmapValue.UNUSABLE, '0': BitmapValue.OCCUPIED, '1': BitmapValue.FREE}
    oms_list = []
    try:
        for k, o in enumerate(case['oms']):
            om = OMS(oms_id=k, el_id_list=[], el_list=[])
            om.update_spectrum(float(o['f_min']), float(o['f_max']), guardband=float(o['gb']),
                               existing_spectrum=None if o['cells'] is None else [val[c] for c in o['cells']],
                               grid=float(o['grid']))
            oms_list.append(om)
    except Exception as e:
        return {'line': exc_s(e), 'exc': f'{type(e).__name__}: {e}', 'stage': 'construct'}
    before = [(b.n_min, b.n_max, b.freq_index_min, b.freq_index_max, list(b.freq_index), cells_str(b.bitmap))
              for b in (o.spectrum_bitmap for o in oms_list)]
    try:
        res = align_grids(oms_list)
    except Exception as e:
        return {'line': exc_s(e), 'exc': f'{type(e).__name__}: {e}', 'stage': 'align', 'before': before}
    after = [(b.n_min, b.n_max, b.freq_index_min, b.freq_index_max, list(b.freq_index), cells_str(b.bitmap))
             for b in (o.spectrum_bitmap for o in res)]
    return {'line': '/'.join(bm_s(o.spectrum_bitmap) for o in res), 'before': before, 'after': after,
            'same_objects': len(res) == len(oms_list) and all(a is b for a, b in zip(res, oms_list))}


def oracle_align(case, obs):
    """the property on the implementation's own before/after maps (well-formed maps only)"""
    fails = []
    if 'exc' in obs:
        fails.append(('align_raises', f"{obs['stage']}: {obs['exc']}"))
        return fails
    before, after = obs['before'], obs['after']
    if not obs['same_objects']:
        fails.append(('align_result_list', 'align_grids does not return the OMS it was given'))
    nmin = min(b[0] for b in before)
    nmax = max(b[1] for b in before)
    for k, (b, a) in enumerate(zip(before, after)):
        if (a[0], a[1]) != (nmin, nmax):
            fails.append(('align_extent', f'OMS {k}: extent {a[0]}..{a[1]} after alignment, expected {nmin}..{nmax}'))
        if len(set(a[4])) != len(a[4]):
            fails.append(('align_index_not_unique', f'OMS {k}: {len(a[4])} slot indices, {len(set(a[4]))} distinct'))
        if a[4] != list(range(nmin, nmax + 1)):
            fails.append(('align_index_not_contiguous', f'OMS {k}: freq_index is not range({nmin}, {nmax + 1})'))
        if len(a[5]) != len(a[4]):
            fails.append(('align_len', f'OMS {k}: {len(a[5])} cells for {len(a[4])} indices'))
        if (a[2], a[3]) != (b[2], b[3]):
            fails.append(('align_guard_changed', f'OMS {k}: freq_index_min/max changed'))
        pos = {}
        for i, n in enumerate(a[4]):
            pos.setdefault(n, i)
        bad = 0
        for n in range(nmin, nmax + 1):
            i = pos.get(n)
            got = a[5][i] if i is not None and i < len(a[5]) else None
            exp = b[5][n - b[0]] if b[0] <= n <= b[1] else '0'
            if got != exp:
                bad += 1
        if bad:
            fails.append(('align_occupancy_moved', f'OMS {k}: {bad} slot(s) do not hold the expected value after alignment'))
    return fails


def term_align(case):
    items = [f"mk {qlit(o['f_min'])} {qlit(o['f_max'])} {qlit(o['grid'])} {qlit(o['gb'])} {optq(o['cells'])}"
             for o in case['oms']]
    return f'align_case {listlit(items)}'


# ------------------------------------------------------------------ (b) create_oms_bitmap / Bitmap
def gen_bands_slots(rng, lo, hi, nb, min_gap):
    """nb bands as slot pairs inside [lo, hi], sorted, consecutive bands at least min_gap slots apart"""
    for _ in range(50):
        pts = sorted(rng.randint(lo, hi) for _ in range(2 * nb))
        bands = [(pts[2 * i], pts[2 * i + 1]) for i in range(nb)]
        if all(bands[i + 1][0] - bands[i][1] >= min_gap for i in range(nb - 1)) and all(a < b for a, b in bands):
            return bands
    return [(lo, hi)]


def gen_cob(rng, stream):
    grid = rng.choice([GRID, GRID, GRID, 2 * GRID])
    lo = rng.randint(-140, 10)
    hi = lo + rng.randint(8, 200)
    if rng.random() < 0.1:
        lo, hi = rng.choice([(-1056, 488), (-288, 480), (-300, 488)])
    nb = rng.choice([1, 1, 2, 2, 3, 4])
    pad_lo = min(rng.choice([0, 0, 1, 5, 12]), (hi - lo) // 3)
    pad_hi = min(rng.choice([0, 0, 1, 5, 12]), (hi - lo) // 3)
    slots = gen_bands_slots(rng, lo + pad_lo, hi - pad_hi, nb, rng.choice([0, 1, 1]))   # 0: bands may touch
    bands = [[REF + a * grid, REF + b * grid] for a, b in slots]
    fmin, fmax = REF + lo * grid, REF + hi * grid
    amps = None
    if stream == 'grid':
        if rng.random() < 0.2:
            fmin -= rng.choice([1000000000, 3000000000])     # network range itself may be off-grid
    elif stream == 'offgrid':
        slots = gen_bands_slots(rng, lo + 2, hi - 2, nb, 3)
        bands = []
        for a, b in slots:
            e1 = REF + a * grid + rng.choice([0, 1, -1]) * rng.randint(1, grid - 1)
            e2 = REF + b * grid + rng.choice([0, 1, -1]) * rng.randint(1, grid - 1)
            bands.append([e1, e2] if e1 < e2 else [REF + a * grid, REF + b * grid])
    elif stream == 'touching':
        # two bands disjoint in frequency whose facing edges fall into the same slot (int() cell of slot a)
        a = rng.randint(lo + 2, hi - 4)
        if a == 0:
            a = 1
        x = rng.randint(0, grid // 2 - 1)
        y = rng.randint(1, grid // 2 - 1)
        if a > 0:
            e1 = REF + a * grid + x
            e2 = e1 + y
        else:
            e2 = REF + a * grid - x
            e1 = e2 - y
        bands = [[REF + (lo + 1) * grid, e1], [e2, REF + (hi - 1) * grid]]
    elif stream == 'malformed':
        k = rng.random()
        if k < 0.2:
            bands = []
        elif k < 0.4:
            rng.shuffle(bands)
            bands.append([REF + (hi + 3) * grid, REF + (hi + 9) * grid])
        elif k < 0.6:
            bands[0][0] = REF + (lo - 7) * grid
        elif k < 0.8:
            bands[-1][1] = REF + (hi + 5) * grid
        else:
            bands = [[b[1], b[0]] for b in bands]
    elif stream == 'amps':
        # several amplifiers: the common range is what find_common_range makes of them
        amps = []
        for _ in range(rng.randint(1, 4)):
            nb2 = rng.choice([1, 1, 2, 3])
            sl = gen_bands_slots(rng, lo, hi, nb2, 2)
            ab = [[REF + a * grid, REF + b * grid] for a, b in sl if a < b]
            rng.shuffle(ab)
            if ab:
                amps.append(ab)
        if rng.random() < 0.3 and amps:
            amps.append(copy.deepcopy(amps[0]))
        bands = None
    si = [REF + (lo + 3) * grid, REF + (hi - 3) * grid]
    return {'kind': 'cob', 'stream': stream, 'bands': bands, 'amps': amps, 'si': si,
            'f_min': fmin, 'f_max': fmax, 'grid': grid, 'gb': rng.choice([GB, GB, 0, 2 * GRID])}


def fake_amps(band_lists):
    from gnpy.core.elements import Edfa, Multiband_amplifier
    els = []
    for k, bl in enumerate(band_lists):
        cls = Edfa if len(bl) == 1 else Multiband_amplifier
        e = cls.__new__(cls)
        e.uid = f'amp{k}'
        e.params = NS(bands=[{'f_min': float(b[0]), 'f_max': float(b[1])} for b in bl])
        els.append(e)
    els.append(NS(uid='fiber'))       # not an amplifier: ignored by find_elements_common_range
    return els


def drive_cob(case):
    import gnpy.topology.spectrum_assignment as sa
    from gnpy.topology.request import find_elements_common_range
    eq = {'SI': {'default': NS(f_min=float(case['si'][0]), f_max=float(case['si'][1]), spacing=50e9)}}
    amp_lists = case['amps'] if case['amps'] is not None else ([case['bands']] if case['bands'] else None)
    oms = NS(el_list=fake_amps(amp_lists) if amp_lists is not None else [])
    obs = {}
    orig = sa.find_elements_common_range
    if amp_lists is None:
        # an empty common range cannot be produced through amplifiers with a band: hand it over directly
        sa.find_elements_common_range = lambda el_list, equipment: []
    try:
        try:
            obs['common'] = [[Fraction(b['f_min']), Fraction(b['f_max'])]
                             for b in sa.find_elements_common_range(oms.el_list, eq)]
            cells = sa.create_oms_bitmap(oms, eq, float(case['f_min']), float(case['f_max']), float(case['grid']))
        except Exception as e:
            obs['line'] = exc_s(e)
            obs['exc'] = f'{type(e).__name__}: {e}'
            return obs
    finally:
        sa.find_elements_common_range = orig
    obs['cells'] = cells_str(cells)
    try:
        o = sa.OMS(oms_id=0, el_id_list=[], el_list=[])
        o.update_spectrum(float(case['f_min']), float(case['f_max']), guardband=float(case['gb']),
                          grid=float(case['grid']), existing_spectrum=cells)
        obs['line'] = rle(obs['cells']) + '|' + bm_s(o.spectrum_bitmap)
        obs['n_min'], obs['n_max'] = o.spectrum_bitmap.n_min, o.spectrum_bitmap.n_max
    except Exception as e:
        obs['line'] = rle(obs['cells']) + '|' + exc_s(e)
        obs['exc'] = f'{type(e).__name__}: {e}'
    return obs


def slot_ranges(bands, grid):
    """for each band the slots whose nominal frequency 193.1 THz + n * grid lies inside [f_min, f_max] (exact)"""
    out = []
    for b in bands:
        lo = (Fraction(b[0]) - REF) / Fraction(grid)
        hi = (Fraction(b[1]) - REF) / Fraction(grid)
        out.append((-((-lo.numerator) // lo.denominator), hi.numerator // hi.denominator))     # ceil, floor
    return out


def inside(ranges, n):
    return any(a <= n <= b for a, b in ranges)


def oracle_cob(case, obs, ctx):
    """length and marks of the map create_oms_bitmap returned (judged for grid-aligned, separated bands)"""
    fails = []
    stream, grid = case['stream'], case['grid']
    if stream == 'malformed':
        return fails
    if 'cells' not in obs:
        lists = case['amps'] if case['amps'] is not None else [case['bands']]
        if obs.get('exc', '').startswith('IndexError') and lists and not interval_intersection(lists, case['si']):
            fails.append(('oms-empty-common-range', 'create_oms_bitmap raises ' + obs['exc'] + ' for amplifiers without '
                          'a common band'))
        else:
            fails.append(('oms_bitmap_raises', obs.get('exc', '?')))
        return fails
    n_min, n_max = f2n(case['f_min'], grid), f2n(case['f_max'], grid)
    cells = obs['cells']
    common = obs['common']
    if len(cells) != n_max - n_min + 1:
        fails.append(('oms_bitmap_len', f'{len(cells)} cells for slots {n_min}..{n_max} (common range '
                      f'{[[float(a), float(b)] for a, b in common]})'))
        return fails
    if 'exc' in obs:
        fails.append(('bitmap_rejected', obs['exc']))
    bad_free = bad_unus = other = 0
    rng_ = slot_ranges(common, grid)
    for i, c in enumerate(cells):
        n = n_min + i
        ins = inside(rng_, n)
        if c == '1' and not ins:
            bad_free += 1
        elif c == 'u' and ins:
            bad_unus += 1
        elif c == '0':
            other += 1
    if stream in ('grid', 'amps'):
        if bad_free or bad_unus or other:
            fails.append(('oms_bitmap_marks', f'{bad_free} FREE slot(s) outside every common band, {bad_unus} UNUSABLE '
                          f'inside one, {other} OCCUPIED'))
    else:
        # off-grid band edges: int() truncates toward zero, i.e. differently on the two sides of 193.1 THz
        ctx.count('offgrid_cases')
        if bad_free:
            ctx.count('offgrid_free_slot_outside_band', bad_free)
        if bad_unus:
            ctx.count('offgrid_unusable_slot_inside_band', bad_unus)
        if other:
            fails.append(('oms_bitmap_marks', f'{other} OCCUPIED cell(s) in a fresh OMS map'))
    return fails


def term_cob(case):
    if case['amps'] is not None:
        common = (f"(find_common_range {listlit([listlit([bandlit(b) for b in a]) for a in case['amps']])} "
                  f"{bandlit(case['si'])})")
    elif case['bands']:
        # one stand-in amplifier carrying the bands: find_elements_common_range sorts / self-intersects them
        common = f"(find_common_range [{listlit([bandlit(b) for b in case['bands']])}] {bandlit(case['si'])})"
    else:
        common = '[]'
    return (f"cob_case {common} {qlit(case['f_min'])} {qlit(case['f_max'])} {qlit(case['grid'])} {qlit(case['gb'])}")


# ------------------------------------------------------------------ (d) unit functions
def gen_unit(rng):
    k = rng.random()
    if k < 0.3:
        pts = []
        for _ in range(12):
            grid = rng.choice([GRID, GRID, 2 * GRID, 50000000000, 3125000000])
            n = rng.randint(-1200, 600)
            off = rng.choice([0, 0, 1000, -1000, 1000000000, -1000000000, 1000 * rng.randint(-grid // 1000, grid // 1000)])
            pts.append([REF + n * grid + off, grid])
        return {'kind': 'f2n', 'pts': pts}
    if k < 0.5:
        return {'kind': 'n2f', 'pts': [[rng.randint(-1300, 700), rng.choice([GRID, 2 * GRID, 100000000000])]
                                       for _ in range(12)]}
    if k < 0.7:
        return {'kind': 'slots', 'pts': [[rng.randint(-400, 400), rng.randint(-3, 40)] for _ in range(12)]}
    amps = []
    for _ in range(rng.randint(0, 4)):
        nb = rng.choice([1, 1, 2, 3])
        sl = gen_bands_slots(rng, -200, 200, nb, 1)
        ab = [[REF + a * GRID, REF + b * GRID] for a, b in sl]
        if rng.random() < 0.3:
            rng.shuffle(ab)
        amps.append(ab)
    if amps and rng.random() < 0.3:
        amps.append(copy.deepcopy(rng.choice(amps)))
    if k < 0.85:
        return {'kind': 'fcr', 'amps': amps, 'si': [REF - 100 * GRID, REF + 100 * GRID]}
    # the dictionaries carry a 'spacing' entry: 0 key absent, 1 None, 2 a value; copies that differ in spacing only
    for _ in range(rng.randint(0, 2)):
        if amps:
            amps.append(copy.deepcopy(rng.choice(amps)))
    samps = [[[b[0], b[1], rng.choice([0, 0, 1, 2, 2]), rng.choice([50000000000, 75000000000, 100000000000])]
              for b in a] for a in amps]
    return {'kind': 'fcrsp', 'amps': samps, 'si': [REF - 100 * GRID, REF + 100 * GRID]}


def drive_unit(case):
    import gnpy.topology.spectrum_assignment as sa
    from gnpy.core.utils import find_common_range
    try:
        if case['kind'] == 'f2n':
            return {'line': '[' + ','.join(str(sa.frequency_to_n(float(f), float(g))) for f, g in case['pts']) + ']'}
        if case['kind'] == 'n2f':
            return {'line': ','.join(frac_s(sa.nvalue_to_frequency(n, float(g))) for n, g in case['pts'])}
        if case['kind'] == 'slots':
            out = []
            for a, b in case['pts']:
                s = sa.mvalue_to_slots(a, b)
                m = sa.slots_to_m(a, b)
                out.append(f'{s[0]}:{s[1]}:{m[0]}:{m[1]}')
            return {'line': ','.join(out)}
        if case['kind'] == 'fcrsp':
            bands = [[dict({'f_min': float(b[0]), 'f_max': float(b[1])},
                           **({} if b[2] == 0 else {'spacing': None} if b[2] == 1 else {'spacing': float(b[3])}))
                      for b in a] for a in case['amps']]
        else:
            bands = [[{'f_min': float(b[0]), 'f_max': float(b[1])} for b in a] for a in case['amps']]
        res = find_common_range(bands, float(case['si'][0]), float(case['si'][1]), 50e9)
        return {'line': ','.join(f"{frac_s(b['f_min'])}:{frac_s(b['f_max'])}" for b in res)}
    except Exception as e:
        return {'line': exc_s(e), 'exc': f'{type(e).__name__}: {e}'}


def oracle_unit(case, obs):
    import gnpy.topology.spectrum_assignment as sa
    fails = []
    if 'exc' in obs:
        fails.append(('unit_raises', obs['exc']))
        return fails
    if case['kind'] == 'n2f':
        for n, g in case['pts']:
            back = sa.frequency_to_n(sa.nvalue_to_frequency(n, float(g)), float(g))
            if back != n:
                fails.append(('n_freq_roundtrip', f'frequency_to_n(nvalue_to_frequency({n}, {g})) = {back}'))
    if case['kind'] == 'slots':
        for n, m in case['pts']:
            a, b = sa.mvalue_to_slots(n, m)
            if tuple(sa.slots_to_m(a, b)) != (n, m):
                fails.append(('slots_roundtrip', f'slots_to_m(mvalue_to_slots({n}, {m})) = {sa.slots_to_m(a, b)}'))
    return fails


def term_unit(case):
    if case['kind'] == 'f2n':
        return 'f2n_case ' + listlit([f'({qlit(f)}, {qlit(g)})' for f, g in case['pts']])
    if case['kind'] == 'n2f':
        return 'n2f_case ' + listlit([f'({zlit(n)}, {qlit(g)})' for n, g in case['pts']])
    if case['kind'] == 'slots':
        return 'slots_case ' + listlit([f'({zlit(a)}, {zlit(b)})' for a, b in case['pts']])
    if case['kind'] == 'fcrsp':
        return (f"fcrsp_case {listlit([listlit([f'sb {qlit(b[0])} {qlit(b[1])} {b[2]} {qlit(b[3])}' for b in a]) for a in case['amps']])} "
                f"{bandlit(case['si'])}")
    return (f"fcr_case {listlit([listlit([bandlit(b) for b in a]) for a in case['amps']])} {bandlit(case['si'])}")


# ------------------------------------------------------------------ (c) designed networks
C_AMPS = ['std_low_gain', 'std_low_gain_bis', 'std_medium_gain_C', 'std_low_gain_reduced_band', 'std_medium_gain',
          'test', 'std_low_gain_reduced']
L_AMPS = ['std_low_gain_L', 'std_medium_gain_L', 'std_low_gain_L_reduced_band', 'std_low_gain_L_ter']
MB_AMPS = ['std_low_gain_multiband', 'std_medium_gain_multiband', 'std_low_gain_multiband_bis',
           'std_low_gain_multiband_reduced_bis', 'std_low_gain_multiband_reduced', 'std_low_gain_multiband_ter']
CB = {'f_min': 191.3e12, 'f_max': 195.1e12, 'spacing': 50e9}
LB = {'f_min': 186.6e12, 'f_max': 190.0e12, 'spacing': 50e9}   # inside the L-band models of the library
_EQ_CACHE = {}


def equipment_variant(v):
    """eqpt_config_multiband.json, variant 0 as shipped; others move band edges of some amplifier models
    (1, 2: by whole slots, 3: off the 6.25 GHz grid, 4: edges of different models coincide)"""
    if v in _EQ_CACHE:
        return _EQ_CACHE[v]
    import gnpy
    from gnpy.tools.json_io import _equipment_from_json, DEFAULT_EXTRA_CONFIG
    path = os.path.join(os.path.dirname(gnpy.__file__), 'example-data', 'eqpt_config_multiband.json')
    d = json.load(open(path))
    shifts = {
        0: {},
        1: {'std_low_gain_reduced_band': (40 * GRID, -16 * GRID), 'std_low_gain_L_reduced_band': (8 * GRID, -24 * GRID),
            'std_low_gain_bis': (-4 * GRID, 0), 'std_medium_gain_L': (0, 12 * GRID)},
        2: {'std_low_gain': (0, -80 * GRID), 'std_low_gain_L': (16 * GRID, 0), 'std_medium_gain_C': (-8 * GRID, 8 * GRID),
            'std_low_gain_L_ter': (0, -8 * GRID)},
        # 4: band edges coincide pairwise: same f_min / different f_max, same f_max / different f_min, identical
        4: {'std_low_gain_reduced_band': (-160 * GRID, -120 * GRID), 'std_medium_gain_C': (4 * GRID, -36 * GRID),
            'std_medium_gain_L': (8 * GRID, -96 * GRID)},
        3: {'std_low_gain_reduced_band': (1000000000, -2000000000), 'std_low_gain_L_reduced_band': (3000000000, 1000000000),
            'std_medium_gain_C': (-1000000000, 500000000), 'std_low_gain_L_ter': (2500000000, -1500000000)},
    }[v]
    for e in d['Edfa']:
        if e['type_variety'] in shifts and 'f_min' in e:
            e['f_min'] += shifts[e['type_variety']][0]
            e['f_max'] += shifts[e['type_variety']][1]
    _EQ_CACHE[v] = _equipment_from_json(d, DEFAULT_EXTRA_CONFIG)
    return _EQ_CACHE[v]


def amp_el(rng, uid, mode, pal=None):
    pal = pal or {'C': C_AMPS, 'L': L_AMPS, 'CL': MB_AMPS}
    if mode == 'CL':
        return {'uid': uid, 'type': 'Multiband_amplifier', 'type_variety': rng.choice(pal['CL'])}
    tv = rng.choice(pal[mode])
    return {'uid': uid, 'type': 'Edfa', 'type_variety': tv,
            'operational': {'gain_target': None, 'delta_p': None, 'tilt_target': 0, 'out_voa': None}}


def gen_rebuild(rng):
    """two-step cases: spectrum assigned on some OMS of the first list ([k, offset, m]), then the list is built again on
    the same network object"""
    if rng.random() < 0.55:
        return None
    return [[rng.randint(0, 40), rng.randint(0, 200), rng.choice([1, 2, 4, 4, 8])] for _ in range(rng.randint(1, 5))]


def gen_net(rng, tricky=False):
    """random ROADM mesh; every directed line is C-only, L-only, C+L (explicit amplifiers, fully or partly
    given) or left to auto-design; ROADM design bands single or multi band"""
    n = rng.choice([2, 2, 3, 3, 4, 5])
    names = [chr(65 + i) for i in range(n)]
    edges = set()
    order = names[:]
    rng.shuffle(order)
    for i in range(1, n):
        edges.add(tuple(sorted((order[i], rng.choice(order[:i])))))
    for _ in range(rng.choice([0, 0, 1, 2])):
        a, b = rng.sample(names, 2)
        edges.add(tuple(sorted((a, b))))
    multi_default = rng.random() < 0.5       # network-wide flavour of ROADM design bands
    # half of the networks use a small palette of amplifier models (those with an explicit band), so that the range
    # of the network hangs on few models and on the order in which their elements are listed
    pal = None
    if rng.random() < 0.5:
        pal = {'C': rng.sample(['std_low_gain', 'std_low_gain_bis', 'std_medium_gain_C', 'std_low_gain_reduced_band'],
                               rng.choice([1, 2, 2])),
               'L': rng.sample(L_AMPS, rng.choice([1, 2, 2])), 'CL': rng.sample(MB_AMPS, rng.choice([1, 2]))}
    els, cx = [], []
    rb = {}
    for x in names:
        k = rng.random()
        if multi_default:
            bands = [CB, LB]
        else:
            bands = [CB] if k < 0.75 else [LB]
        if tricky and rng.random() < 0.4:
            bands = rng.choice([[CB], [LB], [CB, LB], None])          # None: both SI bands of the library
        rb[x] = bands
        els.append({'uid': f'trx {x}', 'type': 'Transceiver'})
        r = {'uid': f'roadm {x}', 'type': 'Roadm', 'params': {}}
        if bands is not None:
            r['params']['design_bands'] = copy.deepcopy(bands)
        els.append(r)
        cx += [(f'trx {x}', f'roadm {x}'), (f'roadm {x}', f'trx {x}')]
    modes = {}
    for (a, b) in sorted(edges):
        m = rng.choice(['auto', 'auto', 'C', 'C', 'L', 'CL', 'CL'])
        dirs = ((a, b), (b, a))
        if len(edges) > 1 and rng.random() < 0.12:
            dirs = (dirs[rng.randint(0, 1)],)          # a line that exists in one direction only
        for (s, t) in dirs:
            mode = m if rng.random() < 0.8 else rng.choice(['auto', 'C', 'L', 'CL'])
            single = rb[s] is not None and len(rb[s]) == 1
            if not tricky:
                # keep the line consistent with the design bands of its ingress ROADM
                if mode == 'C' and single and rb[s][0] is LB:
                    mode = 'L'
                elif mode == 'L' and single and rb[s][0] is CB:
                    mode = 'C'
            preamp_only = False
            if mode == 'auto' and not tricky and not single:
                # a fully automatic line under a multi-band ROADM is only designable when something tells gnpy that the
                # line is multi-band: give its pre-amplifier
                mode, preamp_only = 'CL', True
            modes[f'{s}{t}'] = mode + ('-preamp-only' if preamp_only else '')
            explicit = mode != 'auto'
            full = rng.random() < (0.5 if tricky else 0.92 if mode == 'CL' else 0.8)
            nsp = rng.choice([1, 1, 2, 2, 3])
            prev = f'roadm {s}'

            def put(uid, prev):
                els.append(amp_el(rng, uid, mode, pal))
                cx.append((prev, uid))
                return uid
            if explicit and not preamp_only and (full or rng.random() < 0.5):
                prev = put(f'booster {s}{t}', prev)
            for k in range(nsp):
                fu = f'fiber {s}{t}_{k}'
                els.append({'uid': fu, 'type': 'Fiber', 'type_variety': 'SSMF',
                            'params': {'length': round(rng.uniform(40, 90), 3), 'length_units': 'km', 'loss_coef': 0.2,
                                       'con_in': None, 'con_out': None}})
                cx.append((prev, fu))
                prev = fu
                if k < nsp - 1:
                    if rng.random() < 0.15:
                        u = f'fused {s}{t}_{k}'
                        els.append({'uid': u, 'type': 'Fused', 'params': {'loss': 1}})
                        cx.append((prev, u))
                        prev = u
                    elif explicit and not preamp_only and (full or rng.random() < 0.5):
                        prev = put(f'ila {s}{t}_{k}', prev)
            if explicit and (preamp_only or full or rng.random() < 0.5):
                prev = put(f'preamp {s}{t}', prev)
            cx.append((prev, f'roadm {t}'))
    if tricky and rng.random() < 0.15:
        # an external transponder: a transceiver sitting directly on a line of a C-band ROADM
        cands = [x for x in names if rb[x] is not None and len(rb[x]) == 1 and rb[x][0] is CB]
        if cands:
            x = rng.choice(cands)
            els.append({'uid': 'trx X', 'type': 'Transceiver', 'params': {'design_bands': [copy.deepcopy(CB)]}})
            for u in ('fiber XR', 'fiber RX'):
                els.append({'uid': u, 'type': 'Fiber', 'type_variety': 'SSMF',
                            'params': {'length': 60.0, 'length_units': 'km', 'loss_coef': 0.2, 'con_in': None, 'con_out': None}})
            cx += [('trx X', 'fiber XR'), ('fiber XR', f'roadm {x}'), (f'roadm {x}', 'fiber RX'), ('fiber RX', 'trx X')]
            modes['trx-on-line'] = x
    if rng.random() < 0.5:
        rng.shuffle(els)
    if rng.random() < 0.5:
        rng.shuffle(cx)
    return {'kind': 'net', 'eq': rng.choice([0, 0, 1, 2, 4, 4]), 'tricky': tricky, 'modes': modes, 'rebuild': gen_rebuild(rng),
            'topo': {'elements': els, 'connections': [{'from_node': a, 'to_node': b} for a, b in cx]}}


def interval_intersection(amp_band_lists, si):
    """common band(s) of the amplifiers, computed independently of gnpy: points covered by every amplifier,
    zero-width pieces dropped; no amplifier -> the SI band"""
    if not amp_band_lists:
        return [tuple(si)]
    cur = None
    for bl in amp_band_lists:
        iv = sorted((Fraction(b[0]), Fraction(b[1])) for b in bl)
        if cur is None:
            cur = iv
            continue
        new = []
        for a in cur:
            for b in iv:
                lo, hi = max(a[0], b[0]), min(a[1], b[1])
                if lo < hi:
                    new.append((lo, hi))
        cur = sorted(set(new))
    return cur


def drive_net(case):
    from gnpy.tools.json_io import network_from_json
    from gnpy.tools.worker_utils import designed_network
    eq = equipment_variant(case['eq'])
    try:
        if 'topo_file' in case:
            import gnpy
            topo = json.load(open(os.path.join(os.path.dirname(gnpy.__file__), 'example-data', case['topo_file'])))
        else:
            topo = copy.deepcopy(case['topo'])
        net = network_from_json(topo, eq)
        net, _, _ = designed_network(eq, net)
    except Exception as e:
        return {'design_exc': f'{type(e).__name__}: {str(e)[:200]}'}
    si = eq['SI']['default']
    return observe(net, eq, [Fraction(si.f_min), Fraction(si.f_max)], rebuild=case.get('rebuild'))


class Diverges(Exception):
    pass


def observe(net, eq, si, step_limit=None, rebuild=None):
    """extract the graph from networkx, run the real build_oms_list on it, record what it built.
    rebuild = [[k, offset, m], ...]: after the first build, assign spectrum (OMS.assign_spectrum) on the OMS k mod len,
    then build the OMS list AGAIN on the same network object; what is recorded and judged is the second list"""
    import gnpy.topology.spectrum_assignment as sa
    from gnpy.core.elements import Roadm, Transceiver, Edfa, Multiband_amplifier
    obs = {}
    nodes = list(net.nodes())
    ids = {n: i for i, n in enumerate(nodes)}
    obs['uids'] = [n.uid for n in nodes]

    def kind(n):
        return 0 if isinstance(n, Roadm) else 1 if isinstance(n, Transceiver) else \
            2 if isinstance(n, (Edfa, Multiband_amplifier)) else 3
    obs['graph'] = [[ids[n], kind(n), [ids[v] for _, v in net.edges([n])],
                     [[int(b['f_min']), int(b['f_max'])] if float(b['f_min']).is_integer() and float(b['f_max']).is_integer()
                      else [Fraction(b['f_min']), Fraction(b['f_max'])] for b in n.params.bands] if kind(n) == 2 else []]
                    for n in nodes]
    obs['si'] = si
    # chain description, in the order build_oms_list will meet the lines
    lines, ok = [], True
    for n in nodes:
        if kind(n) != 0:
            continue
        for _, t in net.edges([n]):
            if kind(t) == 1:
                continue
            chain, prev, cur, steps = [], n, t, 0
            while kind(cur) != 0 and steps <= len(nodes):
                chain.append(ids[cur])
                nx = [v for _, v in net.edges([cur]) if v is not prev]
                if not nx:
                    ok = False
                    break
                prev, cur = cur, nx[0]
                steps += 1
            lines.append([ids[n], chain, ids[cur]])
    obs['lines'], obs['lines_ok'] = lines, ok
    orig_add = sa.OMS.add_element
    if step_limit is not None:
        # a walk that never meets a ROADM would never return: stop it after more steps than (node, node) pairs exist
        count = [0]

        def guarded(self, elem):
            count[0] += 1
            if count[0] > step_limit:
                raise Diverges('walk does not terminate')
            return orig_add(self, elem)
        sa.OMS.add_element = guarded
    try:
        oms_list = sa.build_oms_list(net, eq)
        if rebuild and oms_list:
            done = 0
            for k, off, m in rebuild:
                o = oms_list[k % len(oms_list)]
                bm = o.spectrum_bitmap
                try:
                    o.assign_spectrum(bm.freq_index_min + m + off, m)
                    done += 1
                except (sa.SpectrumError, ValueError):
                    pass
            obs['rebuilt'], obs['assigned'] = True, done
            first = oms_list
            oms_list = sa.build_oms_list(net, eq)
            obs['same_objects_as_first'] = sum(1 for o in oms_list if any(o is x for x in first))
    except Exception as e:
        obs['exc'] = f'{type(e).__name__}: {e}'
        obs['line'] = 'E:diverges' if isinstance(e, Diverges) else exc_s(e)
        return obs
    finally:
        sa.OMS.add_element = orig_add
    obs['oms'] = []
    for o in oms_list:
        b = o.spectrum_bitmap
        obs['oms'].append({
            'oms_id': o.oms_id, 'els': [ids[e] for e in o.el_list], 'el_uids': list(o.el_id_list),
            'n_min': b.n_min, 'n_max': b.n_max, 'fi_min': b.freq_index_min, 'fi_max': b.freq_index_max,
            'idx': list(b.freq_index), 'cells': cells_str(b.bitmap),
            'rev': None if o.reversed_oms is None else next((k for k, x in enumerate(oms_list) if x is o.reversed_oms), -1),
        })
    owners = []
    for n in nodes:
        o = getattr(n, 'oms', None)
        owners.append(None if o is None else next((k for k, x in enumerate(oms_list) if x is o), -1))
    obs['owners'] = owners
    obs['owner_ids'] = [getattr(n, 'oms_id', None) for n in nodes]
    # the map an element reaches through its .oms must be the (fresh) map of the list just built
    obs['owner_occupied'] = [n.uid for n in nodes if getattr(n, 'oms', None) is not None
                             and any(v.name == 'OCCUPIED' for v in n.oms.spectrum_bitmap.bitmap)]
    obs['edges'] = {(ids[a], ids[b]) for a, b in net.edges()}
    body = '/'.join(';'.join(['[' + ','.join(map(str, o['els'])) + ']',
                              ','.join([str(o['n_min']), str(o['n_max']), str(o['fi_min']), str(o['fi_max']),
                                        runs(o['idx']), rle(o['cells'])]),
                              'N' if o['rev'] is None else str(o['rev'])]) for o in obs['oms'])
    obs['line'] = body + '#[' + ','.join('N' if x is None else str(x) for x in owners) + ']'
    return obs


# ------------------------------------------------------------------ (c') build_oms_list on raw graphs
RAW_BANDS = {'C': [[191300000000000, 196100000000000]], 'Cn': [[192000000000000, 195500000000000]],
             'L': [[186100000000000, 190000000000000]], 'CL': [[191300000000000, 196100000000000],
                                                                [186100000000000, 190000000000000]]}


def gen_band_family(rng):
    """amplifier models whose band edges coincide pairwise: same f_min / different f_max, same f_max / different
    f_min, identical, nested, touching; plus two-band models.  Returns ({model: bands}, SI band inside the core)"""
    a, b = rng.randint(-320, -120), rng.randint(120, 480)
    k1, k2, k3, k4 = (rng.randint(1, 50) for _ in range(4))
    m = rng.randint(-40, 40)
    f = lambda n: REF + n * GRID      # noqa: E731
    la, lb = a - rng.randint(400, 700), a - rng.randint(40, 120)
    pool = {
        'base': [[f(a), f(b)]], 'same': [[f(a), f(b)]],
        'lo_eq': [[f(a), f(b - k1)]], 'lo_eq2': [[f(a), f(b - k1 - k2)]],
        'hi_eq': [[f(a + k3), f(b)]], 'nested': [[f(a + k3), f(b - k4)]],
        'left': [[f(a), f(m)]], 'right': [[f(m), f(b)]],
        'two': [[f(a), f(b - k1)], [f(la), f(lb)]], 'two_b': [[f(la), f(lb - k2)], [f(a + k3), f(b)]],
        'low': [[f(la), f(lb)]],
    }
    names = rng.sample(sorted(pool), rng.choice([2, 2, 3, 4]))
    if rng.random() < 0.5:
        # the classic shape: models that agree on one edge only
        names = rng.choice([['base', 'lo_eq'], ['lo_eq', 'lo_eq2'], ['base', 'hi_eq'], ['lo_eq', 'hi_eq', 'nested'],
                            ['base', 'same', 'nested'], ['two', 'lo_eq2']])
    return {n: pool[n] for n in names}, [f(a + 60), f(b - 60)]


def gen_raw(rng, malformed=False):
    """a network given directly as a graph of stand-in elements (no design): ROADMs, transceivers on ROADMs, lines of
    amplifiers / passive elements; malformed: back edges, dead ends, shared elements, transceivers on lines ..."""
    nr = rng.choice([2, 2, 3, 4])
    if rng.random() < 0.3:
        bands, si = {k: [list(b) for b in v] for k, v in RAW_BANDS.items()}, [191350000000000, 196050000000000]
    else:
        bands, si = gen_band_family(rng)
    keys = sorted(bands)
    nodes, edges = [], []          # nodes: [uid, kind, band key]; edges in insertion order
    for r in range(nr):
        nodes.append([f'R{r}', 0, None])
        if rng.random() < 0.8:
            nodes.append([f'T{r}', 1, None])
            e = [(f'T{r}', f'R{r}'), (f'R{r}', f'T{r}')]
            if rng.random() < 0.5:
                e.reverse()
            edges += e
    pairs = [(a, b) for a in range(nr) for b in range(nr) if a != b]
    rng.shuffle(pairs)
    pairs = pairs[:rng.randint(1, len(pairs))]
    if rng.random() < 0.3:
        pairs.append(pairs[0])                       # parallel lines
    if rng.random() < 0.15:
        pairs.append((0, 0))                         # a loop line
    for k, (a, b) in enumerate(pairs):
        n = rng.choice([0, 1, 2, 2, 3, 4]) if (a != b) else rng.choice([2, 3])
        mode = rng.choice(keys + keys + ['none'])
        chain = []
        for i in range(n):
            if mode != 'none' and rng.random() < 0.6:
                bk = mode if rng.random() < 0.8 else rng.choice(keys)
                nodes.append([f'a{k}_{i}', 2, bk])
            else:
                nodes.append([f'f{k}_{i}', 3, None])
            chain.append(nodes[-1][0])
        p = [f'R{a}'] + chain + [f'R{b}']
        for i in range(len(p) - 1):
            fwd = (p[i], p[i + 1])
            if malformed and 0 < i and rng.random() < 0.25:
                back = (p[i], p[i - 1])              # an edge back to the element we came from
                edges += [back, fwd] if rng.random() < 0.5 else [fwd, back]
            elif malformed and 0 < i and rng.random() < 0.08:
                pass                                 # dead end
            else:
                edges.append(fwd)
    if not any(n[1] == 2 for n in nodes) and not malformed:
        nodes.append(['a_x', 2, keys[0]])
        edges += [('R0', 'a_x'), ('a_x', 'R1')]
    if malformed:
        k = rng.random()
        line_nodes = [n[0] for n in nodes if n[1] in (2, 3)]
        if k < 0.2 and line_nodes:
            nodes.append(['TX', 1, None])            # transceiver on a line
            nodes.append(['fx', 3, None])
            edges += [('TX', 'fx'), ('fx', 'R0'), ('R0', 'TX')]
        elif k < 0.3:
            nodes.append(['TZ', 1, None])            # transceiver without successor
        elif k < 0.45 and len(line_nodes) >= 2:
            a, b = rng.sample(line_nodes, 2)         # an element feeding two lines
            edges.append((a, b))
        elif k < 0.55 and line_nodes:
            a = rng.choice(line_nodes)
            edges.append((a, a))
    if rng.random() < 0.7:
        rng.shuffle(nodes)                           # the order in which elements are listed is free
    return {'kind': 'raw', 'malformed': malformed, 'rebuild': gen_rebuild(rng), 'nodes': nodes, 'edges': [list(e) for e in edges],
            'bands': bands, 'si': si}


def drive_raw(case):
    from networkx import DiGraph
    from gnpy.core.elements import Roadm, Transceiver, Edfa, Multiband_amplifier, Fused
    g = DiGraph()
    objs = {}
    fam = case.get('bands', RAW_BANDS)
    for uid, kind, bk in case['nodes']:
        cls = [Roadm, Transceiver, None, Fused][kind] if kind != 2 else (Edfa if len(fam[bk]) == 1 else Multiband_amplifier)
        e = cls.__new__(cls)
        e.uid = uid
        if kind == 2:
            e.params = NS(bands=[{'f_min': float(a), 'f_max': float(b)} for a, b in fam[bk]])
        objs[uid] = e
        g.add_node(e)
    for a, b in case['edges']:
        g.add_edge(objs[a], objs[b])
    eq = {'SI': {'default': NS(f_min=float(case['si'][0]), f_max=float(case['si'][1]), spacing=50e9)}}
    n = len(case['nodes'])
    return observe(g, eq, [Fraction(case['si'][0]), Fraction(case['si'][1])], step_limit=2 * (n * n + n + 2) * (len(case['edges']) + 1),
                   rebuild=case.get('rebuild'))


def oms_common_empty(obs):
    """does some line of the designed network carry amplifiers without any common band?"""
    g = obs['graph']
    for s, chain, d in obs['lines']:
        amps = [g[i][3] for i in chain if g[i][1] == 2]
        if amps and not interval_intersection(amps, obs['si']):
            return True
    return False


def si_outside_network_range(obs):
    """some line has no amplifier (its common band is the SI band) and the SI band exceeds the range of all amplifiers"""
    g = obs['graph']
    allb = [b for n in g if n[1] == 2 for b in n[3]]
    if not allb or not any(not [i for i in chain if g[i][1] == 2] for _, chain, _ in obs['lines']):
        return False
    return Fraction(obs['si'][0]) < min(Fraction(b[0]) for b in allb) or \
        Fraction(obs['si'][1]) > max(Fraction(b[1]) for b in allb)


def oracle_net(case, obs, ctx):
    fails = []
    g = obs['graph']
    if 'exc' in obs:
        if obs['exc'].startswith('IndexError') and oms_common_empty(obs):
            fails.append(('oms-empty-common-range', 'build_oms_list raises ' + obs['exc'] + ' on a designed network in '
                          'which one OMS carries amplifiers without a common band'))
        elif obs['exc'].startswith('SpectrumError') and si_outside_network_range(obs):
            fails.append(('si-band-outside-network-range', 'build_oms_list raises ' + obs['exc'][:120] + ' on a network with '
                          'an amplifier-less OMS (it takes the SI band) while every amplifier is narrower than the SI band'))
        else:
            fails.append(('build_oms_list_raises', obs['exc']))
        return fails
    oms = obs['oms']
    kinds = {n[0]: n[1] for n in g}
    # --- partition
    count = {}
    for k, o in enumerate(oms):
        if o['oms_id'] != k:
            fails.append(('oms_id', f"OMS at position {k} has oms_id {o['oms_id']}"))
        if o['el_uids'] != [obs['uids'][i] for i in o['els']]:
            fails.append(('el_id_list', f'OMS {k}: el_id_list differs from the uids of el_list'))
        e = o['els']
        if len(e) < 2 or kinds[e[0]] != 0 or kinds[e[-1]] != 0:
            fails.append(('oms_ends', f'OMS {k} does not run from a ROADM to a ROADM'))
        if any(kinds[i] in (0, 1) for i in e[1:-1]):
            fails.append(('oms_crosses_roadm', f'OMS {k} contains a ROADM/transceiver between its ends'))
        if any((a, b) not in obs['edges'] for a, b in zip(e, e[1:])):
            fails.append(('oms_not_a_path', f'OMS {k}: consecutive elements are not linked in the network'))
        for i in e[1:-1]:
            count.setdefault(i, []).append(k)
    for n in g:
        if n[1] in (2, 3):
            c = count.get(n[0], [])
            if len(c) != 1:
                fails.append(('partition', f"line element '{obs['uids'][n[0]]}' belongs to {len(c)} OMS"))
            elif obs['owners'][n[0]] != c[0] or obs['owner_ids'][n[0]] != c[0]:
                fails.append(('element_oms_ref', f"line element '{obs['uids'][n[0]]}': .oms/.oms_id do not name its OMS"))
    if obs.get('owner_occupied'):
        fails.append(('element_oms_stale', f"line element '{obs['owner_occupied'][0]}': the map reached through .oms shows "
                      'occupied slots right after build_oms_list' + (' (second build on the same network)' if obs.get('rebuilt') else '')))
    if obs.get('same_objects_as_first'):
        fails.append(('oms_objects_reused', 'the second build_oms_list returned OMS objects of the first list'))
    # a transceiver sitting directly on a line (external transponder): build_oms_list starts an OMS at it AND walks
    # through it from the ROADM behind; everything such a network breaks in the partition is one finding
    succ0 = {n[0]: (n[2][0] if n[2] else None) for n in g}
    trx_on_line = any(n[1] == 1 and succ0[n[0]] is not None and kinds[succ0[n[0]]] != 0 for n in g)
    if trx_on_line and fails and all(k in ('oms_ends', 'oms_crosses_roadm', 'partition', 'element_oms_ref') for k, _ in fails):
        fails = [('trx-on-line-oms', 'transceiver placed directly on a line: ' + '; '.join(d for _, d in fails[:4]))]
    # --- reverse pairing
    ends = [(o['els'][0], o['els'][-1]) for o in oms]
    for k, o in enumerate(oms):
        cands = [j for j, e in enumerate(ends) if e == (ends[k][1], ends[k][0])]
        if not cands:
            if o['rev'] is not None:
                fails.append(('reversed_spurious', f'OMS {k} has a reversed OMS although none runs the other way'))
        elif o['rev'] not in cands:
            fails.append(('reversed_missing', f"OMS {k} ({ends[k]}): reversed_oms = {o['rev']}, candidates {cands}"))
        elif len(cands) == 1 and ends.count(ends[k]) == 1 and oms[o['rev']]['rev'] != k:
            fails.append(('reversed_not_symmetric', f'OMS {k} <-> {o["rev"]}'))
    # --- one common contiguous extent
    allb = [b for n in g if n[1] == 2 for b in n[3]]
    net_fmin, net_fmax = min(Fraction(b[0]) for b in allb), max(Fraction(b[1]) for b in allb)
    exp_min, exp_max = f2n(net_fmin), f2n(net_fmax)
    exp_fi = (f2n(net_fmin + GB), f2n(net_fmax - GB))
    for k, o in enumerate(oms):
        if (o['n_min'], o['n_max']) != (exp_min, exp_max):
            fails.append(('extent', f"OMS {k}: slots {o['n_min']}..{o['n_max']}, network range is {exp_min}..{exp_max}"))
        if (o['fi_min'], o['fi_max']) != exp_fi:
            fails.append(('guard_index', f"OMS {k}: assignable centre range {o['fi_min']}..{o['fi_max']}, expected "
                          f"{exp_fi[0]}..{exp_fi[1]} (network range shrunk by the guard band)"))
        if o['idx'] != list(range(o['n_min'], o['n_max'] + 1)) or len(o['cells']) != len(o['idx']):
            fails.append(('map_shape', f"OMS {k}: freq_index / bitmap do not cover {o['n_min']}..{o['n_max']} once each"))
    # --- FREE exactly inside the common band(s)
    offgrid = any((Fraction(x) - REF) % GRID for b in allb for x in b)
    for k, o in enumerate(oms):
        amps = [g[i][3] for i in o['els'] if kinds[i] == 2]
        common = interval_intersection(amps, obs['si'])
        rng_ = slot_ranges(common, GRID)
        bad = sum(1 for i, c in enumerate(o['cells']) if (c == '1') != inside(rng_, o['n_min'] + i) or c == '0')
        if bad:
            if offgrid and not any(c == '0' for c in o['cells']):
                ctx.count('net_offgrid_slots_not_exact', bad)
            else:
                fails.append(('usable_marks', f'OMS {k}: {bad} slot(s) not marked FREE-inside / UNUSABLE-outside the '
                              f'common band(s) {[(float(a), float(b)) for a, b in common]}'))
    return fails


def term_net(case, obs):
    nodes = [f"nd {n[0]} {n[1]} {listlit([str(s) for s in n[2]])} {listlit([bandlit(b) for b in n[3]])}"
             for n in obs['graph']]
    lines = [f"ln {s} {listlit([str(i) for i in c])} {d}" for s, c, d in obs['lines']]
    return f"net_case {listlit(nodes)} {bandlit(obs['si'])} {listlit(lines)}"


# ------------------------------------------------------------------ run
def strip(c):
    return {k: v for k, v in c.items() if not k.startswith('_')}


def generate(ctx):
    rng = ctx.rng
    cases = []
    cases += [gen_align(rng) for _ in range(ctx.scale(240, 3000))]
    cases += [gen_align(rng, big=True) for _ in range(ctx.scale(10, 120))]
    cases += [gen_align(rng, malformed=True) for _ in range(ctx.scale(50, 600))]
    for stream, nq, nt in (('grid', 180, 2500), ('amps', 110, 1300), ('offgrid', 70, 800), ('touching', 6, 60),
                           ('malformed', 50, 600)):
        cases += [gen_cob(rng, stream) for _ in range(ctx.scale(nq, nt))]
    cases += [gen_unit(rng) for _ in range(ctx.scale(80, 800))]
    cases += [gen_net(rng) for _ in range(ctx.scale(130, 1800))]
    cases += [gen_net(rng, tricky=True) for _ in range(ctx.scale(35, 400))]
    cases += [gen_raw(rng) for _ in range(ctx.scale(50, 600))]
    cases += [gen_raw(rng, malformed=True) for _ in range(ctx.scale(50, 600))]
    # off-grid amplifier library: separate stream, marks reported not judged
    for _ in range(ctx.scale(12, 150)):
        c = gen_net(rng)
        c['eq'] = 3
        cases.append(c)
    return cases


MATCHERS = {
    'oms-empty-common-range': lambda v: v.get('key') == 'oms-empty-common-range',
    'trx-on-line-oms': lambda v: v.get('key') == 'trx-on-line-oms',
    'si-band-outside-network-range': lambda v: v.get('key') == 'si-band-outside-network-range',
}


def run(ctx):
    logging.disable(logging.CRITICAL)
    # second tie: re-translate the listed primitives of spectrum_assignment.py from /repo's source; the equivalence
    # lemmas of Proofs/OmsGen.v are then re-checked by check_props against what the code says now
    from . import pygen_c15
    gen_ok, gen_msg = pygen_c15.regenerate()
    ctx.proof = common.check_props('C15')
    if not gen_ok:
        ctx.proof['ok'] = False
        ctx.proof['log'] = 'harness/pygen_c15.py: ' + gen_msg + '\n' + ctx.proof.get('log', '')
        ctx.proof['failed_file'] = 'theories/Gen/OmsGen.v (translation of /repo source failed)'
    ctx.rule = ('(a) 1-6 real OMS with maps of random extents/offsets/grids/occupancy through align_grids; (b) random '
                'common-band lists (grid-aligned judged; off-grid, closer-than-one-slot and malformed streams) through '
                'find_elements_common_range + create_oms_bitmap + Bitmap; (c) random 2-5 ROADM meshes whose directed lines '
                'are C-only, L-only, C+L, narrower or auto-designed, four amplifier-library variants, designed by gnpy, '
                'through build_oms_list; (c2) raw graphs of stand-in elements, chain-structured and malformed, through '
                'build_oms_list; (d) unit cases of the slot/frequency conversions and find_common_range. '
                'non-trivial: align cases with >= 2 different extents, band lists with >= 2 bands or a band ending '
                'below f_max, networks with >= 2 distinct usable-slot layouts; distinct by content hash')
    cases = []
    for f in sorted(glob.glob(os.path.join(common.VERIF, 'corpus', 'C15', '*.json'))):
        c = json.load(open(f))
        c['_corpus'] = os.path.basename(f)
        cases.append(c)
    if ctx.replay:
        cases = [json.load(open(ctx.replay))['case']]
    else:
        cases += generate(ctx)
    terms, meta = [], []
    for c in cases:
        kind = c['kind']
        pc = strip(c)
        if kind == 'align':
            obs = drive_align(c)
            ctx.count('align_cases')
            ctx.count('align_malformed' if c.get('malformed') else 'align_wellformed')
            if 'exc' in obs:
                ctx.count('align_exception_' + obs['exc'].split(':')[0])
            nontriv = 'before' in obs and len({(b[0], b[1]) for b in obs['before']}) >= 2
            ctx.case(pc, nontriv)
            if any(near_tie(o[k], o['grid']) for o in c['oms'] for k in ('f_min', 'f_max')):
                ctx.count('skipped_tie')
                continue
            if not c.get('malformed'):
                for key, desc in oracle_align(c, obs):
                    ctx.violation(key, desc, pc)
            terms.append(term_align(c))
            meta.append((pc, obs['line'], 'corr:Oms.align_grids'))
        elif kind == 'cob':
            obs = drive_cob(c)
            ctx.count('cob_' + c['stream'])
            if 'exc' in obs:
                ctx.count('cob_exception_' + obs['exc'].split(':')[0])
            nontriv = 'cells' in obs and ('u1' in obs['line'] or obs['cells'].count('1u') >= 1)
            ctx.case(pc, nontriv)
            for key, desc in oracle_cob(c, obs, ctx):
                ctx.violation(key, desc, pc)
            terms.append(term_cob(c))
            meta.append((pc, obs['line'], 'corr:Oms.create_oms_bitmap'))
        elif kind in ('f2n', 'n2f', 'slots', 'fcr', 'fcrsp'):
            obs = drive_unit(c)
            ctx.count('unit_' + kind)
            ctx.case(pc, True)
            if kind == 'f2n' and any(near_tie(f, g) for f, g in c['pts']):
                ctx.count('skipped_tie')
                continue
            for key, desc in oracle_unit(c, obs):
                ctx.violation(key, desc, pc)
            terms.append(term_unit(c))
            meta.append((pc, obs['line'], 'corr:Oms.' + {'f2n': 'frequency_to_n', 'n2f': 'nvalue_to_frequency',
                                                          'slots': 'slots_to_m', 'fcr': 'find_common_range',
                                                          'fcrsp': 'find_common_range_sp'}[kind]))
        elif kind == 'raw':
            obs = drive_raw(c)
            ctx.count('raw_malformed' if c['malformed'] else 'raw_wellformed')
            if obs.get('rebuilt'):
                ctx.count('raw_rebuilt_after_assignment')
            if 'exc' in obs:
                ctx.count('raw_exception_' + obs['exc'].split(':')[0])
            ctx.case(pc, len({o['cells'] for o in obs.get('oms', [])}) >= 2)
            if not c['malformed']:
                for key, desc in oracle_net(c, obs, ctx):
                    ctx.violation(key, desc, pc)
            terms.append(term_net(c, obs))
            meta.append((pc, obs['line'], 'corr:Oms.build_oms_list'))
        elif kind == 'net':
            obs = drive_net(c)
            ctx.count('net_cases')
            if 'design_exc' in obs:
                ctx.count('net_design_rejected')
                ctx.count('net_design_rejected_' + obs['design_exc'].split(':')[0])
                continue
            ctx.count('net_designed')
            if obs.get('rebuilt'):
                ctx.count('net_rebuilt_after_assignment')
                ctx.count('net_rebuilt_assignments_done', obs.get('assigned', 0))
            ctx.count('net_eq_variant_%d' % c['eq'])
            for mk, m in c.get('modes', {}).items():
                ctx.count('net_trx_on_line' if mk == 'trx-on-line' else 'net_line_mode_' + m)
            if not obs['lines_ok']:
                ctx.count('net_not_chain_structured')
            layouts = {o['cells'] for o in obs.get('oms', [])}
            ctx.count('net_oms_total', len(obs.get('oms', [])))
            ctx.count('net_layouts_%s' % ('1' if len(layouts) <= 1 else '2' if len(layouts) == 2 else '3+'))
            ctx.case({'kind': 'net', 'eq': c['eq'], 'modes': c.get('modes'), 'n_nodes': len(obs['graph'])},
                     len(layouts) >= 2)
            for key, desc in oracle_net(c, obs, ctx):
                ctx.violation(key, desc, pc)
            terms.append(term_net(c, obs))
            meta.append((pc, obs['line'], 'corr:Oms.build_oms_list'))
    # the network terms are the heavy ones: shard them finely so that they spread over all coqc processes
    heavy = [i for i, mt in enumerate(meta) if mt[2] == 'corr:Oms.build_oms_list']
    light = [i for i, mt in enumerate(meta) if mt[2] != 'corr:Oms.build_oms_list']
    lines = [None] * len(terms)
    for idxs, per_file, tag in ((light, ctx.scale(60, 150), 'cases'), (heavy, ctx.scale(10, 30), 'nets')):
        out = common.coq_eval(os.environ.get('C15_WORK', 'C15'), 'Prelude Model.Spectrum Model.Oms Run.C15',
                              [terms[i] for i in idxs],
                              per_file=per_file, tag=tag, prelude='From Coq Require Import QArith.\nOpen Scope Z_scope.')
        for i, o in zip(idxs, out):
            lines[i] = o
    for (pc, impl, corr), model in zip(meta, lines):
        m = canon_model(model)
        if corr == 'corr:Oms.build_oms_list':
            # the model row carries three flags: chain_wf_b (graph is chain-structured), net_hyps_b (all hypotheses of
            # theorem build_oms_list_ok hold for this network), net_local_hyps_b (hypotheses of build_oms_list_local:
            # local graph conditions + amplifier bands only)
            parts = m.split('#')
            flags = parts[1] if len(parts) > 1 else '??'
            ctx.count('net_chain_wf_' + flags[0:1])
            ctx.count('net_theorem_hypotheses_' + flags[1:2])
            ctx.count('net_local_hypotheses_' + flags[2:3])
            if 'T' in flags[1:3] and impl.startswith('E:'):
                ctx.violation('theorem_hyps_but_raises', 'all hypotheses of build_oms_list_ok / build_oms_list_local '
                              'hold, yet build_oms_list raised ' + impl, pc)
            m = parts[0] if impl.startswith('E:') or len(parts) < 3 else parts[0] + '#' + parts[2]
        if m != impl:
            a, b = impl.split('/'), m.split('/')
            k = next((i for i in range(min(len(a), len(b))) if a[i] != b[i]), min(len(a), len(b)))
            ctx.corr_break(corr, f'first difference in part #{k}', pc,
                           impl=a[k] if k < len(a) else None, model=b[k] if k < len(b) else None)
    ctx.assumptions += [
        'translator tie: harness/pygen_c15.py (on harness/pygen.py; fail-closed Python-ast -> Gallina for frequency_to_n, '
        'nvalue_to_frequency (float expressions read as exact rational arithmetic), Bitmap.__init__, Bitmap.insert_left / '
        'insert_right (every statement), the band arithmetic of create_oms_bitmap, the decisions of align_grids and the '
        'keys of find_network_freq_range; the surrounding statements are matched against templates) is trusted; the loop '
        'of create_oms_bitmap is emitted as a right-nested recursion',
        'amplifier stand-ins for stream (b) are Edfa/Multiband_amplifier instances created without __init__ that carry '
        'only params.bands; the equipment dictionary carries only SI.default',
        'frequencies are integer numbers of Hz (exactly representable); cases whose exact quotient lies within 1e-9 of a '
        'slot boundary without being on it are skipped and counted (skipped_tie)',
        'network stream: the graph handed to the model is read from networkx after gnpy designed the network '
        '(node order, edge order, element kinds, params.bands of every amplifier)',
        'raw-graph stream: elements are Roadm/Transceiver/Edfa/Multiband_amplifier/Fused instances created without '
        '__init__ (uid, params.bands only); a walk of build_oms_list that exceeds the number of (node, node) states is '
        'stopped by a guard on OMS.add_element and compared with the model\'s out-of-fuel result',
        'find_common_range is modelled on (f_min, f_max); theorem spacing_irrelevant shows that a spacing entry seen by '
        'remove_duplicates cannot change the result, and the unit stream fcrsp compares the spacing-carrying model '
        'find_common_range_sp with the real function on dictionaries with absent / None / valued spacing',
        'off-grid band edges (stream offgrid, library variant 3) are compared model-vs-implementation but the '
        'FREE-exactly-inside clause is only counted there (int() truncates toward zero on both sides of 193.1 THz)',
    ]
    ctx.notes += [
        'theorems build_oms_list_ok / oms_partition are conditional on decidable hypotheses (chain-structured graph, '
        'sorted non-overlapping common range inside the network range on every line); net_hyps_b evaluates them in Coq on every designed network: '
        f"held on {ctx.counters.get('net_theorem_hypotheses_T', 0)} networks, not on "
        f"{ctx.counters.get('net_theorem_hypotheses_F', 0)} (those are judged by oracle and correspondence only); "
        'net_local_hyps_b (theorem build_oms_list_local: local graph conditions and amplifier bands only, no line '
        f"decomposition supplied) held on {ctx.counters.get('net_local_hypotheses_T', 0)} networks, not on "
        f"{ctx.counters.get('net_local_hypotheses_F', 0)}",
        'matchers for open findings (effective only for entries listed as open in known_findings.json): '
        'oms-empty-common-range, trx-on-line-oms, si-band-outside-network-range',
        'n_freq_roundtrip_float is a finite theorem (n in [-4000, 4000], grid 6.25 GHz) computed with PrimFloat by '
        'vm_compute; Print Assumptions lists the PrimFloat/PrimInt63 kernel primitives it evaluates with',
    ]
    return common.finish(ctx, MATCHERS)
