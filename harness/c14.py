"""C14 — spectrum assignment never double-books a slot and honours what the user fixed.

Tie: random request histories are driven through the real `pth_assign_spectrum` (real OMS / Bitmap objects,
one request at a time) and through the Gallina model `Verif.Model.Spectrum.pth_assign_one`; outcome and
every OMS bitmap are compared after every request.  Independently, the property itself is evaluated on the
implementation's own before/after snapshots (oracle).  The for-all part is Props/C14.v.
"""
import copy
import glob
import json
import os
from math import ceil
from types import SimpleNamespace as NS

from . import common
from .common import zlit, ozlit, listlit, strlit

CH = {'UNUSABLE': 'u', 'OCCUPIED': '0', 'FREE': '1'}


# ------------------------------------------------------------------ generators
def gen_cells(rng, n, gb):
    """usable-band layout + pre-occupied runs"""
    cells = ['1'] * n
    style = rng.random()
    if style < 0.35:
        pass
    else:
        # unusable prefix / suffix / gaps
        if rng.random() < 0.6:
            k = rng.randint(0, max(0, n // 5))
            cells[:k] = ['u'] * k
        if rng.random() < 0.6:
            k = rng.randint(0, max(0, n // 5))
            if k:
                cells[-k:] = ['u'] * k
        for _ in range(rng.randint(0, 2)):
            a = rng.randint(0, n - 1)
            k = rng.randint(1, max(1, n // 8))
            cells[a:a + k] = ['u'] * len(cells[a:a + k])
    for _ in range(rng.choice([0, 0, 1, 2, 4, 8])):
        a = rng.randint(0, n - 1)
        k = rng.choice([1, 2, 4, 8, 8, 12])
        seg = cells[a:a + k]
        cells[a:a + k] = ['0' if c == '1' else c for c in seg]
    return ''.join(cells)


def gen_case(rng, big=False):
    gb = rng.choice([4, 4, 4, 2, 1, 8])
    if big:
        n_min, n_max = -288, 480
    else:
        n_min = rng.randint(-120, -6)
        n_max = rng.randint(6, 140)
    n = n_max - n_min + 1
    noms = rng.choice([1, 1, 2, 2, 3, 4, 6])
    same = rng.random() < 0.3
    base = gen_cells(rng, n, gb)
    oms = [{'n_min': n_min, 'n_max': n_max, 'cells': base if same else gen_cells(rng, n, gb)} for _ in range(noms)]
    nreq = rng.randint(1, 14 if not big else 40)
    reqs = []
    for r in range(nreq):
        # multiples of the 12.5 GHz slot and spacings that are not (fractional part below, at and above one half slot)
        spacing = rng.choice([12.5e9, 25e9, 37.5e9, 50e9, 50e9, 50e9, 62.5e9, 75e9, 100e9, 33e9, 87.5e9,
                              28e9, 31.25e9, 40e9, 56.25e9, 65e9])
        bit_rate = rng.choice([100e9, 100e9, 200e9, 400e9])
        nb = rng.choice([1, 1, 1, 1, 2, 2, 3])
        bw = rng.choice([bit_rate * nb, bit_rate * nb - 50e9 if bit_rate * nb > 50e9 else bit_rate * nb, bit_rate * nb])
        pcm = ceil(spacing / 12.5e9)
        nslots = rng.choice([1, 1, 1, 1, 2, 2, 3, 4])
        N, M = [], []
        for _ in range(nslots):
            km = rng.random()
            if km < 0.4:
                mm = None
            elif km < 0.9:
                mm = pcm * rng.choice([1, 1, 1, 2, 2, 3, 4])
            else:
                mm = rng.randint(1, 3 * pcm + 2)
            kind = rng.random()
            half = mm if mm is not None else pcm
            if kind < 0.4:
                nn = None
            elif kind < 0.85 and n_min + gb + half <= n_max - gb - half + 1:
                nn = rng.randint(n_min + gb + half, n_max - gb - half + 1)     # fits inside the guard bands
            elif kind < 0.95:
                nn = rng.randint(n_min - 2, n_max + 2)
            else:
                nn = rng.choice([n_min - 50, n_max + 37, 10000, n_min, n_max, n_min + gb, n_max - gb])
            N.append(nn)
            M.append(mm)
        ids = list(range(noms))
        k = rng.randint(1, noms)
        pth = [rng.choice(ids) for _ in range(rng.randint(1, 3))] if rng.random() < 0.3 else rng.sample(ids, k)
        pth = [i for i in pth for _ in range(rng.choice([1, 2]))]
        rpth = [] if rng.random() < 0.5 else [rng.choice(ids) for _ in range(rng.randint(1, 2))]
        reqs.append({'id': r + 1, 'pre_blocked': rng.random() < 0.06, 'bw': bw, 'sp': spacing, 'br': bit_rate,
                     'N': N, 'M': M, 'pth': pth, 'rpth': rpth})
        if reqs[-1]['pre_blocked']:
            reqs[-1]['pre_reason'] = rng.choice(PRE_REASONS)
    return {'policy': 'last_fit' if rng.random() < 0.12 else 'first_fit', 'gb': gb, 'oms': oms, 'requests': reqs}


# ------------------------------------------------------------------ implementation driver
def cells_str(bitmap):
    return ''.join(CH[v.name] for v in bitmap)


def rle(s):
    out, i = [], 0
    while i < len(s):
        j = i
        while j < len(s) and s[j] == s[i]:
            j += 1
        out.append(f'{s[i]}{j - i}')
        i = j
    return '.'.join(out)


def snap(oms_list, ids):
    """full observable spectrum state (same text as Run/C14.v state_s)"""
    parts = []
    for o in oms_list:
        b = o.spectrum_bitmap
        parts.append(','.join([str(b.n_min), str(b.n_max), str(b.freq_index_min), str(b.freq_index_max),
                               rle(cells_str(b.bitmap)), str(o.nb_channels),
                               '[' + ','.join(str(ids[s]) for s in o.service_list) + ']']))
    return '/'.join(parts)


def raw(oms_list):
    return [(o.spectrum_bitmap.n_min, o.spectrum_bitmap.n_max, o.spectrum_bitmap.freq_index_min,
             o.spectrum_bitmap.freq_index_max, cells_str(o.spectrum_bitmap.bitmap),
             list(o.spectrum_bitmap.freq_index), o.nb_channels, list(o.service_list)) for o in oms_list]


def make_world(case):
    """real OMS objects (+ path element objects per request) for a case"""
    from gnpy.topology.spectrum_assignment import OMS, BitmapValue, nvalue_to_frequency
    if case.get('kind') == 'network':
        return make_network_world(case)
    val = {'u': BitmapValue.UNUSABLE, '0': BitmapValue.OCCUPIED, '1': BitmapValue.FREE}
    grid = 0.00625e12
    oms_list = []
    for k, o in enumerate(case['oms']):
        om = OMS(oms_id=k, el_id_list=[], el_list=[])
        om.update_spectrum(nvalue_to_frequency(o['n_min']), nvalue_to_frequency(o['n_max']),
                           guardband=case['gb'] * grid, grid=grid,
                           existing_spectrum=[val[c] for c in o['cells']])
        oms_list.append(om)
    paths = [([NS(oms_id=i) for i in r['pth']], [NS(oms_id=i) for i in r['rpth']]) for r in case['requests']]
    return oms_list, paths


# ---- network level: real designed network, real build_oms_list, real path elements
_EQ = None


# every reason for which a request can reach spectrum assignment already blocked (gnpy.topology.request BLOCKING_*):
# some leave the request without a path, others (no feasible mode) with a path and a valid bandwidth
PRE_REASONS = ['NO_PATH', 'NO_PATH_WITH_CONSTRAINT', 'NO_FEASIBLE_BAUDRATE_WITH_SPACING', 'NO_COMPUTED_SNR',
               'NO_FEASIBLE_MODE', 'MODE_NOT_FEASIBLE', 'NO_SPECTRUM', 'NOT_ENOUGH_RESERVED_SPECTRUM']


def equipment():
    global _EQ
    if _EQ is None:
        import logging
        from pathlib import Path
        import gnpy
        from gnpy.tools.json_io import load_equipment
        logging.disable(logging.CRITICAL)
        _EQ = load_equipment(Path(gnpy.__file__).parent / 'example-data' / 'eqpt_config.json')
    return _EQ


def rand_topo(rng, n_roadm, extra_edges, ila_prob=0.4, maxlen=120):
    names = [chr(65 + i) for i in range(n_roadm)]
    edges = set()
    order = names[:]
    rng.shuffle(order)
    for i in range(1, len(order)):
        edges.add(tuple(sorted((order[i], rng.choice(order[:i])))))
    tries = 0
    while len(edges) < n_roadm - 1 + extra_edges and tries < 100:
        a, b = rng.sample(names, 2)
        edges.add(tuple(sorted((a, b))))
        tries += 1
    els, cx = [], []
    for x in names:
        els += [{'uid': f'trx {x}', 'type': 'Transceiver'}, {'uid': f'roadm {x}', 'type': 'Roadm'}]
        cx += [(f'trx {x}', f'roadm {x}'), (f'roadm {x}', f'trx {x}')]
    for (a, b) in sorted(edges):
        for (s_, t_) in ((a, b), (b, a)):
            nsp = 1 + (rng.random() < ila_prob) + (rng.random() < ila_prob / 2)
            prev = f'roadm {s_}'
            for k in range(nsp):
                fu = f'fiber {s_}{t_}_{k}'
                els.append({'uid': fu, 'type': 'Fiber', 'type_variety': 'SSMF',
                            'params': {'length': round(rng.uniform(20, maxlen), 3), 'length_units': 'km',
                                       'loss_coef': 0.2, 'con_in': None, 'con_out': None}})
                cx.append((prev, fu))
                prev = fu
            cx.append((prev, f'roadm {t_}'))
    return {'elements': els, 'connections': [{'from_node': a, 'to_node': b} for a, b in cx]}, names


def gen_network_case(rng):
    import networkx as nx
    n = rng.randint(3, 6)
    topo, names = rand_topo(rng, n, rng.randint(0, 3))
    case = {'kind': 'network', 'policy': 'first_fit', 'gb': 4, 'topology': topo, 'requests': []}
    oms_list, _, net = make_network_world(case, want_net=True)
    by_uid = {nd.uid: nd for nd in net.nodes()}
    for r in range(rng.randint(4, 40)):
        a, b = rng.sample(names, 2)
        cands = list(nx.shortest_simple_paths(net, by_uid[f'trx {a}'], by_uid[f'trx {b}']))[:4] \
            if n <= 5 else [nx.shortest_path(net, by_uid[f'trx {a}'], by_uid[f'trx {b}'])]
        pth = rng.choice(cands)
        spacing = rng.choice([37.5e9, 50e9, 50e9, 62.5e9, 75e9, 100e9, 150e9])
        bit_rate = rng.choice([100e9, 200e9, 400e9])
        nb = rng.choice([1, 2, 4, 8, 16, 30])
        pcm = ceil(spacing / 12.5e9)
        nslots = rng.choice([1, 1, 1, 2, 3])
        N, M = [], []
        for _ in range(nslots):
            mm = rng.choice([None, None, pcm * rng.choice([1, 2, 4, 8])])
            half = mm if mm is not None else pcm
            nn = rng.choice([None, None, rng.randint(-284 + half, 476 - half + 1), rng.randint(-300, 500)])
            N.append(nn)
            M.append(mm)
        case['requests'].append({'id': r + 1, 'pre_blocked': rng.random() < 0.05, 'bw': bit_rate * nb, 'sp': spacing,
                                 'br': bit_rate, 'N': N, 'M': M, 'path_uids': [e.uid for e in pth],
                                 'bidir': rng.random() < 0.7, 'pth': [], 'rpth': []})
        if case['requests'][-1]['pre_blocked']:
            case['requests'][-1]['pre_reason'] = rng.choice(PRE_REASONS)
    return case


def make_network_world(case, want_net=False):
    import copy as _copy
    from gnpy.tools.json_io import network_from_json
    from gnpy.tools.worker_utils import designed_network
    from gnpy.topology.spectrum_assignment import build_oms_list
    from gnpy.topology.request import find_reversed_path
    from gnpy.core.elements import Roadm, Transceiver
    eq = equipment()
    net = network_from_json(_copy.deepcopy(case['topology']), eq)
    net, _, _ = designed_network(eq, net)
    oms_list = build_oms_list(net, eq)
    by_uid = {nd.uid: nd for nd in net.nodes()}
    paths = []
    for r in case['requests']:
        pth = [by_uid[u] for u in r['path_uids']]
        rpth = find_reversed_path(pth) if r['bidir'] else []
        # independent derivation of the OMS ids of path + reverse path (from the OMS element lists, not elem.oms_id)
        ids = []
        for el in pth + rpth:
            if not isinstance(el, (Roadm, Transceiver)):
                own = [o.oms_id for o in oms_list if el.uid in o.el_id_list[1:-1]]
                r.setdefault('_own_errors', []).extend([] if len(own) == 1 else [f'{el.uid} in OMS {own}'])
                ids += own[:1]
        r['pth'], r['rpth'] = ids, []
        paths.append((pth, rpth))
    return (oms_list, paths, net) if want_net else (oms_list, paths)


def drive(case):
    """run the history on the real code; returns (initial observed OMS headers, per-step records)"""
    import gnpy.topology.spectrum_assignment as sa
    from gnpy.topology.spectrum_assignment import pth_assign_spectrum
    oms_list, paths = make_world(case)
    init = raw(oms_list)
    ids = {f"r{r['id']}": r['id'] for r in case['requests']}
    captured = []
    orig = sa.build_path_oms_id_list

    def wrapped(pth):
        res = orig(pth)
        captured.append(list(res))
        return res
    sa.build_path_oms_id_list = wrapped
    steps = []
    try:
        for r, (pth, rpth) in zip(case['requests'], paths):
            rq = NS(request_id=f"r{r['id']}", path_bandwidth=r['bw'], spacing=r['sp'], bit_rate=r['br'],
                    N=list(r['N']), M=list(r['M']))
            if r['pre_blocked']:
                # blocked upstream for any of gnpy's reasons; the path (and a valid bandwidth) may be there all the same
                rq.blocking_reason = r.get('pre_reason', 'NO_PATH')
            before = raw(oms_list)
            captured.clear()
            rec = {'rq': r, 'before': before}
            try:
                pth_assign_spectrum([pth], [rq], oms_list, [rpth], policy=case['policy'])
            except Exception as e:  # every exception out of the assignment is an observation
                rec['out'] = f'E:{type(e).__name__}'
                rec['exc'] = f'{type(e).__name__}: {e}'
                rec['path_oms'] = captured[0] if captured else sorted(set(r['pth'] + r['rpth']))
                rec['after'] = raw(oms_list)
                steps.append(rec)
                break
            rec['path_oms'] = captured[0] if captured else sorted(set(r['pth'] + r['rpth']))
            rec['after'] = raw(oms_list)
            if r['pre_blocked']:
                rec['out'] = 'S'
                rec['ok_reset'] = rq.N is None and rq.M is None
            elif rq.N is None:
                rec['out'] = f'B:{rq.blocking_reason}'
            else:
                rec['out'] = 'A[' + ','.join(map(str, rq.N)) + '][' + ','.join(map(str, rq.M)) + ']'
                rec['N'], rec['M'] = list(rq.N), list(rq.M)
            rec['state'] = snap(oms_list, ids)
            steps.append(rec)
    finally:
        sa.build_path_oms_id_list = orig
    # the same history given to pth_assign_spectrum in ONE call (as planning does) must end exactly like the
    # request-by-request run: same outcome per request, same final spectrum state
    if steps and len(steps) == len(case['requests']) and not steps[-1]['out'].startswith('E:'):
        oms2, paths2 = make_world(case)
        rqs2 = []
        for r in case['requests']:
            rq = NS(request_id=f"r{r['id']}", path_bandwidth=r['bw'], spacing=r['sp'], bit_rate=r['br'],
                    N=list(r['N']), M=list(r['M']))
            if r['pre_blocked']:
                rq.blocking_reason = r.get('pre_reason', 'NO_PATH')
            rqs2.append(rq)
        try:
            pth_assign_spectrum([p for p, _ in paths2], rqs2, oms2, [rp for _, rp in paths2], policy=case['policy'])
            outs = []
            for r, rq in zip(case['requests'], rqs2):
                if r['pre_blocked']:
                    outs.append('S')
                elif rq.N is None:
                    outs.append(f'B:{rq.blocking_reason}')
                else:
                    outs.append('A[' + ','.join(map(str, rq.N)) + '][' + ','.join(map(str, rq.M)) + ']')
            diff = [f"request {r['id']}: one call gives {o2}, request by request {st['out']}"
                    for r, o2, st in zip(case['requests'], outs, steps) if o2 != st['out']]
            if not diff and raw(oms2) != steps[-1]['after']:
                diff = ['final spectrum state differs']
        except Exception as e:
            diff = [f'one call raises {type(e).__name__}: {e}']
        if diff:
            steps[-1]['one_call_diff'] = diff[:3]
    return init, steps


# ------------------------------------------------------------------ property oracle on observations
def match_fixed(slots, res):
    """is `res` (list of (n,m)) an order-preserving selection of the request's slots that honours every
    user-fixed value and contains every slot whose M the user fixed?"""
    ns = len(slots)

    def rec(i, j):
        if j == len(res):
            return all(s[1] is None for s in slots[i:])
        if i == ns:
            return False
        (un, um), (n, m) = slots[i], res[j]
        ok = (un is None or un == n) and (um is None or um == m)
        if ok and rec(i + 1, j + 1):
            return True
        return um is None and rec(i + 1, j)
    return rec(0, 0)


def oracle(case, init, steps):
    """returns list of (key, description) property failures on the implementation's own observations"""
    fails = []
    for k, st in enumerate(steps):
        r, before, after, out = st['rq'], st['before'], st['after'], st['out']
        if out.startswith('E:'):
            fails.append(('exception', f"request {r['id']}: {st['exc']} (neither used-as-given nor blocked)"))
            continue
        path = sorted(set(r['pth'] + r['rpth']))
        for d in st.get('one_call_diff', []):
            fails.append(('one_call_differs', d))
        for err in r.get('_own_errors', []):
            fails.append(('element_oms_membership', f"request {r['id']}: line element {err}"))
        if sorted(st['path_oms']) != path or len(set(st['path_oms'])) != len(st['path_oms']):
            fails.append(('path_oms', f"request {r['id']}: OMS set {st['path_oms']} != OMS of path+reverse {path}"))
        if out == 'S' or out.startswith('B:'):
            if before != after:
                fails.append(('blocked_changes_state', f"request {r['id']} {out}: spectrum state changed"))
            continue
        res = list(zip(st['N'], st['M']))
        nb_wl = ceil(r['bw'] / r['br'])
        pcm = ceil(r['sp'] / 12.5e9)
        required = pcm * nb_wl
        if sum(m for _, m in res) < required:
            fails.append(('not_enough_slots', f"request {r['id']}: sum M {sum(m for _, m in res)} < {required}"))
        if not match_fixed(list(zip(r['N'], r['M'])), res):
            fails.append(('fixed_not_honoured', f"request {r['id']}: N={r['N']} M={r['M']} -> {res}"))
        ranges = [(n - m, n + m - 1) for n, m in res]
        for a in range(len(ranges)):
            if ranges[a][1] < ranges[a][0]:
                fails.append(('empty_range', f"request {r['id']}: {res[a]}"))
            for b in range(a + 1, len(ranges)):
                if not (ranges[a][1] < ranges[b][0] or ranges[b][1] < ranges[a][0]):
                    fails.append(('overlap_within_request', f"request {r['id']}: {res}"))
        for i, (b4, af) in enumerate(zip(before, after)):
            n_min, n_max, fi_min, fi_max, cb, idx, nch, svc = b4
            ca = af[4]
            if i in path:
                exp = list(cb)
                for (lo, hi) in ranges:
                    if lo < fi_min or hi > fi_max:
                        fails.append(('outside_band', f"request {r['id']}: range {lo}..{hi} outside {fi_min}..{fi_max} on OMS {i}"))
                    for n in range(lo, hi + 1):
                        j = n - n_min
                        if j < 0 or j >= len(cb):
                            fails.append(('outside_map', f"request {r['id']}: slot {n} outside OMS {i}"))
                            continue
                        if cb[j] != '1':
                            fails.append(('double_booking', f"request {r['id']}: slot {n} on OMS {i} was '{cb[j]}'"))
                        exp[j] = '0'
                if ''.join(exp) != ca:
                    fails.append(('occupancy_not_union', f"request {r['id']}: OMS {i} occupancy != before + accepted ranges"))
                if af[6] != nch + nb_wl or af[7] != svc + [r.get('sid', f"r{r['id']}")]:
                    fails.append(('service_record', f"request {r['id']}: OMS {i} service bookkeeping"))
            else:
                if b4 != af:
                    fails.append(('foreign_oms_changed', f"request {r['id']}: OMS {i} not on the path changed"))
        # first fit: a single free-N slot must sit at the lowest feasible centre
        if case['policy'] == 'first_fit' and len(r['N']) == 1 and r['N'][0] is None and len(res) == 1:
            n, m = res[0]
            lo_best = None
            b0 = before[path[0]]
            for start in range(b0[2], b0[3] - 2 * m + 2):
                if all(before[i][4][start - before[i][0]: start - before[i][0] + 2 * m] == '1' * (2 * m) for i in path):
                    lo_best = start
                    break
            if lo_best is None or lo_best + m != n:
                fails.append(('not_first_fit', f"request {r['id']}: N={n} but lowest feasible centre is "
                              f"{None if lo_best is None else lo_best + m}"))
    return fails


# ------------------------------------------------------------------ model side
def shrink(case, key):
    """greedy minimisation of a failing history: drop requests while the oracle still reports `key`"""
    field = 'json_requests' if case.get('kind') == 'planning' else 'requests'

    def fails(c):
        try:
            if c.get('kind') == 'planning':
                init, steps, _ = drive_planning(c)
                if init is None:
                    return False
            else:
                init, steps = drive(c)
            return any(k == key for k, _ in oracle(c, init, steps))
        except Exception:
            return False
    cur = {k: v for k, v in case.items() if not k.startswith('_')}
    changed = True
    while changed and len(cur[field]) > 1:
        changed = False
        for i in range(len(cur[field]) - 1, -1, -1):
            cand = dict(cur, **{field: cur[field][:i] + cur[field][i + 1:]})
            if cand[field] and fails(cand):
                cur, changed = cand, True
    return cur


# ---- planning level: the whole gnpy pipeline (requests_from_json, path computation, propagation, spectrum
#      assignment) on a designed network; pth_assign_spectrum is wrapped so that its own loop is observed request
#      by request (the wrapper calls the original once per request in the original order - same semantics)
def gen_planning_case(rng):
    n = rng.randint(3, 5)
    topo, names = rand_topo(rng, n, rng.randint(0, 2))
    reqs = []
    for i in range(rng.randint(3, 14)):
        a, b = rng.sample(names, 2)
        mode = rng.choice(['mode 1', 'mode 1', 'mode 2', 'mode 4', None])
        # validity-aware: spacing at or above the mode's min_spacing (mode 1: 37.5 GHz, modes 2/4: 75 GHz); a small
        # malformed share keeps the refusal path exercised
        lo = {'mode 1': 37.5e9, 'mode 2': 75e9, 'mode 4': 75e9, None: 37.5e9}[mode]
        spacing = rng.choice([sp for sp in (37.5e9, 50e9, 50e9, 62.5e9, 75e9, 100e9) if sp >= lo or rng.random() < 0.02])
        pcm = ceil(spacing / 12.5e9)
        nslots = rng.choice([1, 1, 1, 2, 3])
        slots = []
        for _ in range(nslots):
            mm = rng.choice([None, None, pcm * rng.choice([1, 2, 4, 8, 16])])
            half = mm if mm is not None else pcm
            nn = rng.choice([None, None, rng.randint(-284 + half, 476 - half + 1), rng.randint(-300, 500)])
            slots.append({'N': nn, 'M': mm})
        bit_rate = {'mode 1': 100e9, 'mode 2': 400e9, 'mode 4': 200e9, None: 100e9}[mode]
        bw = rng.choice([100e9, 200e9, 400e9, 800e9, 1600e9, 3000e9])
        if mode is not None and all(sl['M'] is not None for sl in slots) and rng.random() < 0.9:
            have = sum(sl['M'] // pcm for sl in slots)
            bw = min(bw, max(1, have) * bit_rate)
        reqs.append({'request-id': str(i + 1), 'source': f'trx {a}', 'destination': f'trx {b}',
                     'src-tp-id': f'trx {a}', 'dst-tp-id': f'trx {b}', 'bidirectional': rng.random() < 0.5,
                     'path-constraints': {'te-bandwidth': {
                         'technology': 'flexi-grid', 'trx_type': 'Voyager', 'trx_mode': mode,
                         'effective-freq-slot': slots, 'spacing': spacing,
                         'max-nb-of-channel': None, 'output-power': None,
                         'path_bandwidth': bw}}})
    # some libraries ask for large system margins: modes stop being feasible on the longer routes, so requests reach
    # the spectrum assignment blocked (MODE_NOT_FEASIBLE / NO_FEASIBLE_MODE) yet with a computed path
    margins = rng.choice([None, None, None, round(rng.uniform(2, 16), 1)])
    return {'kind': 'planning', 'policy': 'first_fit', 'gb': 4, 'topology': topo, 'json_requests': reqs, 'requests': [],
            'sys_margins': margins}


def drive_planning(case):
    """returns (init, steps) like drive(); case['requests'] is filled with what pth_assign_spectrum was given"""
    import copy as _copy
    import gnpy.tools.worker_utils as wu
    import gnpy.topology.spectrum_assignment as sa
    from gnpy.tools.json_io import network_from_json
    from gnpy.tools.worker_utils import designed_network, planning
    from gnpy.core.elements import Roadm, Transceiver
    from gnpy.core.exceptions import ServiceError, DisjunctionError
    eq = equipment()
    if case.get('sys_margins') is not None:
        eq = _copy.deepcopy(eq)
        eq['SI']['default'].sys_margins = case['sys_margins']
    net = network_from_json(_copy.deepcopy(case['topology']), eq)
    net, _, _ = designed_network(eq, net)
    steps, box = [], {}
    orig = wu.pth_assign_spectrum
    orig_bp = sa.build_path_oms_id_list

    def wrapped(pths, rqs, oms_list, rpths, policy='first_fit'):
        box['init'] = raw(oms_list)
        box['ids'] = {rq.request_id: k + 1 for k, rq in enumerate(rqs)}
        for k, (pth, rq, rpth) in enumerate(zip(pths, rqs, rpths)):
            pre = hasattr(rq, 'blocking_reason')
            own, errs = [], []
            for el in list(pth) + list(rpth):
                if not isinstance(el, (Roadm, Transceiver)):
                    o = [om.oms_id for om in oms_list if el.uid in om.el_id_list[1:-1]]
                    if len(o) != 1:
                        errs.append(f'{el.uid} in OMS {o}')
                    own += o[:1]
            r = {'id': k + 1, 'sid': rq.request_id, 'pre_blocked': pre,
                 'bw': rq.path_bandwidth if not pre else 0, 'sp': rq.spacing if not pre else 0,
                 'br': rq.bit_rate if not pre else 0,
                 'N': list(rq.N) if rq.N is not None else [None], 'M': list(rq.M) if rq.M is not None else [None],
                 'pth': own, 'rpth': [], '_own_errors': errs}
            if not pre and (r['br'] is None or r['bw'] is None):
                r['pre_blocked'], r['bw'], r['sp'], r['br'] = True, 0, 0, 0     # never reached for unblocked requests
            before = raw(oms_list)
            captured = []

            def bp(p, captured=captured):
                res = orig_bp(p)
                captured.append(list(res))
                return res
            sa.build_path_oms_id_list = bp
            rec = {'rq': r, 'before': before}
            try:
                orig([pth], [rq], oms_list, [rpth], policy=policy)
            except Exception as e:
                rec.update(out=f'E:{type(e).__name__}', exc=f'{type(e).__name__}: {e}',
                           path_oms=captured[0] if captured else sorted(set(own)), after=raw(oms_list))
                steps.append(rec)
                raise
            finally:
                sa.build_path_oms_id_list = orig_bp
            rec['path_oms'] = captured[0] if captured else sorted(set(own))
            rec['after'] = raw(oms_list)
            if pre:
                rec['out'] = 'S'
            elif rq.N is None:
                rec['out'] = f'B:{rq.blocking_reason}'
            else:
                rec['out'] = 'A[' + ','.join(map(str, rq.N)) + '][' + ','.join(map(str, rq.M)) + ']'
                rec['N'], rec['M'] = list(rq.N), list(rq.M)
            rec['state'] = '/'.join(
                ','.join([str(o.spectrum_bitmap.n_min), str(o.spectrum_bitmap.n_max), str(o.spectrum_bitmap.freq_index_min),
                          str(o.spectrum_bitmap.freq_index_max), rle(cells_str(o.spectrum_bitmap.bitmap)),
                          str(o.nb_channels), '[' + ','.join(str(box['ids'][s_]) for s_ in o.service_list) + ']'])
                for o in oms_list)
            steps.append(rec)
    wu.pth_assign_spectrum = wrapped
    try:
        planning(net, eq, {'path-request': _copy.deepcopy(case['json_requests'])})
    except (ServiceError, DisjunctionError) as e:
        box['refused'] = f'{type(e).__name__}'
    except Exception:
        # an exception out of the spectrum assignment itself is an observation (recorded as the last step, judged by
        # the oracle); anything else is not C14's and is left to the driver
        if not (steps and steps[-1]['out'].startswith('E:')):
            raise
    finally:
        wu.pth_assign_spectrum = orig
        sa.build_path_oms_id_list = orig_bp
    case['requests'] = [s_['rq'] for s_ in steps]
    return box.get('init'), steps, box.get('refused')


def coq_term(case, init, steps):
    obs = []
    for (n_min, n_max, fi_min, fi_max, cells, idx, nch, svc) in init:
        obs.append(f'ob {zlit(n_min)} {zlit(n_max)} {zlit(fi_min)} {zlit(fi_max)} {zlit(case["gb"])} {strlit(cells)}')
    rqs = []
    for st in steps:
        r = st['rq']
        sl = listlit([f'({ozlit(n)}, {ozlit(m)})' for n, m in zip(r['N'], r['M'])])
        rqs.append(f'rq {r["id"]} {"true" if r["pre_blocked"] else "false"} {zlit(r["bw"])} {zlit(r["sp"])} '
                   f'{zlit(r["br"])} {sl} {listlit([zlit(i) for i in st["path_oms"]])}')
    pol = 'LastFit' if case['policy'] == 'last_fit' else 'FirstFit'
    return f'run_case {pol} {listlit(obs)} {listlit(rqs)}'


EXC_MAP = {'SpectrumError': 'SpectrumError', 'ValueError': 'ValueError', 'IndexError': 'IndexError'}


def impl_line(steps):
    parts = []
    for st in steps:
        if st['out'].startswith('E:'):
            parts.append(st['out'])
        else:
            parts.append(st['out'] + '#' + st['state'])
    return ';'.join(parts)


def canon_model(line):
    # model errors are 'E:Type:detail' -> compare on the exception type only
    parts = line.split(';')
    out = []
    for p in parts:
        if p.startswith('E:'):
            out.append('E:' + p[2:].split(':')[0])
        else:
            out.append(p)
    return ';'.join(out)


def well_formed_init(init):
    """model's standing assumption on the initial state (what build_oms_list produces, C15): checked, not assumed"""
    return all(idx == list(range(n_min, n_max + 1)) and len(cells) == len(idx)
               for (n_min, n_max, _, _, cells, idx, _, _) in init)


def run(ctx):
    rng = ctx.rng
    # second tie: re-translate the listed primitives of spectrum_assignment.py / request.py from /repo's source; the
    # equivalence lemmas of Proofs/SpectrumGen.v are then re-checked by check_props against what the code says now
    from . import pygen
    gen_ok, gen_msg = pygen.regenerate()
    ctx.proof = common.check_props('C14')
    if not gen_ok:
        ctx.proof['ok'] = False
        ctx.proof['log'] = 'harness/pygen.py: ' + gen_msg + '\n' + ctx.proof.get('log', '')
        ctx.proof['failed_file'] = 'theories/Gen/SpectrumGen.v (translation of /repo source failed)'
    ctx.rule = ('random request histories (1-14 requests, 1-6 OMS, random usable-band layouts and pre-occupied runs, '
                'fixed/free N and M, 1-4 slots, in/out-of-grid N, first/last fit, uni/bidirectional OMS sets) driven '
                'through the real pth_assign_spectrum and the Gallina model; a case is non-trivial when at least one '
                'request is accepted and at least one is blocked or multi-slot; distinct by content hash')
    cases = []
    for f in sorted(glob.glob(os.path.join(common.VERIF, 'corpus', 'C14', '*.json'))):
        c = json.load(open(f))
        c['_corpus'] = os.path.basename(f)
        cases.append(c)
    if ctx.replay:
        rec = json.load(open(ctx.replay))
        cases = [rec['case']]
    else:
        n = ctx.scale(400, 6000)
        nbig = ctx.scale(12, 150)
        cases += [gen_case(rng) for _ in range(n)] + [gen_case(rng, big=True) for _ in range(nbig)]
        cases += [gen_network_case(rng) for _ in range(ctx.scale(10, 120))]
        cases += [gen_planning_case(rng) for _ in range(ctx.scale(8, 100))]
    terms, meta = [], []
    for c in cases:
        if c.get('kind') == 'planning':
            init, steps, refused = drive_planning(c)
            if init is None:
                ctx.count('planning_refused_at_load')
                continue
        else:
            init, steps = drive(c)
        if not well_formed_init(init):
            ctx.count('skipped_illformed_init')
            continue
        outs = [s['out'][0] for s in steps]
        nontriv = 'A' in outs and ('B' in outs or any(len(s['rq']['N']) > 1 for s in steps))
        ctx.case({k: v for k, v in c.items() if not k.startswith('_')}, nontriv)
        for o in outs:
            ctx.count('outcome_' + {'A': 'accepted', 'B': 'blocked', 'S': 'skipped', 'E': 'exception'}[o])
        for s in steps:
            if s['out'].startswith('B:'):
                ctx.count('reason_' + s['out'][2:])
        ctx.count('requests', len(steps))
        ctx.count({'network': 'cases_network', 'planning': 'cases_planning'}.get(c.get('kind'), 'cases_synthetic'))
        ctx.count('oms_total', len(init))
        seen_keys = set()
        for key, desc in oracle(c, init, steps):
            if key in seen_keys:
                continue
            seen_keys.add(key)
            small = shrink(c, key) if len(ctx.violations) < 5 else c
            ctx.violation(key, desc, {k: v for k, v in small.items() if not k.startswith('_')},
                          original_requests=len(c['requests']))
        terms.append(coq_term(c, init, steps))
        meta.append((c, impl_line(steps)))
    lines = common.coq_eval('C14', 'Prelude Model.Spectrum Run.C14', terms, per_file=60)
    for (c, impl), model in zip(meta, lines):
        if canon_model(model) != impl:
            # locate first differing step
            a, b = impl.split(';'), canon_model(model).split(';')
            k = next((i for i in range(min(len(a), len(b))) if a[i] != b[i]), min(len(a), len(b)))
            ctx.corr_break('corr:Spectrum.pth_assign_one',
                           f'first difference at request #{k + 1}',
                           {kk: v for kk, v in c.items() if not kk.startswith('_')},
                           impl=a[k] if k < len(a) else None, model=b[k] if k < len(b) else None)
    ctx.assumptions += [
        'translator tie: harness/pygen.py (fail-closed Python-ast -> Gallina for mvalue_to_slots, slots_to_m, bitmap_sum, '
        'select_candidate, OMS.assign_spectrum, compute_spectrum_slot_vs_bandwidth, the if/elif chain of the loop body '
        'of compute_n_m and the blocking decisions of pth_assign_spectrum; the list bookkeeping, ordering and commit '
        'loops of those two functions are matched statement by statement against a template) is trusted; int(a / b) / '
        'ceil(a / b) on integers are read as exact truncation / ceiling (true below 2^53); isinstance type guards are '
        'dropped',
        'fake path elements (objects with only an oms_id) stand for line elements; the OMS set of a real path is '
        'tied separately (oracle key path_oms and the planning-level run)',
        'initial OMS states are those built by Bitmap(...) from (n_min, n_max, guardband, cells); the model is '
        'started from the observed n_min/n_max/freq_index_min/freq_index_max',
    ]
    return common.finish(ctx)
