"""Translator tie for C05 (second tie between /repo's source and the models Model/Fiber.v, Model/Raman.v).

On every run the code fragments listed below are re-read from /repo (common.REPO, so VERIF_REPO works), matched against
templates and translated into coq/theories/Gen/FiberGen.v (Num-polymorphic Gallina: equality of TERMS, not of float
results).  Proofs/FiberGen.v proves each generated definition equal to the hand-written model; Props/C05.v has the
C05_source_* theorems.  Fail closed: a statement or expression outside the subset raises Unsupported.

What is TEMPLATE-MATCHED (every statement must be the expected one; plumbing, not translated) and what is TRANSLATED (holes):
  Fiber.propagate / RamanFiber.propagate   template: the order  apply_attenuation_db(in) ; SRS ; NLI (; ASE) ; CD += span CD at the
        channel frequencies ; pmd = H ; latency += params.latency ; apply_attenuation_lin(loss_profile[..., -1]) ;
        apply_attenuation_db(out).   translated: H_att_in, H_pmd, H_att_out -> g_(raman)fiber_att_in / _pmd_update / _att_out
        and the dB budget composition g_(raman)fiber_power_db.
  Fiber.pmd                                translated: the return expression -> g_fiber_pmd
  Fiber.loss                               translated: the return expression (incl. sum(lin2db(1 / self.lumped_losses))) -> g_fiber_loss
  Fiber.chromatic_dispersion               template around; translated: beta, dispersion, return -> g_chromatic_dispersion
  Fiber.beta2                              template around (size test, slope test); translated: the two dispersion laws and beta2
                                           -> g_dispersion_noslope, g_dispersion_slope, g_beta2
  Fiber.beta3                              template around; translated: the slope formula -> g_beta3_slope
  Fiber.__init__                           template: the lumped-loss block; translated: loss -> linear factor, km -> m
                                           -> g_lumped_lin, g_lumped_pos_m
  FiberParams.__init__                     the assignment of self._latency is located; translated: its right-hand side -> g_latency
  Roadm.propagate                          template PROPAGATE of harness/pygen_c06.py; translated here: the arguments of the two sqrt(...)
                                           (`pmd = sqrt(H_pmd)`, `pdl = sqrt(H_pdl)`) -> g_roadm_pmd_update, g_roadm_pdl_update
  Roadm.set_roadm_paths                    template SETPATHS of harness/pygen_c06.py (`if impairment_id is None:` first profile of the
                                           path type, else the profile of that id or NetworkTopologyError) -> g_roadm_profile
  RamanSolver._create_lumped_losses        template only (unique + multiply.at accumulate every value of a position)
  RamanSolver.calculate_unidirectional_stimulated_raman_scattering, 'numerical' branch
                                           template: the loop and its indices [i - 1]; translated: the update -> g_euler_wave
  RamanSolver.iterative_algorithm          template: the two sweeps with their indices ([i - 1] forward; [-i], [-i - 1], dz[-i],
                                           lumped_losses[-i] backward); translated: dpdz and the two updates -> g_iter_dpdz, g_iter_fwd, g_iter_bwd
Expressions: names / attribute chains / exact sub-expressions listed in a per-fragment substitution table (vector terms of the
numpy code become the per-wave / per-channel scalar of the model), integer and decimal constants, + - * / unary -, `x ** 2`,
`x ** 3`, sqrt, lin2db, sum(<elementwise expression of one vector>).
"""
import ast
import os
from fractions import Fraction

from . import common
from .pygen import Tr, Unsupported, unify, match_template, find, strip_doc, dotted
# the ROADM templates are those of C06's translator (not duplicated here)
from .pygen_c06 import PROPAGATE as ROADM_PROPAGATE, SETPATHS as ROADM_SETPATHS

DST = os.path.join(common.COQ, 'theories', 'Gen', 'FiberGen.v')


class NumTr(Tr):
    """expressions -> terms of the Num record (num_scope).  subst: exact source sub-expression (ast.unparse) -> Gallina term;
    vectors: source vector expression -> (Gallina list, bound element name) for sum(...) of an elementwise expression"""

    def __init__(self, subst, vectors=None):
        super().__init__(set(), {}, attr={}, names={}, monadic={})
        self.subst = subst
        self.vectors = vectors or {}
        self.used = set()

    def const(self, v):
        if isinstance(v, bool) or not isinstance(v, (int, float)):
            raise Unsupported(f'constant {v!r}')
        if isinstance(v, int) or v == int(v):
            return f'#{int(v)}' if v >= 0 else f'#({int(v)})'
        fr = Fraction(repr(v))                     # the decimal literal as written in the source
        e = 0
        while fr.denominator != 1:
            fr *= 10
            e -= 1
            if e < -30:
                raise Unsupported(f'constant {v!r}')
        return f'(dec {fr.numerator} ({e}))'

    def e(self, n):
        key = ast.unparse(n)
        if key in self.subst:
            self.used.add(key)
            return self.subst[key]
        if isinstance(n, ast.Constant):
            return self.const(n.value)
        if isinstance(n, ast.UnaryOp) and isinstance(n.op, ast.USub):
            return f'(- {self.e(n.operand)})'
        if isinstance(n, ast.BinOp):
            if isinstance(n.op, ast.Pow):
                if isinstance(n.right, ast.Constant) and n.right.value == 2:
                    return f'(nsq {self.e(n.left)})'
                if isinstance(n.right, ast.Constant) and n.right.value == 3:
                    x = self.e(n.left)
                    return f'(({x} * {x}) * {x})'
                raise Unsupported('power other than ** 2 / ** 3')
            ops = {ast.Add: '+', ast.Sub: '-', ast.Mult: '*', ast.Div: '/'}
            if type(n.op) in ops:
                return f'({self.e(n.left)} {ops[type(n.op)]} {self.e(n.right)})'
            raise Unsupported(f'operator {type(n.op).__name__}')
        if isinstance(n, ast.Call) and not n.keywords:
            f = dotted(n.func)
            if f == 'sqrt' and len(n.args) == 1:
                return f'(nsqrt {self.e(n.args[0])})'
            if f == 'lin2db' and len(n.args) == 1:
                return f'(lin2db {self.e(n.args[0])})'
            if f == 'sum' and len(n.args) == 1:
                vecs = [k for k in self.vectors if any(ast.unparse(x) == k for x in ast.walk(n.args[0]))]
                if len(vecs) != 1:
                    raise Unsupported('sum of something that is not an elementwise expression of one known vector')
                lst, el = self.vectors[vecs[0]]
                inner = NumTr(dict(self.subst, **{vecs[0]: el}))
                body = inner.e(n.args[0])
                self.used |= inner.used - {vecs[0]}
                return f'(nsum (map (fun {el} => {body}) {lst}))'
            raise Unsupported(f'call of {f}')
        raise Unsupported('expression ' + key)


def fn_body(tree, qual):
    return strip_doc(find(tree, qual).body)


def stmt_index(stmts, pred, what):
    hits = [i for i, s in enumerate(stmts) if pred(s)]
    if len(hits) != 1:
        raise Unsupported(f'{what}: expected exactly one such statement, found {len(hits)}')
    return hits[0]


# ------------------------------------------------------------------ templates
PROPAGATE_FIBER = """
attenuation_in_db = H_att_in
spectral_info.apply_attenuation_db(attenuation_in_db)
stimulated_raman_scattering = RamanSolver.calculate_stimulated_raman_scattering(spectral_info, self)
nli = NliSolver.compute_nli(spectral_info, stimulated_raman_scattering, self)
spectral_info.add_nli(nli)
spectral_info.chromatic_dispersion += self.chromatic_dispersion(spectral_info.frequency)
spectral_info.pmd = H_pmd
spectral_info.latency += self.params.latency
attenuation_fiber = stimulated_raman_scattering.loss_profile[:, -1]
spectral_info.apply_attenuation_lin(attenuation_fiber)
attenuation_out_db = H_att_out
spectral_info.apply_attenuation_db(attenuation_out_db)
self.pch_out_dbm = spectral_info.pch_dbm
self.propagated_labels = spectral_info.label
"""

PROPAGATE_RAMAN = """
pin = spectral_info.ptot_dbm
attenuation_in_db = H_att_in
spectral_info.apply_attenuation_db(attenuation_in_db)
stimulated_raman_scattering = RamanSolver.calculate_stimulated_raman_scattering(spectral_info, self)
spontaneous_raman_scattering = RamanSolver.calculate_spontaneous_raman_scattering(spectral_info, stimulated_raman_scattering, self)
nli = NliSolver.compute_nli(spectral_info, stimulated_raman_scattering, self)
spectral_info.add_nli(nli)
ase = spontaneous_raman_scattering
spectral_info.add_ase(ase)
spectral_info.chromatic_dispersion += self.chromatic_dispersion(spectral_info.frequency)
spectral_info.pmd = H_pmd
spectral_info.latency += self.params.latency
attenuation_fiber = stimulated_raman_scattering.loss_profile[:spectral_info.number_of_channels, -1]
spectral_info.apply_attenuation_lin(attenuation_fiber)
attenuation_out_db = H_att_out
spectral_info.apply_attenuation_db(attenuation_out_db)
self.pch_out_dbm = spectral_info.pch_dbm
self.propagated_labels = spectral_info.label
pout = spectral_info.ptot_dbm
self.actual_raman_gain = self.loss + pout - pin
"""

CHROMATIC_DISPERSION = """
freq = self.params.ref_frequency if freq is None else freq
beta2 = self.beta2(freq)
beta3 = self.beta3(freq)
ref_f = self.params.ref_frequency
length = self.params.length
beta = H_beta
dispersion = H_dispersion
return H_ret
"""

BETA2 = """
frequency = asarray(self.params.ref_frequency if frequency is None else frequency)
if self.params.dispersion.size > 1:
    dispersion = self.interpolate_parameter_over_spectrum(self.params.dispersion, self.params.f_dispersion_ref, frequency, 'Chromatic Dispersion')
elif self.params.dispersion_slope is None:
    dispersion = H_noslope
else:
    wavelength = H_wavelength
    dispersion = H_slope
beta2 = H_beta2
return beta2
"""

BETA3 = """
frequency = asarray(self.params.ref_frequency if frequency is None else frequency)
if self.params.dispersion.size > 1:
    beta3 = polyfit(self.params.f_dispersion_ref - self.params.ref_frequency, self.beta2(self.params.f_dispersion_ref), 2)[1] / (2 * pi)
    beta3 = full(frequency.size, beta3)
elif self.params.dispersion_slope is None:
    beta3 = zeros(frequency.size)
else:
    dispersion_slope = self.params.dispersion_slope
    beta2 = self.beta2(frequency)
    beta3 = H_beta3
return beta3
"""

FIBER_INIT_LUMPED = """
z_lumped_losses = array([lumped['position'] for lumped in self.params.lumped_losses])
lumped_losses_power = array([lumped['loss'] for lumped in self.params.lumped_losses])
if not ((z_lumped_losses > 0) * (z_lumped_losses < 0.001 * self.params.length)).all():
    raise NetworkTopologyError(H_msg)
self.lumped_losses = H_lin
self.z_lumped_losses = H_pos
self.ref_pch_in_dbm = None
"""

CREATE_LUMPED = """
lumped_losses = concatenate((lumped_losses, ones(z.size)))
z, inverse = unique(concatenate((z_lumped_losses, z)), return_inverse=True)
merged_losses = ones(z.size)
multiply.at(merged_losses, inverse, lumped_losses)
return z, merged_losses
"""

NUMERICAL = """
dz = z[1:] - z[:-1]
power = outer(power_in, ones(z.size))
for i in range(1, z.size):
    power[:, i] = H_update
"""

ITER_SWEEPS = """
for i in range(1, z.size):
    dpdz = H_dpdz_fwd
    next_power[:co_frequency.size, i] = H_fwd
for i in range(1, z.size):
    dpdz = H_dpdz_bwd
    next_power[co_frequency.size:, -i - 1] = H_bwd
"""


def generate(repo=None):
    repo = repo or common.REPO
    trees = {}

    def tree(path):
        if path not in trees:
            trees[path] = ast.parse(open(os.path.join(repo, path)).read())
        return trees[path]
    el, su, pa = 'gnpy/core/elements.py', 'gnpy/core/science_utils.py', 'gnpy/core/parameters.py'
    out = ['(* GENERATED on every run by harness/pygen_c05.py from the source files of /repo named below - do not edit. *)',
           'From Coq Require Import List ZArith.', 'From Verif Require Import Prelude Num Model.Raman.', 'Import ListNotations.', '']
    # ---- Roadm.set_roadm_paths (template of pygen_c06): which profile a crossing gets
    fn = find(tree(el), 'Roadm.set_roadm_paths')
    if [a.arg for a in fn.args.args] != ['self', 'from_degree', 'to_degree', 'path_type', 'impairment_id'] or \
            [ast.unparse(d) for d in fn.args.defaults] != ['None']:
        raise Unsupported('signature of Roadm.set_roadm_paths')
    body = strip_doc(fn.body)
    k = stmt_index(body, lambda s: isinstance(s, ast.Expr) and ast.unparse(s).startswith('self.roadm_paths.append('),
                   'Roadm.set_roadm_paths')
    match_template(ROADM_SETPATHS, body[:k + 1], 'Roadm.set_roadm_paths')
    out += [f'(* {el}: Roadm.set_roadm_paths matches the template SETPATHS of harness/pygen_c06.py: `if impairment_id is None:` the first',
            '   profile of the path type in library order (else the global impairment), `else:` the profile of that id or NetworkTopologyError *)',
            'Definition g_roadm_profile {A : Type} (profiles : list (Z * Z * A)) (global : A) (path_type : Z) (impairment_id : option Z) : res A :=',
            '  match impairment_id with',
            "  | None => fold_right (fun p acc => let '(_, t, a) := p in if Z.eqb t path_type then Ok a else acc) (Ok global) profiles",
            "  | Some i => fold_right (fun p acc => let '(j, _, a) := p in if Z.eqb j i then Ok a else acc)",
            '                         (Err "NetworkTopologyError:impairment-profile-id"%string) profiles',
            '  end.', '']
    out += ['Section FiberGen.', 'Context {N : Num}.', 'Local Open Scope num_scope.', 'Notation T := (NT N).', '']

    def define(comment, name, binders, body, rty='T'):
        out.append(f'(* {comment} *)')
        out.append(f'Definition {name} {binders} : {rty} :=\n  {body}.\n')

    def all_used(tr, what):
        missing = set(tr.subst) - tr.used
        if missing:
            raise Unsupported(f'{what}: the expression no longer mentions {sorted(missing)}')

    # ---- Fiber.propagate / RamanFiber.propagate
    for cls, tmpl, pre in (('Fiber', PROPAGATE_FIBER, 'g_fiber'), ('RamanFiber', PROPAGATE_RAMAN, 'g_ramanfiber')):
        b = match_template(tmpl, fn_body(tree(el), f'{cls}.propagate'), f'{cls}.propagate')
        tr = NumTr({'self.params.con_in': 'con_in', 'self.params.att_in': 'att_in'})
        define(f'{el}: {cls}.propagate, attenuation applied before the span [dB]', f'{pre}_att_in', '(con_in att_in : T)', tr.e(b['H_att_in']))
        all_used(tr, f'{cls}.propagate H_att_in')
        tr = NumTr({'spectral_info.pmd': 'pmd', 'self.pmd': 'span_pmd'})
        define(f'{el}: {cls}.propagate, PMD update of one channel', f'{pre}_pmd_update', '(pmd span_pmd : T)', tr.e(b['H_pmd']))
        all_used(tr, f'{cls}.propagate H_pmd')
        tr = NumTr({'self.params.con_out': 'con_out'})
        define(f'{el}: {cls}.propagate, attenuation applied after the span [dB]', f'{pre}_att_out', '(con_out : T)', tr.e(b['H_att_out']))
        all_used(tr, f'{cls}.propagate H_att_out')
        define(f'{el}: {cls}.propagate, the order of the three attenuations (template), in dB for one channel: in, span profile, out',
               f'{pre}_power_db', '(con_in att_in con_out span_att_db p : T)',
               f'((p - {pre}_att_in con_in att_in) - span_att_db) - {pre}_att_out con_out')
        define(f'{el}: {cls}.propagate, `chromatic_dispersion += self.chromatic_dispersion(frequency)` and `latency += params.latency` '
               '(template)', f'{pre}_cd_lat_update', '(cd lat span_cd span_lat : T)', '(cd + span_cd, lat + span_lat)', 'T * T')

    # ---- Roadm.propagate (template of pygen_c06): PMD / PDL of a crossing
    fn = find(tree(el), 'Roadm.propagate')
    if [a.arg for a in fn.args.args] != ['self', 'spectral_info', 'degree', 'from_degree']:
        raise Unsupported('signature of Roadm.propagate')
    b = match_template(ROADM_PROPAGATE, strip_doc(fn.body), 'Roadm.propagate')
    for hole, name, var, imp in (('H_pmd', 'g_roadm_pmd_update', 'spectral_info.pmd', 'pmd_impairment'),
                                 ('H_pdl', 'g_roadm_pdl_update', 'spectral_info.pdl', 'pdl_impairment')):
        tr = NumTr({var: 'x', imp: 'impairment'})
        define(f'{el}: Roadm.propagate, `{var} = sqrt({hole})` for one channel (impairment = the value of the configured profile)',
               name, '(x impairment : T)', f'nsqrt {tr.e(b[hole])}')
        all_used(tr, f'Roadm.propagate {hole}')

    # ---- Fiber.pmd, Fiber.loss
    ret = fn_body(tree(el), 'Fiber.pmd')
    if len(ret) != 1 or not isinstance(ret[0], ast.Return):
        raise Unsupported('Fiber.pmd is no longer a single return')
    tr = NumTr({'self.params.pmd_coef': 'pmd_coef', 'self.params.length': 'length'})
    define(f'{el}: Fiber.pmd', 'g_fiber_pmd', '(pmd_coef length : T)', tr.e(ret[0].value))
    all_used(tr, 'Fiber.pmd')
    ret = fn_body(tree(el), 'Fiber.loss')
    if len(ret) != 1 or not isinstance(ret[0], ast.Return):
        raise Unsupported('Fiber.loss is no longer a single return')
    tr = NumTr({'self.loss_coef_func(self.params.ref_frequency)': 'loss_coef_ref', 'self.params.length': 'length',
                'self.params.con_in': 'con_in', 'self.params.con_out': 'con_out', 'self.params.att_in': 'att_in'},
               vectors={'self.lumped_losses': ('lumped_lin', 'l')})
    define(f'{el}: Fiber.loss (lumped_lin = the linear factors self.lumped_losses)', 'g_fiber_loss',
           '(loss_coef_ref length con_in con_out att_in : T) (lumped_lin : list T)', tr.e(ret[0].value))
    all_used(tr, 'Fiber.loss')

    # ---- chromatic dispersion, beta2, beta3 (pi and c are parameters of the generated terms)
    phys = {'pi': 'pi_', 'c': 'c_'}
    b = match_template(CHROMATIC_DISPERSION, fn_body(tree(el), 'Fiber.chromatic_dispersion'), 'Fiber.chromatic_dispersion')
    tr = NumTr(dict(phys, beta2='beta2', beta3='beta3', freq='freq', ref_f='ref_f'))
    beta = tr.e(b['H_beta'])
    tr2 = NumTr(dict(phys, beta='beta', ref_f='ref_f'))
    disp = tr2.e(b['H_dispersion'])
    tr3 = NumTr({'dispersion': 'dispersion', 'length': 'length'})
    ret = tr3.e(b['H_ret'])
    all_used(tr3, 'Fiber.chromatic_dispersion return')
    define(f'{el}: Fiber.chromatic_dispersion', 'g_chromatic_dispersion', '(pi_ c_ beta2 beta3 freq ref_f length : T)',
           f'let beta := {beta} in\n  let dispersion := {disp} in\n  {ret}')
    b = match_template(BETA2, fn_body(tree(el), 'Fiber.beta2'), 'Fiber.beta2')
    tr = NumTr({'frequency': 'frequency', 'self.params.f_dispersion_ref': 'f_dispersion_ref', 'self.params.dispersion': 'dispersion'})
    define(f'{el}: Fiber.beta2, scalar dispersion without slope', 'g_dispersion_noslope', '(frequency f_dispersion_ref dispersion : T)',
           tr.e(b['H_noslope']))
    all_used(tr, 'Fiber.beta2 H_noslope')
    trw = NumTr(dict(phys, frequency='frequency'))
    wl = trw.e(b['H_wavelength'])
    tr = NumTr(dict(phys, wavelength='wavelength', **{'self.params.dispersion': 'dispersion', 'self.params.dispersion_slope': 'slope',
                                                      'self.params.f_dispersion_ref': 'f_dispersion_ref'}))
    define(f'{el}: Fiber.beta2, scalar dispersion with slope', 'g_dispersion_slope', '(c_ frequency f_dispersion_ref dispersion slope : T)',
           f'let wavelength := {wl} in\n  {tr.e(b["H_slope"])}')
    tr = NumTr(dict(phys, frequency='frequency', dispersion='dispersion'))
    define(f'{el}: Fiber.beta2', 'g_beta2', '(pi_ c_ frequency dispersion : T)', tr.e(b['H_beta2']))
    all_used(tr, 'Fiber.beta2 H_beta2')
    b = match_template(BETA3, fn_body(tree(el), 'Fiber.beta3'), 'Fiber.beta3')
    tr = NumTr(dict(phys, frequency='frequency', dispersion_slope='slope', beta2='beta2'))
    define(f'{el}: Fiber.beta3, scalar dispersion with slope', 'g_beta3_slope', '(pi_ c_ frequency slope beta2 : T)', tr.e(b['H_beta3']))
    all_used(tr, 'Fiber.beta3 H_beta3')

    # ---- Fiber.__init__: lumped losses
    init = fn_body(tree(el), 'Fiber.__init__')
    k = stmt_index(init, lambda s: isinstance(s, ast.Assign) and ast.unparse(s.targets[0]) == 'z_lumped_losses', 'Fiber.__init__')
    b = match_template(FIBER_INIT_LUMPED, init[k:], 'Fiber.__init__ (lumped losses)')
    tr = NumTr({'db2lin(-lumped_losses_power)': '(db2lin (- loss_db))'})
    define(f'{el}: Fiber.__init__, lumped loss [dB] -> linear factor', 'g_lumped_lin', '(loss_db : T)', tr.e(b['H_lin']))
    all_used(tr, 'Fiber.__init__ H_lin')
    tr = NumTr({'array(z_lumped_losses)': 'pos_km'})
    define(f'{el}: Fiber.__init__, lumped position [km] -> [m]; the range test 0 < z < 0.001 * length is part of the template',
           'g_lumped_pos_m', '(pos_km : T)', tr.e(b['H_pos']))
    all_used(tr, 'Fiber.__init__ H_pos')

    # ---- FiberParams.__init__: latency
    init = fn_body(tree(pa), 'FiberParams.__init__')
    if len(init) != 1 or not isinstance(init[0], ast.Try):
        raise Unsupported('FiberParams.__init__ is no longer one try block')
    body = init[0].body
    k = stmt_index(body, lambda s: isinstance(s, ast.Assign) and ast.unparse(s.targets[0]) == 'self._latency', 'FiberParams.__init__')
    tr = NumTr({'self._length': 'length', 'c': 'c_', 'self._n1': 'n1'})
    define(f'{pa}: FiberParams.__init__, self._latency', 'g_latency', '(c_ length n1 : T)', tr.e(body[k].value))
    all_used(tr, 'FiberParams.__init__ latency')
    lat_setters = [n for n in ast.walk(tree(pa)) if isinstance(n, ast.Assign) and ast.unparse(n.targets[0]) == 'self._latency']
    if len(lat_setters) != 1:
        raise Unsupported('self._latency is assigned in more than one place')

    # ---- RamanSolver._create_lumped_losses (template only), numerical update, iterative sweeps
    match_template(CREATE_LUMPED, fn_body(tree(su), 'RamanSolver._create_lumped_losses'), 'RamanSolver._create_lumped_losses')
    out.append(f'(* {su}: RamanSolver._create_lumped_losses matches its template: sorted distinct positions, the values of a position '
               'accumulate (Model/Fiber.v merge_grid) *)\n')
    uni = fn_body(tree(su), 'RamanSolver.calculate_unidirectional_stimulated_raman_scattering')
    if len(uni) != 2 or not isinstance(uni[0], ast.If) or not isinstance(uni[1], ast.Return):
        raise Unsupported('calculate_unidirectional_stimulated_raman_scattering: outer shape')
    branch = uni[0].orelse
    if len(branch) != 1 or not isinstance(branch[0], ast.If) or \
            ast.unparse(branch[0].test) != "sim_params.raman_params.method == 'numerical'":
        raise Unsupported("calculate_unidirectional_stimulated_raman_scattering: 'numerical' branch not found")
    b = match_template(NUMERICAL, branch[0].body, "RamanSolver 'numerical' branch")
    tr = NumTr({'power[:, i - 1]': 'p', 'alpha': 'a', 'sum(cr * power[:, i - 1], 1)': '(ndot row src)', 'dz[i - 1]': 'dz',
                'lumped_losses[i - 1]': 'll'})
    define(f"{su}: RamanSolver 'numerical' (Euler) update of one wave: p = its power, src = all powers at the previous point",
           'g_euler_wave', '(p a : T) (row src : list T) (dz ll : T)', tr.e(b['H_update']))
    all_used(tr, 'numerical update')
    it = fn_body(tree(su), 'RamanSolver.iterative_algorithm')
    k = stmt_index(it, lambda s: isinstance(s, ast.While), 'iterative_algorithm')
    loop = it[k].body
    k2 = stmt_index(loop, lambda s: isinstance(s, ast.AugAssign) and ast.unparse(s.target) == 'iteration', 'iterative_algorithm loop')
    b = match_template(ITER_SWEEPS, loop[k2 + 1:k2 + 3], 'RamanSolver.iterative_algorithm sweeps')
    for hole, idx in (('H_dpdz_fwd', 'i - 1'), ('H_dpdz_bwd', '-i')):
        tr = NumTr({'alpha': 'a', f'sum(cr * next_power[:, {idx}], 1)': '(ndot row src)'})
        term = tr.e(b[hole])
        all_used(tr, hole)
        if hole == 'H_dpdz_fwd':
            fwd_dpdz = term
        elif term != fwd_dpdz:
            raise Unsupported('the two sweeps of iterative_algorithm no longer compute dpdz alike')
    define(f'{su}: RamanSolver.iterative_algorithm, dpdz of one wave (src = all powers at the source point: [:, i - 1] forward, [:, -i] backward)',
           'g_iter_dpdz', '(a : T) (row src : list T)', fwd_dpdz)
    tr = NumTr({'next_power[:co_frequency.size, i - 1]': 'p', 'dpdz[:co_frequency.size]': 'g', 'dz[i - 1]': 'dz', 'lumped_losses[i - 1]': 'll'})
    define(f'{su}: RamanSolver.iterative_algorithm, forward update of a co-propagating wave (indices [i - 1])', 'g_iter_fwd',
           '(p g dz ll : T)', tr.e(b['H_fwd']))
    all_used(tr, 'iterative forward update')
    tr = NumTr({'next_power[co_frequency.size:, -i]': 'p', 'dpdz[co_frequency.size:]': 'g', 'dz[-i]': 'dz', 'lumped_losses[-i]': 'll'})
    define(f'{su}: RamanSolver.iterative_algorithm, backward update of a counter-propagating wave (indices [-i], dz[-i], lumped_losses[-i])',
           'g_iter_bwd', '(p g dz ll : T)', tr.e(b['H_bwd']))
    all_used(tr, 'iterative backward update')
    out.append('End FiberGen.')
    return '\n'.join(out) + '\n'


def regenerate():
    """(Re)write coq/theories/Gen/FiberGen.v when its content changed. Returns (ok, message)."""
    try:
        txt = generate()
    except (Unsupported, SyntaxError, OSError, KeyError) as e:
        return False, f'translation failed: {type(e).__name__}: {e}'
    os.makedirs(os.path.dirname(DST), exist_ok=True)
    if not os.path.exists(DST) or open(DST).read() != txt:
        with open(DST, 'w') as f:
            f.write(txt)
    return True, 'ok'


if __name__ == '__main__':
    print(generate())
