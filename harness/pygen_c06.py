"""Translator tie for C06 (second tie between /repo's source and Model/Roadm.v), built on harness/pygen.py.

On every run the functions below are re-read from <repo>; their bookkeeping is matched against templates (every
statement must be the expected one) and the decision-carrying expressions (holes H_x) are translated into Gallina over
Q (dB arithmetic, per carrier); the result is written to coq/theories/Gen/RoadmGen.v and Proofs/RoadmGen.v proves each
generated definition equal to the hand-written model.  Anything outside the subset raises Unsupported (fail closed).

 gnpy/core/utils.py
   calculate_absolute_min_or_zero    translated (g_absmin)
   psd2powerdbm                      template only (lin2db(baud * psd * 1e-9): its dB image is `d + cbaud`, see Model/Roadm.v)
 gnpy/core/elements.py  class Roadm
   propagate                         template PROPAGATE (the whole body, incl. the order: max loss, targets, reference
                                     channel, equalisation, PMD, PDL, reports); translated per carrier: target + offset,
                                     the argument of the correction, new target, delta power, reference output power and
                                     loss, the PMD / PDL quadrature sums (carried squared), loss_pch_db
   get_per_degree_power              translated: the if-chain  degree in <table> -> <kind>  (kind = which table and which
   get_per_degree_ref_power          carrier attribute goes into psd2powerdbm), falling back to get_roadm_target_power
   get_roadm_target_power            translated: both if-chains (`is not None` tests, order, kind) (g_node_policy[_ref])
   get_impairment                    template GETIMP; translated: the band test; the defaults of 'roadm-maxloss' /
                                     'roadm-pmd' / 'roadm-pdl' are read from parameters.RoadmImpairment.default_values
   set_roadm_paths / get_roadm_path  templates only (first profile of the path type, else the given id, else the
                                     global impairment; first registered path from->to)
   to_json                           templates only: the node-level policy is exported as held (key, un-altered value); the
                                     three per-degree tables by three independent `if`s
 gnpy/core/network.py
   set_roadm_per_degree_targets      template SETT; translated: the "no own target" test, the three node-level tests, and
                                     which table receives which node value
   set_roadm_internal_paths          template PATHS; translated: the argument order of the three per-degree impairment
                                     look-ups and the path type demanded on transceiver degrees
 gnpy/core/parameters.py  RoadmParams.__init__ (first statements)   template; translated: the per-key test and the bound
 gnpy/tools/json_io.py    Roadm.__init__, find_equalisation, merge_equalization   templates; translated: the per-key
                                     tests and the bounds of the three branches
 gnpy/tools/yang_convert_utils.py  convert_degree            template only (the per-kind lists are accumulated)
 gnpy/core/info.py        SpectralInformation.__init__ / select_channels  structural rule: every per-carrier array is
                                     re-indexed with the same index (`[indices]` / `[select]`)
 gnpy/topology/request.py compute_path_with_disjunction      structural rule: the two branches that adopt the selected mode
                                     copy the same mode fields into the request, the equalisation offset among them
 gnpy/tools/convert.py    create_roadm_element               template CREATE_ROADM_ROW for the body of the loop over the Roadms
                                     sheet rows of a node: the per-degree target and the impairment ids of a row are taken
                                     independently of each other
 gnpy/topology/request.py propagate_and_optimize_mode        template POM_TEMPLATE of harness/pygen_c13.py (whole body: the
                                     spectrum of an iteration is built with delta_pdb=this_offset); translated: the filter
                                     of the modes explored on that spectrum (g_mode_explored) — obligation: every explored
                                     mode has the baud rate and the equalisation offset the spectrum was built with
Float constants are read as the decimal they are written as.
"""
import ast
import os
from fractions import Fraction

from . import common
from .pygen import Tr, Unsupported, find, match_template, strip_doc

KEYS = ['target_pch_out_db', 'target_psd_out_mWperGHz', 'target_out_mWperSlotWidth']


def key_of(n):
    if isinstance(n, ast.Name):
        return n.id
    if isinstance(n, ast.Attribute):
        return key_of(n.value) + '.' + n.attr
    if isinstance(n, ast.Subscript) and isinstance(n.slice, ast.Name):
        return f'{key_of(n.value)}[{n.slice.id}]'
    if isinstance(n, ast.Subscript) and isinstance(n.slice, ast.Constant) and isinstance(n.slice.value, str):
        return f"{key_of(n.value)}['{n.slice.value}']"
    raise Unsupported(ast.dump(n)[:120])


class TrQ(Tr):
    """per-carrier dB arithmetic over Q: + - * /const, x ** 2, min / max of two, abs, comparisons"""

    def __init__(self, attr):
        super().__init__(set(), {}, attr=attr, names={}, monadic={})

    def num(self, v):
        if isinstance(v, bool):
            raise Unsupported(f'constant {v!r}')
        if isinstance(v, int):
            return f'(- {-v})' if v < 0 else str(v)
        if isinstance(v, float):
            fr = Fraction(repr(v))
            return self.num(int(fr)) if fr.denominator == 1 else f'({fr.numerator} # {fr.denominator})'
        raise Unsupported(f'constant {v!r}')

    def e(self, n):
        if isinstance(n, (ast.Name, ast.Attribute, ast.Subscript)):
            k = key_of(n)
            if k in self.attr:
                return self.attr[k]
            raise Unsupported(f'name {k}')
        if isinstance(n, ast.Constant):
            return self.num(n.value)
        if isinstance(n, ast.Call) and isinstance(n.func, ast.Name) and not n.keywords:
            f = n.func.id
            if f in ('min', 'max') and len(n.args) == 2:
                return f"({'Qmin' if f == 'min' else 'Qmax'} {self.e(n.args[0])} {self.e(n.args[1])})"
            if f == 'max' and len(n.args) == 1 and key_of(n.args[0]) + '#max' in self.attr:
                return self.attr[key_of(n.args[0]) + '#max']
            if f == 'abs' and len(n.args) == 1:
                return f'(Qabs {self.e(n.args[0])})'
            raise Unsupported(f'call of {f}')
        if isinstance(n, ast.BinOp):
            if isinstance(n.op, ast.Pow) and isinstance(n.right, ast.Constant) and n.right.value == 2:
                k = key_of(n.left) + '#sq' if isinstance(n.left, (ast.Name, ast.Attribute)) else None
                if k in self.attr:
                    return self.attr[k]                          # a quantity the model carries squared
                x = self.e(n.left)
                return f'({x} * {x})'
            if isinstance(n.op, ast.Div) and isinstance(n.right, ast.Constant):
                return f'({self.e(n.left)} / {self.num(n.right.value)})'
            if isinstance(n.op, (ast.Add, ast.Sub, ast.Mult)):
                op = {ast.Add: '+', ast.Sub: '-', ast.Mult: '*'}[type(n.op)]
                return f'({self.e(n.left)} {op} {self.e(n.right)})'
            raise Unsupported(f'operator {type(n.op).__name__}')
        raise Unsupported(ast.dump(n)[:120])

    def b(self, n):
        if isinstance(n, ast.Compare) and all(isinstance(o, ast.LtE) for o in n.ops):
            xs = [self.e(x) for x in [n.left] + n.comparators]
            return '(' + ' && '.join(f'Qle_bool {a} {b}' for a, b in zip(xs, xs[1:])) + ')'
        raise Unsupported('condition ' + ast.dump(n)[:120])


# ------------------------------------------------------------------ templates
PROPAGATE = """
input_pch_dbm = spectral_info.pch_dbm
roadm_maxloss_db = self.get_impairment('roadm-maxloss', spectral_info.frequency, from_degree, degree)
spectral_info.apply_attenuation_db(roadm_maxloss_db)
net_input_pch_dbm = spectral_info.pch_dbm
ref_per_degree_pch = self.get_per_degree_ref_power(degree)
per_degree_pch = self.get_per_degree_power(degree, spectral_info=spectral_info)
ref_pch_in_dbm = self.ref_pch_in_dbm[from_degree]
self.ref_pch_out_dbm = H_refout
self.ref_effective_loss = H_refloss
target_power_per_channel = H_tpc
correction = calculate_absolute_min_or_zero(H_corrarg)
new_target = H_newt
delta_power = H_dp
spectral_info.apply_attenuation_db(delta_power)
pmd_impairment = self.get_impairment('roadm-pmd', spectral_info.frequency, from_degree, degree)
spectral_info.pmd = sqrt(H_pmd)
pdl_impairment = self.get_impairment('roadm-pdl', spectral_info.frequency, from_degree, degree)
spectral_info.pdl = sqrt(H_pdl)
self.pch_out_dbm = spectral_info.pch_dbm
self.loss_pch_db = H_loss
self.propagated_labels = spectral_info.label
"""

GETIMP = """
result = []
impairment_per_band = self.get_roadm_path(from_degree, degree).impairment.impairments
for frequency in frequency_array:
    for item in impairment_per_band:
        f_min = item['frequency-range']['lower-frequency']
        f_max = item['frequency-range']['upper-frequency']
        if (f_min is None or H_inband):
            item[impairment] = item.get(impairment, RoadmImpairment.default_values[impairment])
            if item[impairment] is not None:
                result.append(item[impairment])
                break
if result:
    return array(result)
"""

GETPATH = """
for roadm_path in self.roadm_paths:
    if roadm_path.from_degree == from_degree and roadm_path.to_degree == to_degree:
        return roadm_path
msg = H_msg
raise NetworkTopologyError(msg)
"""

SETPATHS = """
roadm_global_impairment = {
    'impairment': [{
        'roadm-pmd': self.params.pmd,
        'roadm-pdl': self.params.pdl,
        'frequency-range': {
            'lower-frequency': None,
            'upper-frequency': None
        }}]}
if path_type in ['add', 'drop']:
    roadm_global_impairment['impairment'][0]['roadm-osnr'] = self.params.add_drop_osnr + lin2db(2)
impairment = RoadmImpairment(roadm_global_impairment)
if impairment_id is None:
    for path_impairment_id, path_impairment in self.roadm_path_impairments.items():
        if path_impairment.path_type == path_type:
            impairment = path_impairment
            impairment_id = path_impairment_id
            break
else:
    if impairment_id in self.roadm_path_impairments:
        impairment = self.roadm_path_impairments[impairment_id]
    else:
        msg = H_msg
        raise NetworkTopologyError(msg)
self.roadm_paths.append(RoadmPath(from_degree=from_degree, to_degree=to_degree, path_type=path_type,
                                  impairment_id=impairment_id, impairment=impairment))
"""

TOJSON_TABLES = """
if self.per_degree_pch_out_dbm:
    to_json['params']['per_degree_pch_out_db'] = self.per_degree_pch_out_dbm
if self.per_degree_pch_psd:
    to_json['params']['per_degree_psd_out_mWperGHz'] = self.per_degree_pch_psd
if self.per_degree_pch_psw:
    to_json['params']['per_degree_psd_out_mWperSlotWidth'] = self.per_degree_pch_psw
"""

TOJSON_NODE = """
if self.target_pch_out_dbm is not None:
    equalisation, value = 'target_pch_out_db', self.target_pch_out_dbm
elif self.target_psd_out_mWperGHz is not None:
    equalisation, value = 'target_psd_out_mWperGHz', self.target_psd_out_mWperGHz
elif self.target_out_mWperSlotWidth is not None:
    equalisation, value = 'target_out_mWperSlotWidth', self.target_out_mWperSlotWidth
else:
    assert False, 'There must be one default equalization defined in ROADM'
"""

SETT = """
next_oms = (n for n in network.successors(roadm) if not isinstance(n, elements.Transceiver))
for node in next_oms:
    if H_missing:
        if H_c1:
            H_t1 = H_v1
        elif H_c2:
            H_t2 = H_v2
        elif H_c3:
            H_t3 = H_v3
        else:
            raise ConfigurationError(roadm.uid, 'needs an equalization target')
"""

PATHS = """
next_oms = [n.uid for n in network.successors(roadm) if not isinstance(n, elements.Transceiver)]
previous_oms = [n.uid for n in network.predecessors(roadm) if not isinstance(n, elements.Transceiver)]
drop_port = [n.uid for n in network.successors(roadm) if isinstance(n, elements.Transceiver)]
add_port = [n.uid for n in network.predecessors(roadm) if isinstance(n, elements.Transceiver)]
default_express = 'express'
default_add = 'add'
default_drop = 'drop'
correct_from_degrees = []
correct_add = []
correct_to_degrees = []
correct_drop = []
for from_degree in previous_oms:
    correct_from_degrees.append(from_degree)
    for to_degree in next_oms:
        correct_to_degrees.append(to_degree)
        impairment_id = roadm.get_per_degree_impairment_id(H_x1, H_x2)
        roadm.set_roadm_paths(from_degree=from_degree, to_degree=to_degree, path_type=default_express,
                              impairment_id=impairment_id)
    for drop in drop_port:
        correct_drop.append(drop)
        impairment_id = roadm.get_per_degree_impairment_id(H_d1, H_d2)
        path_type = roadm.get_path_type_per_id(impairment_id)
        if path_type and path_type != H_dwant:
            msg = H_m1
            raise NetworkTopologyError(msg)
        roadm.set_roadm_paths(from_degree=from_degree, to_degree=drop, path_type=default_drop,
                              impairment_id=impairment_id)
for to_degree in next_oms:
    for add in add_port:
        correct_add.append(add)
        impairment_id = roadm.get_per_degree_impairment_id(H_a1, H_a2)
        path_type = roadm.get_path_type_per_id(impairment_id)
        if path_type and path_type != H_awant:
            msg = H_m2
            raise NetworkTopologyError(msg)
        roadm.set_roadm_paths(from_degree=add, to_degree=to_degree, path_type=default_add,
                              impairment_id=impairment_id)
for item in roadm.per_degree_impairments.values():
    if item['from_degree'] not in correct_from_degrees + correct_add or \\
            item['to_degree'] not in correct_to_degrees + correct_drop:
        msg = H_m3
        raise NetworkTopologyError(msg)
"""

PARAMS_HEAD = """
self.target_pch_out_db = kwargs.get('target_pch_out_db')
self.target_psd_out_mWperGHz = kwargs.get('target_psd_out_mWperGHz')
self.target_out_mWperSlotWidth = kwargs.get('target_out_mWperSlotWidth')
equalisation_type = ['target_pch_out_db', 'target_psd_out_mWperGHz', 'target_out_mWperSlotWidth']
temp = [H_test for k in equalisation_type]
if sum(temp) > H_bound:
    raise ParametersError(H_msg, kwargs)
self.per_degree_pch_out_db = kwargs.get('per_degree_pch_out_db', {})
self.per_degree_pch_psd = kwargs.get('per_degree_psd_out_mWperGHz', {})
self.per_degree_pch_psw = kwargs.get('per_degree_psd_out_mWperSlotWidth', {})
"""

EQPT_INIT = """
allowed_equalisations = ['target_pch_out_db', 'target_psd_out_mWperGHz', 'target_out_mWperSlotWidth']
requested_eq_mask = [H_test for eq in allowed_equalisations]
if sum(requested_eq_mask) > H_bound:
    msg = H_m1
    raise EquipmentConfigError(msg)
if not any(requested_eq_mask):
    msg = 'No equalization type set in ROADM'
    raise EquipmentConfigError(msg)
for key in allowed_equalisations:
    if H_test2:
        setattr(self, key, kwargs[key])
        break
self.update_attr(self.default_values, kwargs, 'Roadm')
"""

FIND_EQ = """
equalization = {e: False for e in equalization_types}
for equ in equalization_types:
    if H_test:
        equalization[equ] = True
return equalization
"""

MERGE_EQ = """
equalization_types = ['target_pch_out_db', 'target_psd_out_mWperGHz', 'target_out_mWperSlotWidth']
roadm_equalizations = find_equalisation(params, equalization_types)
if sum(roadm_equalizations.values()) > H_b1:
    return None
if sum(roadm_equalizations.values()) == H_b2:
    return {k: v for k, v in extra_params.items() if k not in equalization_types}
if sum(roadm_equalizations.values()) == H_b3:
    return extra_params
return None
"""

CONVERT_DEGREE = """
for elem in json_data[ELEMENTS_KEY]:
    if elem['type'] == ROADM_KEY and PARAMS_KEY in elem:
        new_targets = []
        for equalization_type in ['per_degree_pch_out_db', 'per_degree_psd_out_mWperGHz',
                                  'per_degree_psd_out_mWperSlotWidth']:
            targets = elem[PARAMS_KEY].pop(equalization_type, None)
            if targets:
                new_targets.extend([{DEGREE_KEY: degree, equalization_type: target}
                                    for degree, target in targets.items()])
        if new_targets:
            elem[PARAMS_KEY]['per_degree_power_targets'] = new_targets
return json_data
"""

# the same with explicit nulls of the element removed before the library default is kept (null = absent)
MERGE_EQ_NULLS = MERGE_EQ.replace("""if sum(roadm_equalizations.values()) == H_b3:
    return extra_params""", """if sum(roadm_equalizations.values()) == H_b3:
    for equ in equalization_types:
        params.pop(equ, None)
    return extra_params""")

CREATE_ROADM_ROW = """
to_node = f'east edfa in {node.city} to {elem.to_node}'
if elem.target_pch_out_db is not None:
    roadm['params']['per_degree_pch_out_db'][to_node] = elem.target_pch_out_db
if elem.from_degrees is not None and elem.impairment_ids is not None:
    if roadm['params'].get('per_degree_impairments') is None:
        roadm['params']['per_degree_impairments'] = []
    fromdegrees = elem.from_degrees.split(' | ')
    impairment_ids = transform_data(elem.impairment_ids)
    if len(fromdegrees) != len(impairment_ids):
        msg = H_msg
        raise NetworkTopologyError(msg)
    for from_degree, impairment_id in zip(fromdegrees, impairment_ids):
        from_node = f'west edfa in {node.city} to {from_degree}'
        roadm['params']['per_degree_impairments'].append({'from_degree': from_node,
                                                          'to_degree': to_node,
                                                          'impairment_id': impairment_id})
if elem.type_variety is not None:
    roadm['type_variety'] = elem.type_variety
"""

PSD2POWER = """
return lin2db(baudrate_baud * psd_mwperghz * 1e-9)
"""

HEADER = """(* GENERATED on every run by harness/pygen_c06.py from gnpy/core/{elements,network,parameters,utils,info}.py,
   gnpy/tools/{json_io,yang_convert_utils}.py and gnpy/topology/request.py of /repo - do not edit. *)
From Coq Require Import QArith Qabs Qminmax.
From Verif Require Import Prelude Model.Roadm.
Open Scope Q_scope.

(* which per-degree table / which attribute of the carrier a target is combined with *)
Inductive table := TPow | TPsd | TPsw.
Inductive cattr := CNone | CBaud | CSlot.
(* a target taken from table / node attribute `t` and turned into a power with carrier attribute `a` (psd2powerdbm) *)
Definition pol_of (t : table) (a : cattr) (v : Q) : option policy :=
  match t, a with
  | TPow, CNone => Some (Power v)
  | TPsd, CBaud => Some (Psd v)
  | TPsw, CSlot => Some (Psw v)
  | _, _ => None                                  (* a combination the model has no policy for *)
  end.
Definition tab (t : table) (r : roadm) : list (Z * Q) := match t with TPow => dpow r | TPsd => dpsd r | TPsw => dpsw r end.
Definition nod (t : table) (r : roadm) : option Q := match t with TPow => npow r | TPsd => npsd r | TPsw => npsw r end.
Definition add_to (t : table) (r : roadm) (d : Z) (v : Q) : roadm :=
  match t with
  | TPow => with_deg r (dpow r ++ [(d, v)]) (dpsd r) (dpsw r)
  | TPsd => with_deg r (dpow r) (dpsd r ++ [(d, v)]) (dpsw r)
  | TPsw => with_deg r (dpow r) (dpsd r) (dpsw r ++ [(d, v)])
  end.
Definition is_some (o : option Q) : bool := match o with Some _ => true | None => false end.
(* tests on a JSON / kwargs key *)
Definition k_in (k : kv) : bool := match k with Absent => false | _ => true end.            (* key in d *)
Definition k_notnone (k : kv) : bool := match k with Val _ => true | _ => false end.        (* d.get(key) is not None *)
Definition count3 (f : kv -> bool) (k : keys3) : Z := (b2z (f (kpow k)) + b2z (f (kpsd k)) + b2z (f (kpsw k)))%Z.
"""

TABLES = {'per_degree_pch_out_dbm': 'TPow', 'per_degree_pch_psd': 'TPsd', 'per_degree_pch_psw': 'TPsw'}
NODE = {'target_pch_out_dbm': 'TPow', 'target_psd_out_mWperGHz': 'TPsd', 'target_out_mWperSlotWidth': 'TPsw',
        'target_pch_out_db': 'TPow'}
CATTR = {'baud_rate': 'CBaud', 'slot_width': 'CSlot'}


def target_expr(n, carrier):
    """`self.<table>[degree]` | `psd2powerdbm(self.<table>[degree], <carrier>.<attr>)`  ->  (table, carrier attribute)
    `self.<node attr>` | `full(len(..), self.<node attr>)` | `psd2powerdbm(self.<node attr>, <carrier>.<attr>)` likewise"""
    def src(x):
        if isinstance(x, ast.Subscript) and isinstance(x.slice, ast.Name) and x.slice.id == 'degree' \
                and isinstance(x.value, ast.Attribute) and key_of(x.value.value) == 'self' and x.value.attr in TABLES:
            return TABLES[x.value.attr]
        if isinstance(x, ast.Attribute) and key_of(x.value) == 'self' and x.attr in NODE:
            return NODE[x.attr]
        raise Unsupported('target source ' + ast.dump(x)[:100])
    if isinstance(n, ast.Call) and isinstance(n.func, ast.Name) and n.func.id == 'psd2powerdbm' and len(n.args) == 2 \
            and not n.keywords:
        a = n.args[1]
        if isinstance(a, ast.Attribute) and key_of(a.value) == carrier and a.attr in CATTR:
            return src(n.args[0]), CATTR[a.attr]
        raise Unsupported('second argument of psd2powerdbm ' + ast.dump(a)[:100])
    if isinstance(n, ast.Call) and isinstance(n.func, ast.Name) and n.func.id == 'full' and len(n.args) == 2:
        return src(n.args[1]), 'CNone'
    return src(n), 'CNone'


def degree_chain(stmts, carrier, final):
    """[if degree in self.<table>: return <target>]* ; return <final call>  ->  nested match on zfind"""
    if not stmts:
        raise Unsupported('empty chain')
    s = stmts[0]
    if len(stmts) == 1:
        if not (isinstance(s, ast.Return) and isinstance(s.value, ast.Call) and key_of(s.value.func) == 'self.get_roadm_target_power'):
            raise Unsupported('last statement of the per-degree chain')
        kw = {k.arg: ast.dump(k.value) for k in s.value.keywords}
        if s.value.args or kw != final:
            raise Unsupported('arguments of get_roadm_target_power')
        return 'g_node r'
    if not (isinstance(s, ast.If) and not s.orelse and len(s.body) == 1 and isinstance(s.body[0], ast.Return)
            and isinstance(s.test, ast.Compare) and len(s.test.ops) == 1 and isinstance(s.test.ops[0], ast.In)
            and key_of(s.test.left) == 'degree'):
        raise Unsupported('statement of the per-degree chain: ' + ast.dump(s)[:100])
    tbl = s.test.comparators[0]
    if not (isinstance(tbl, ast.Attribute) and key_of(tbl.value) == 'self' and tbl.attr in TABLES):
        raise Unsupported('table of the per-degree chain')
    t, a = target_expr(s.body[0].value, carrier)
    if t != TABLES[tbl.attr]:
        raise Unsupported('the value returned for a degree is not taken from the table that was tested')
    return (f'match zfind deg (tab {t} r) with\n  | Some v => pol_of {t} {a} v\n  | None => '
            + degree_chain(stmts[1:], carrier, final).replace('\n', '\n  ') + '\n  end')


def node_chain(stmts, carrier):
    """[if self.<attr> is not None: return <target>]*  ->  nested match on the node attributes"""
    if not stmts:
        return 'None'
    s = stmts[0]
    if not (isinstance(s, ast.If) and not s.orelse and len(s.body) == 1 and isinstance(s.body[0], ast.Return)
            and isinstance(s.test, ast.Compare) and len(s.test.ops) == 1 and isinstance(s.test.ops[0], ast.IsNot)
            and isinstance(s.test.comparators[0], ast.Constant) and s.test.comparators[0].value is None
            and isinstance(s.test.left, ast.Attribute) and key_of(s.test.left.value) == 'self' and s.test.left.attr in NODE):
        raise Unsupported('statement of the node-level chain: ' + ast.dump(s)[:100])
    t, a = target_expr(s.body[0].value, carrier)
    if t != NODE[s.test.left.attr]:
        raise Unsupported('the value returned is not the attribute that was tested')
    return (f'match nod {t} r with\n  | Some v => pol_of {t} {a} v\n  | None => '
            + node_chain(stmts[1:], carrier).replace('\n', '\n  ') + '\n  end')


def key_test(n, var, container):
    """`<var> in <container>` -> k_in ;  `<container>.get(<var>) is not None` -> k_notnone"""
    if isinstance(n, ast.Compare) and len(n.ops) == 1:
        if isinstance(n.ops[0], ast.In) and key_of(n.left) == var and key_of(n.comparators[0]) == container:
            return 'k_in'
        c = n.left
        if isinstance(n.ops[0], ast.IsNot) and isinstance(n.comparators[0], ast.Constant) and n.comparators[0].value is None \
                and isinstance(c, ast.Call) and key_of(c.func) == container + '.get' and len(c.args) == 1 \
                and not c.keywords and key_of(c.args[0]) == var:
            return 'k_notnone'
    raise Unsupported('test of a policy key: ' + ast.dump(n)[:140])


def int_const(n):
    if isinstance(n, ast.Constant) and isinstance(n.value, int) and not isinstance(n.value, bool):
        return str(n.value)
    raise Unsupported('bound ' + ast.dump(n)[:80])


def str_const(n, allowed):
    if isinstance(n, ast.Constant) and n.value in allowed:
        return allowed[n.value]
    raise Unsupported('constant ' + ast.dump(n)[:80])


def parse(repo, rel):
    return ast.parse(open(os.path.join(repo, rel)).read())


def same_index_rule(call_or_stmts, index, what):
    """every per-carrier array handed on must be re-indexed with the same index"""
    for name, value in call_or_stmts:
        if not (isinstance(value, ast.Subscript) and isinstance(value.slice, ast.Name) and value.slice.id == index):
            raise Unsupported(f'{what}: `{name}` is not re-indexed with [{index}]')


def generate(repo=None):
    repo = repo or common.REPO
    out = [HEADER]
    el = parse(repo, 'gnpy/core/elements.py')
    nw = parse(repo, 'gnpy/core/network.py')
    ut = parse(repo, 'gnpy/core/utils.py')
    pa = parse(repo, 'gnpy/core/parameters.py')
    js = parse(repo, 'gnpy/tools/json_io.py')
    yc = parse(repo, 'gnpy/tools/yang_convert_utils.py')
    inf = parse(repo, 'gnpy/core/info.py')
    rq = parse(repo, 'gnpy/topology/request.py')

    # ---- utils
    fn = find(ut, 'calculate_absolute_min_or_zero')
    body = strip_doc(fn.body)
    if [a.arg for a in fn.args.args] != ['x'] or len(body) != 1 or not isinstance(body[0], ast.Return):
        raise Unsupported('calculate_absolute_min_or_zero')
    out.append('(* utils.calculate_absolute_min_or_zero *)')
    out.append(f"Definition g_absmin (x : Q) : Q := {TrQ({'x': 'x'}).e(body[0].value)}.\n")
    fn = find(ut, 'psd2powerdbm')
    if [a.arg for a in fn.args.args] != ['psd_mwperghz', 'baudrate_baud']:
        raise Unsupported('signature of psd2powerdbm')
    match_template(PSD2POWER, strip_doc(fn.body), 'psd2powerdbm')

    # ---- Roadm.propagate
    fn = find(el, 'Roadm.propagate')
    if [a.arg for a in fn.args.args] != ['self', 'spectral_info', 'degree', 'from_degree']:
        raise Unsupported('signature of Roadm.propagate')
    b = match_template(PROPAGATE, strip_doc(fn.body), 'Roadm.propagate')
    t = TrQ({'net_input_pch_dbm': 'net', 'target_power_per_channel': 'tpc', 'per_degree_pch': 'tgt',
             'spectral_info.delta_pdb_per_channel': '(coff c)', 'correction': 'corr', 'new_target': 'newt',
             'ref_pch_in_dbm': 'rin', 'ref_per_degree_pch': 'rtg', 'roadm_maxloss_db#max': 'mx',
             'self.ref_pch_out_dbm': 'ref_out', 'input_pch_dbm': '(cp c)', 'self.pch_out_dbm': "(cp c')",
             'spectral_info.pmd#sq': '(cpmd2 c)', 'spectral_info.pdl#sq': '(cpdl2 c)',
             'pmd_impairment': 'a', 'pdl_impairment': 'b'})
    out.append('(* Roadm.propagate, per carrier c with path loss ml and target tgt *)')
    out.append(f'Definition g_tpc (tgt : Q) (c : chan) : Q := {t.e(b["H_tpc"])}.')
    out.append(f'Definition g_corr_arg (net tpc : Q) : Q := {t.e(b["H_corrarg"])}.')
    out.append(f'Definition g_new_target (tpc corr : Q) : Q := {t.e(b["H_newt"])}.')
    out.append(f'Definition g_delta (net newt : Q) : Q := {t.e(b["H_dp"])}.')
    out.append("""Definition g_delta_power (tgt ml : Q) (c : chan) : Q :=
  let net := cp c - ml in                                   (* pch_dbm after apply_attenuation_db(roadm_maxloss_db) *)
  let tpc := g_tpc tgt c in
  let corr := g_absmin (g_corr_arg net tpc) in
  let newt := g_new_target tpc corr in
  g_delta net newt.
Definition g_equalize (pl : policy) (cm : chan * Q) : chan :=
  let (c, ml) := cm in set_p c ((cp c - ml) - g_delta_power (chan_target pl c) ml c).   (* apply_attenuation_db(delta_power) *)""")
    out.append(f'Definition g_ref_out (rin mx rtg : Q) : Q := {t.e(b["H_refout"])}.')
    out.append(f'Definition g_ref_loss (rin ref_out : Q) : Q := {t.e(b["H_refloss"])}.')
    out.append(f'Definition g_pmd2 (c : chan) (a : Q) : Q := {t.e(b["H_pmd"])}.')
    out.append(f'Definition g_pdl2 (c : chan) (b : Q) : Q := {t.e(b["H_pdl"])}.')
    out.append(f"Definition g_loss (c c' : chan) : Q := {t.e(b['H_loss'])}.\n")

    # ---- target resolution
    fn = find(el, 'Roadm.get_roadm_target_power')
    body = strip_doc(fn.body)
    if not (len(body) == 2 and isinstance(body[0], ast.If) and isinstance(body[0].test, ast.Name)
            and body[0].test.id == 'spectral_info' and isinstance(body[1], ast.Return)
            and isinstance(body[1].value, ast.Constant) and body[1].value.value is None):
        raise Unsupported('shape of get_roadm_target_power')
    out.append('(* Roadm.get_roadm_target_power: with a spectrum / for the reference carrier *)')
    out.append('Definition g_node (r : roadm) : option policy :=\n  ' + node_chain(body[0].body, 'spectral_info') + '.')
    out.append('Definition g_node_ref (r : roadm) : option policy :=\n  ' + node_chain(body[0].orelse, 'self.ref_carrier') + '.')
    fn = find(el, 'Roadm.get_per_degree_power')
    out.append('(* Roadm.get_per_degree_power *)')
    out.append('Definition g_resolve (r : roadm) (deg : Z) : option policy :=\n  '
               + degree_chain(strip_doc(fn.body), 'spectral_info', {'spectral_info': ast.dump(ast.Name('spectral_info', ast.Load()))}) + '.')
    fn = find(el, 'Roadm.get_per_degree_ref_power')
    out.append('(* Roadm.get_per_degree_ref_power *)')
    out.append('Definition g_resolve_ref (r : roadm) (deg : Z) : option policy :=\n  '
               + degree_chain(strip_doc(fn.body), 'self.ref_carrier', {}).replace('g_node r', 'g_node_ref r') + '.\n')

    # ---- get_impairment / get_roadm_path / set_roadm_paths / to_json
    fn = find(el, 'Roadm.get_impairment')
    b = match_template(GETIMP, strip_doc(fn.body), 'Roadm.get_impairment')
    out.append('(* Roadm.get_impairment: the band test; defaults of the three keys (parameters.RoadmImpairment.default_values) *)')
    out.append('Definition g_in_band (b : band) (f : Q) : bool :=\n  match brange b with None => true | Some (lo, hi) => '
               + TrQ({'f_min': 'lo', 'f_max': 'hi', 'frequency': 'f'}).b(b['H_inband']) + ' end.')
    cls = find(pa, 'RoadmImpairment')
    dv = next((s.value for s in cls.body if isinstance(s, ast.Assign) and key_of(s.targets[0]) == 'default_values'), None)
    if not isinstance(dv, ast.Dict):
        raise Unsupported('RoadmImpairment.default_values')
    defaults = {k.value: v for k, v in zip(dv.keys, dv.values) if isinstance(k, ast.Constant)}
    for key, nm in (('roadm-maxloss', 'maxloss'), ('roadm-pmd', 'pmd'), ('roadm-pdl', 'pdl')):
        v = defaults.get(key)
        if not isinstance(v, ast.Constant) or isinstance(v.value, (bool, str)):
            raise Unsupported(f'default of {key}')
        out.append(f"Definition g_default_{nm} : option Q := {'None' if v.value is None else 'Some ' + TrQ({}).num(v.value)}.")
    out.append("""Definition g_item_val (dflt : option Q) (k : kv) : option Q :=     (* item.get(key, default), then `is not None` *)
  match k with Absent => dflt | Null => None | Val q => Some q end.
""")
    match_template(GETPATH, strip_doc(find(el, 'Roadm.get_roadm_path').body), 'Roadm.get_roadm_path')
    fn = find(el, 'Roadm.set_roadm_paths')
    if [a.arg for a in fn.args.args] != ['self', 'from_degree', 'to_degree', 'path_type', 'impairment_id']:
        raise Unsupported('signature of set_roadm_paths')
    match_template(SETPATHS, strip_doc(fn.body), 'Roadm.set_roadm_paths')
    tj = find(el, 'Roadm.to_json')
    tmpl = ast.parse(TOJSON_TABLES).body
    body = strip_doc(tj.body)
    from .pygen import unify
    pos = [i for i, s in enumerate(body) if unify(tmpl[0], s, {})]
    if len(pos) != 1 or not unify(tmpl, body[pos[0]:pos[0] + 3], {}):
        raise Unsupported('Roadm.to_json: the three per-degree tables are no longer exported by three independent ifs')
    if sum(1 for s in ast.walk(tj) if isinstance(s, ast.Constant) and isinstance(s.value, str)
           and s.value.startswith('per_degree_p')) != 3:
        raise Unsupported('Roadm.to_json: per-degree keys')
    # the node-level policy is exported as it is held (key and value), and lands under that key in 'params'
    match_template(TOJSON_NODE, body[:1], 'Roadm.to_json (node-level policy)')
    exports = [s for s in ast.walk(tj) if isinstance(s, ast.Dict)
               and any(isinstance(k, ast.Name) and k.id == 'equalisation' for k in s.keys)]
    if len(exports) != 1 or not any(isinstance(k, ast.Name) and k.id == 'equalisation' and isinstance(v, ast.Name) and v.id == 'value'
                                    for k, v in zip(exports[0].keys, exports[0].values)):
        raise Unsupported('Roadm.to_json: `equalisation: value` entry of params')

    # ---- network.set_roadm_per_degree_targets
    fn = find(nw, 'set_roadm_per_degree_targets')
    b = match_template(SETT, strip_doc(fn.body), 'set_roadm_per_degree_targets')

    def missing(n):
        if not (isinstance(n, ast.BoolOp) and isinstance(n.op, ast.And)):
            raise Unsupported('"no own target" test')
        parts = []
        for v in n.values:
            if not (isinstance(v, ast.Compare) and len(v.ops) == 1 and isinstance(v.ops[0], ast.NotIn)
                    and key_of(v.left) == 'node.uid' and isinstance(v.comparators[0], ast.Attribute)
                    and key_of(v.comparators[0].value) == 'roadm' and v.comparators[0].attr in TABLES):
                raise Unsupported('"no own target" test: ' + ast.dump(v)[:100])
            parts.append(f'negb (zhas d (tab {TABLES[v.comparators[0].attr]} r))')
        return '(' + ' && '.join(parts) + ')'

    def node_test(n):
        a = n.left if isinstance(n, ast.Compare) else n
        if isinstance(n, ast.Compare) and not (len(n.ops) == 1 and isinstance(n.ops[0], ast.IsNot)
                                               and isinstance(n.comparators[0], ast.Constant) and n.comparators[0].value is None):
            raise Unsupported('node-level test ' + ast.dump(n)[:100])
        if not (isinstance(a, ast.Attribute) and key_of(a.value) == 'roadm.params' and a.attr in NODE):
            raise Unsupported('node-level test ' + ast.dump(n)[:100])
        # `x is not None`, and the truthiness of a PSD / PSW value (which is > 0 whenever it has a dB value)
        if not isinstance(n, ast.Compare) and NODE[a.attr] == 'TPow':
            raise Unsupported('truthiness test of a dBm value (0 dBm is a value)')
        return f'is_some (nod {NODE[a.attr]} r)'

    def fill(tgt, val):
        if not (isinstance(tgt, ast.Subscript) and key_of(tgt.slice) == 'node.uid' and isinstance(tgt.value, ast.Attribute)
                and key_of(tgt.value.value) == 'roadm' and tgt.value.attr in TABLES):
            raise Unsupported('table filled by the design step')
        if not (isinstance(val, ast.Attribute) and key_of(val.value) == 'roadm.params' and val.attr in NODE):
            raise Unsupported('value filled by the design step')
        return f'add_to {TABLES[tgt.value.attr]} r d (getq (nod {NODE[val.attr]} r))'
    out.append('(* network.set_roadm_per_degree_targets *)')
    out.append(f'Definition g_missing (r : roadm) (d : Z) : bool := {missing(b["H_missing"])}.')
    out.append('Definition g_set_step (r : roadm) (d : Z) : res roadm :=\n'
               f'  if {node_test(b["H_c1"])} then Ok ({fill(b["H_t1"], b["H_v1"])})\n'
               f'  else if {node_test(b["H_c2"])} then Ok ({fill(b["H_t2"], b["H_v2"])})\n'
               f'  else if {node_test(b["H_c3"])} then Ok ({fill(b["H_t3"], b["H_v3"])})\n'
               '  else Err "ConfigurationError:needs an equalization target".')
    out.append("""Fixpoint g_set_targets (r : roadm) (next_oms : list Z) : res roadm :=
  match next_oms with
  | [] => Ok r
  | d :: t => if g_missing r d then (let* r' := g_set_step r d in g_set_targets r' t) else g_set_targets r t
  end.
""")

    # ---- network.set_roadm_internal_paths
    fn = find(nw, 'set_roadm_internal_paths')
    b = match_template(PATHS, strip_doc(fn.body), 'set_roadm_internal_paths')

    def pair(h1, h2, names):
        return f'({names[key_of(b[h1])]}, {names[key_of(b[h2])]})' if key_of(b[h1]) in names and key_of(b[h2]) in names \
            else (_ for _ in ()).throw(Unsupported('argument of get_per_degree_impairment_id'))
    out.append('(* network.set_roadm_internal_paths: (from, to) key of the per-degree impairment look-up; demanded path types *)')
    out.append(f"Definition g_express_key (from to : Z) : Z * Z := {pair('H_x1', 'H_x2', {'from_degree': 'from', 'to_degree': 'to'})}.")
    out.append(f"Definition g_drop_key (from dr : Z) : Z * Z := {pair('H_d1', 'H_d2', {'from_degree': 'from', 'drop': 'dr'})}.")
    out.append(f"Definition g_add_key (ad to : Z) : Z * Z := {pair('H_a1', 'H_a2', {'add': 'ad', 'to_degree': 'to'})}.")
    pt = {'express': 'Express', 'add': 'Add', 'drop': 'Drop'}
    out.append(f"Definition g_drop_want : ptype := {str_const(b['H_dwant'], pt)}.")
    out.append(f"Definition g_add_want : ptype := {str_const(b['H_awant'], pt)}.\n")

    # ---- single policy
    fn = find(pa, 'RoadmParams.__init__')
    body = strip_doc(fn.body)
    n_head = len(ast.parse(PARAMS_HEAD).body)
    b = match_template(PARAMS_HEAD, body[:n_head], 'RoadmParams.__init__ (policy part)')
    out.append('(* parameters.RoadmParams.__init__ *)')
    out.append(f"Definition g_roadm_params (k : keys3) : res (option Q * option Q * option Q) :=\n"
               f"  if ({int_const(b['H_bound'])} <? count3 {key_test(b['H_test'], 'k', 'kwargs')} k)%Z "
               'then Err "ParametersError:more than one equalisation type"\n'
               '  else Ok (valued (kpow k), valued (kpsd k), valued (kpsw k)).        (* kwargs.get(key) *)')
    fn = find(js, 'Roadm.__init__')
    b = match_template(EQPT_INIT, strip_doc(fn.body), 'json_io.Roadm.__init__')
    t1, t2 = key_test(b['H_test'], 'eq', 'kwargs'), key_test(b['H_test2'], 'key', 'kwargs')
    if t1 != t2:
        raise Unsupported('json_io.Roadm.__init__: the key that is counted is not the key that is stored')
    out.append('(* json_io.Roadm.__init__ *)')
    out.append(f"Definition g_eqpt_check (e : keys3) : res keys3 :=\n  if ({int_const(b['H_bound'])} <? count3 {t1} e)%Z "
               'then Err "EquipmentConfigError:only one equalization type should be set"\n'
               f'  else if (count3 {t1} e =? 0)%Z then Err "EquipmentConfigError:no equalization type set"\n  else Ok e.')
    fn = find(js, 'find_equalisation')
    b = match_template(FIND_EQ, strip_doc(fn.body), 'find_equalisation')
    ft = key_test(b['H_test'], 'equ', 'params')
    fn = find(js, 'merge_equalization')
    try:
        b = match_template(MERGE_EQ, strip_doc(fn.body), 'merge_equalization')
    except Unsupported:
        b = match_template(MERGE_EQ_NULLS, strip_doc(fn.body), 'merge_equalization')
    out.append('(* json_io.find_equalisation + merge_equalization (+ merge_amplifier_restrictions: the element\'s keys win) *)')
    out.append(f"Definition g_merge_policy (el eq : keys3) : res keys3 :=\n"
               f"  if ({int_const(b['H_b1'])} <? count3 {ft} el)%Z then Err \"ConfigurationError:invalid equalization settings\"\n"
               f"  else if (count3 {ft} el =? {int_const(b['H_b2'])})%Z then Ok el\n"
               f"  else if (count3 {ft} el =? {int_const(b['H_b3'])})%Z then Ok eq\n"
               '  else Err "ConfigurationError:invalid equalization settings".\n')

    # ---- templates / structural rules without generated term
    match_template(CONVERT_DEGREE, strip_doc(find(yc, 'convert_degree').body), 'yang_convert_utils.convert_degree')
    init = find(inf, 'SpectralInformation.__init__')
    params = [a.arg for a in init.args.args[1:]]
    per = []
    for s in ast.walk(init):
        if isinstance(s, ast.Assign) and len(s.targets) == 1 and isinstance(s.targets[0], ast.Attribute) \
                and key_of(s.targets[0].value) == 'self' and s.targets[0].attr.lstrip('_') in params \
                and s.targets[0].attr != '_frequency':
            per.append((s.targets[0].attr, s.value))
    if sorted(p[0].lstrip('_') for p in per) != sorted(p for p in params if p != 'frequency'):
        raise Unsupported('SpectralInformation.__init__: per-carrier attributes ' + str(sorted(p[0] for p in per)))
    same_index_rule(per, 'indices', 'SpectralInformation.__init__')
    for name, value in per:
        if key_of(value.value) != name.lstrip('_'):
            raise Unsupported(f'SpectralInformation.__init__: {name} is not built from its own argument')
    sel = strip_doc(find(inf, 'select_channels').body)
    if not (len(sel) == 1 and isinstance(sel[0], ast.Return) and isinstance(sel[0].value, ast.Call)
            and key_of(sel[0].value.func) == 'SpectralInformation' and not sel[0].value.args):
        raise Unsupported('select_channels')
    kws = [(k.arg, k.value) for k in sel[0].value.keywords]
    if sorted(k for k, _ in kws) != sorted(params):
        raise Unsupported('select_channels: keyword arguments')
    same_index_rule(kws, 'select', 'select_channels')
    for name, value in kws:
        if key_of(value.value) not in (f'spectrum.{name}', f'spectrum._{name}'):
            raise Unsupported(f'select_channels: {name} is not taken from the same attribute of the spectrum')
    # compute_path_with_disjunction: the two branches that adopt the selected mode copy the same fields
    fn = find(rq, 'compute_path_with_disjunction')
    found = 0
    for tr in ast.walk(fn):
        if isinstance(tr, ast.Try) and len(tr.handlers) == 1 and key_of(tr.handlers[0].type) == 'AttributeError' \
                and len(tr.body) == 1 and isinstance(tr.body[0], ast.If):
            def copied(stmts):
                return sorted((s.targets[0].attr, s.value.slice.value) for s in stmts
                              if isinstance(s, ast.Assign) and isinstance(s.targets[0], ast.Attribute)
                              and key_of(s.targets[0].value) == 'pathreq' and isinstance(s.value, ast.Subscript)
                              and key_of(s.value.value) == 'mode' and isinstance(s.value.slice, ast.Constant))
            branches = [copied(br.body) for br in ast.walk(tr.body[0]) if isinstance(br, ast.If)] + [copied(tr.handlers[0].body)]
            branches = [c for c in branches if c]
            if len(branches) != 2 or branches[0] != branches[1] or ('offset_db', 'equalization_offset_db') not in branches[0]:
                raise Unsupported('compute_path_with_disjunction: the branches adopting the selected mode copy different '
                                  f'mode fields into the request: {branches}')
            found += 1
    if found != 1:
        raise Unsupported('compute_path_with_disjunction: mode adoption block not found')
    # convert.create_roadm_element: one Roadms-sheet row gives its target AND its impairment ids
    fn = find(parse(repo, 'gnpy/tools/convert.py'), 'create_roadm_element')
    loops = [s for s in ast.walk(fn) if isinstance(s, ast.For) and isinstance(s.iter, ast.Subscript)
             and key_of(s.iter.value) == 'roadms_by_city']
    if len(loops) != 1:
        raise Unsupported('create_roadm_element: loop over the Roadms rows of the node not found')
    match_template(CREATE_ROADM_ROW, loops[0].body, 'create_roadm_element (one Roadms-sheet row)')
    # request.propagate_and_optimize_mode: which modes are explored on the spectrum built with (this_br, this_offset)
    from .pygen_c13 import POM_TEMPLATE
    b = match_template(POM_TEMPLATE, strip_doc(find(rq, 'propagate_and_optimize_mode').body), 'propagate_and_optimize_mode')

    def mode_filter(n):
        if isinstance(n, ast.BoolOp) and isinstance(n.op, ast.And):
            return '(' + ' && '.join(mode_filter(v) for v in n.values) + ')'
        if isinstance(n, ast.Compare) and len(n.ops) == 1:
            leaves = {"this_mode['baud_rate']": 'mb', "this_mode['equalization_offset_db']": 'mo', 'this_br': 'br',
                      'this_offset': 'off', 'req.spacing': 'sp', "float(this_mode['min_spacing'])": 'msp'}

            def leaf(x):
                k = "float(this_mode['min_spacing'])" if isinstance(x, ast.Call) and key_of(x.func) == 'float' \
                    and len(x.args) == 1 and key_of(x.args[0]) == "this_mode['min_spacing']" else key_of(x)
                if k not in leaves:
                    raise Unsupported('mode filter leaf ' + k)
                return leaves[k]
            l, r = leaf(n.left), leaf(n.comparators[0])
            if isinstance(n.ops[0], ast.Eq):
                return f'Qeq_bool {l} {r}'
            if isinstance(n.ops[0], ast.LtE):
                return f'Qle_bool {l} {r}'
        raise Unsupported('mode filter ' + ast.dump(n)[:120])
    out.append('(* request.propagate_and_optimize_mode: the modes explored on the spectrum built with baud rate br and offset off *)')
    out.append(f"Definition g_mode_explored (mb mo msp br off sp : Q) : bool := {mode_filter(b['H_filter'])}.")
    return '\n'.join(out) + '\n'


def regenerate():
    """(Re)write coq/theories/Gen/RoadmGen.v when its content changed. Returns (ok, message)."""
    dst = os.path.join(common.COQ, 'theories', 'Gen', 'RoadmGen.v')
    try:
        txt = generate()
    except (Unsupported, SyntaxError, OSError, KeyError, AttributeError) as e:
        return False, f'translation failed: {type(e).__name__}: {e}'
    os.makedirs(os.path.dirname(dst), exist_ok=True)
    if not os.path.exists(dst) or open(dst).read() != txt:
        with open(dst, 'w') as f:
            f.write(txt)
    return True, 'ok'


if __name__ == '__main__':
    print(generate())
