"""Fail-closed translator tie for C16: /repo source -> coq/theories/Gen/BatchGen.v (regenerated on every run of ./check C16).

C16 hangs on a handful of ISOLATION POINTS of the code.  They are matched against templates / checked on the ast; what they
establish is emitted as (a) Gallina constants that select, in Model/Batch.v, which pipeline the code is — Proofs/BatchGen.v
proves the selected pipeline equal to the one the C16 theorems are about — and (b) comments recording the pure template
matches.  Any deviation raises Unsupported (the tie is reported broken); a change of a translated list changes the generated
term and breaks its lemma.  Reuses unify / match_template / find / strip_doc of harness/pygen.py and the templates of
harness/pygen_c13.py for the inner blocks.

  gnpy/topology/request.py
    compute_path_with_disjunction   skeleton of the request loop (three result lists, one append to each at the end of EVERY
                                    iteration, no continue / break / return inside); `total_path = deepcopy(pathlist[i])`,
                                    `rev_p = deepcopy(reversed_path)`; every propagate / propagate_and_optimize_mode call gets
                                    one of these copies; pathlist[i] itself only goes to deepcopy / find_reversed_path (and the
                                    redesign block)                                  -> g_copy_forward, g_copy_reverse, g_results_per_request
    propagate_and_optimize_mode     whole body (template of pygen_c13) incl. the list of amplifiers whose designed gain is
                                    recorded and written back at the top of every (baud, offset) iteration   -> g_restores_gains
    compute_path_dsjctn             split simple / synchronised requests; the vector order `dlist = dis.disjunctions_req.copy()`;
                                    step 3 (pruning loop over concerned_d_id only) literally;
                                    the final loop: each non-synchronised request gets compute_constrained_path(network, req)
                                    of its own (no value carried from one request to the next)               -> g_route_memo
    explicit_path                   whole body: the explicit route is built in a NEW list ([source] + oms0.el_list ...), the OMS
                                    objects attached to the network elements are only read                    -> g_explicit_path_new_list
    compare_reqs                    the conjunction of `req1.x == req2.x` (+ same_disj) that makes two requests twins
                                                                                     -> g_compared_fields (translated: the list)
  gnpy/topology/topology_parameters.py
    BaseParams.update_attr          list AND dict defaults are deep-copied per instance                       -> comment
  gnpy/core/science_utils.py        no statement stores into sim_params / nli_params / raman_params / SimParams; the two
                                    `computed_number_of_channels` fragments read it into a local              -> g_writes_sim_params
  gnpy/tools/worker_utils.py
    planning                        whole body: the order of the steps and `redesign=redesign` (default False)  -> g_pipeline (translated: call order)
"""
import ast
import os

from . import common
from .pygen import Unsupported, unify, match_template, find, strip_doc
from . import pygen_c13


def src(n):
    return ast.unparse(n)


def windows(root, template_src):
    """all windows of consecutive statements below root that match the template"""
    tmpl = ast.parse(template_src).body
    hits = []
    for node in ast.walk(root):
        for field in ('body', 'orelse', 'finalbody'):
            blk = getattr(node, field, None)
            if not isinstance(blk, list) or not blk or not isinstance(blk[0], ast.stmt):
                continue
            for k in range(len(blk) - len(tmpl) + 1):
                binds = {}
                if unify(tmpl, blk[k:k + len(tmpl)], binds):
                    hits.append(binds)
    return hits


def find_block(root, template_src, what, count=1):
    hits = windows(root, template_src)
    if len(hits) != count:
        raise Unsupported(f'{what}: expected {count} occurrence(s) of the fragment, found {len(hits)}')
    return hits[0]


def parents(root):
    par = {}
    for node in ast.walk(root):
        for ch in ast.iter_child_nodes(node):
            par[ch] = node
    return par


# ------------------------------------------------------------------ compute_path_with_disjunction
def gen_cpwd(tree, out):
    fn = find(tree, 'compute_path_with_disjunction')
    body = strip_doc(fn.body)
    head = [src(s) for s in body[:4]]
    if head != ['path_res_list = []', 'reversed_path_res_list = []', 'propagated_reversed_path_res_list = []',
                'total_nb_requests = len(pathreqlist)']:
        raise Unsupported('compute_path_with_disjunction: the three result lists')
    if not (len(body) == 7 and isinstance(body[4], ast.If) and src(body[4].test) == 'redesign' and not body[4].orelse
            and isinstance(body[5], ast.For) and src(body[5].target) == '(i, pathreq)'
            and src(body[5].iter) == 'enumerate(pathreqlist)' and not body[5].orelse
            and src(body[6]) == 'return (path_res_list, reversed_path_res_list, propagated_reversed_path_res_list)'):
        raise Unsupported('compute_path_with_disjunction: skeleton (lists, redesign warning, request loop, return)')
    loop = body[5]
    for n in ast.walk(loop):
        if isinstance(n, (ast.Continue, ast.Break, ast.Return)):
            raise Unsupported(f'compute_path_with_disjunction: `{type(n).__name__.lower()}` inside the request loop '
                              '(an iteration could end without its three results)')
    lb = loop.body
    tail = [src(s) for s in lb[-3:]]
    if tail != ['path_res_list.append(total_path)', 'reversed_path_res_list.append(reversed_path)',
                'propagated_reversed_path_res_list.append(propagated_reversed_path)']:
        raise Unsupported('compute_path_with_disjunction: the three appends at the end of every iteration')
    for lst in ('path_res_list', 'reversed_path_res_list', 'propagated_reversed_path_res_list'):
        n = sum(1 for x in ast.walk(loop) if isinstance(x, ast.Call) and src(x.func) == lst + '.append')
        if n != 1:
            raise Unsupported(f'compute_path_with_disjunction: {n} appends to {lst} in the loop')
    # loop body: msg; if redesign: ...; total_path = deepcopy(pathlist[i]); msg; LOGGER.info; if total_path: ... else: ...
    if not (len(lb) == 9 and isinstance(lb[1], ast.If) and src(lb[1].test) == 'redesign' and not lb[1].orelse
            and src(lb[2]) == 'total_path = deepcopy(pathlist[i])' and isinstance(lb[5], ast.If)
            and src(lb[5].test) == 'total_path'):
        raise Unsupported('compute_path_with_disjunction: body of the request loop (copy of the path, `if total_path:`)')
    redesign_blk, guard = lb[1], lb[5]
    if len(guard.orelse) != 4 or [src(s) for s in guard.orelse[2:]] != ['reversed_path = []', 'propagated_reversed_path = []']:
        raise Unsupported('compute_path_with_disjunction: the empty-path branch must define both reverse results')
    # inner blocks: the templates of the C13 tie (fixed-mode A->Z, selected-mode bookkeeping, Z->A with its own deepcopy)
    gb = guard.body
    fixed = [s for s in gb if isinstance(s, ast.If) and src(s.test) == 'pathreq.baud_rate is not None']
    rev = [s for s in gb if isinstance(s, ast.If) and src(s.test) == 'pathreq.bidir and pathreq.baud_rate is not None']
    if len(gb) != 3 or len(fixed) != 1 or len(rev) != 1 or src(gb[1]) != 'reversed_path = find_reversed_path(pathlist[i])':
        raise Unsupported('compute_path_with_disjunction: blocks of `if total_path:`')
    match_template(pygen_c13.FWD_TEMPLATE, fixed[0].body, 'A->Z propagation of a request with a mode')
    match_template(pygen_c13.AUTO_TEMPLATE, fixed[0].orelse, 'A->Z propagation of a request without mode')
    match_template(pygen_c13.REV_TEMPLATE, rev[0].body, 'Z->A propagation')
    if [src(s) for s in rev[0].orelse] != ['propagated_reversed_path = []']:
        raise Unsupported('compute_path_with_disjunction: else-branch of the Z->A block')
    # data flow: what the propagations receive, where pathlist[i] goes
    par = parents(loop)
    copies = {'total_path', 'rev_p'}
    ncall = 0
    for n in ast.walk(loop):
        if isinstance(n, ast.Call) and src(n.func) in ('propagate', 'propagate_and_optimize_mode'):
            ncall += 1
            if not n.args or src(n.args[0]) not in copies:
                raise Unsupported(f'compute_path_with_disjunction: {src(n.func)} is called on `{src(n.args[0]) if n.args else ""}`, '
                                  'not on the per-request copy')
    if ncall != 3:
        raise Unsupported(f'compute_path_with_disjunction: {ncall} propagation calls in the loop (expected 3)')
    in_redesign = {id(x) for x in ast.walk(redesign_blk)}
    for n in ast.walk(loop):
        if isinstance(n, ast.Subscript) and src(n) == 'pathlist[i]' and id(n) not in in_redesign:
            p = par[n]
            if not (isinstance(p, ast.Call) and src(p.func) in ('deepcopy', 'find_reversed_path') and len(p.args) == 1):
                raise Unsupported(f'compute_path_with_disjunction: pathlist[i] used in `{src(p)[:80]}`')
    for var, rhs in (('total_path', {'deepcopy(pathlist[i])', 'propagate_and_optimize_mode(total_path, pathreq, equipment)', '[]'}),
                     ('rev_p', {'deepcopy(reversed_path)'})):
        for n in ast.walk(loop):
            if isinstance(n, ast.Assign):
                for t in n.targets:
                    names = [src(x) for x in (t.elts if isinstance(t, ast.Tuple) else [t])]
                    if var in names and src(n.value) not in rhs:
                        raise Unsupported(f'compute_path_with_disjunction: {var} = {src(n.value)[:60]}')
    out.append('(* gnpy/topology/request.py: compute_path_with_disjunction.  Matched: three result lists; request loop without')
    out.append('   continue / break / return, ending with exactly one append to each list (empty-path branch included);')
    out.append('   total_path = deepcopy(pathlist[i]); rev_p = deepcopy(reversed_path); the 3 propagate / propagate_and_optimize_mode')
    out.append('   calls receive total_path / rev_p; pathlist[i] only goes to deepcopy / find_reversed_path (and the redesign block). *)')
    out.append('Definition g_copy_forward : bool := true.')
    out.append('Definition g_copy_reverse : bool := true.')
    out.append('Definition g_results_per_request : Z := 1.\n')


AMPS_EXPR = ("[el for el in path if isinstance(el, Edfa)] + "
             "[amp for el in path if isinstance(el, Multiband_amplifier) for amp in el.amplifiers.values()]")


def gen_pom(tree, out):
    b = match_template(pygen_c13.POM_TEMPLATE, strip_doc(find(tree, 'propagate_and_optimize_mode').body),
                       'propagate_and_optimize_mode')
    if src(b['H_amps']) != src(ast.parse(AMPS_EXPR).body[0].value):
        raise Unsupported('propagate_and_optimize_mode: the amplifiers whose designed gain is restored are not all those of the path')
    out.append('(* gnpy/topology/request.py: propagate_and_optimize_mode.  Matched (template of the C13 tie): the designed effective_gain')
    out.append('   of every Edfa of the path and of every band amplifier of its Multiband_amplifiers is recorded before the loop and')
    out.append('   written back (`for amp, gain in zip(amps, designed_gains): amp.effective_gain = gain`) first thing in every iteration. *)')
    out.append('Definition g_restores_gains : bool := true.\n')


DSJ_HEAD = """
global_disjunctions_list = [e for d in disjunctions_list for e in d.disjunctions_req]
pathreqlist_simple = [e for e in pathreqlist if e.request_id not in global_disjunctions_list]
pathreqlist_disjt = [e for e in pathreqlist if e.request_id in global_disjunctions_list]
"""
DSJ_VECTOR = """
dlist = dis.disjunctions_req.copy()
"""
DSJ_STEP3 = """
for pathreq in pathreqlist_disjt:
    concerned_d_id = [d.disjunction_id for d in disjunctions_list if pathreq.request_id in d.disjunctions_req]
    candidate_paths = simple_rqs[pathreq.request_id]
    for pth in candidate_paths:
        iscandidate = 0
        for sol in concerned_d_id:
            test = 1
            for cndt in candidates[sol]:
                if pth in cndt:
                    if allpaths[id(cndt[cndt.index(pth)])].req.request_id == pathreq.request_id:
                        test = 0
                        break
            iscandidate += test
        if iscandidate != 0:
            for this_id in concerned_d_id:
                for cndt in candidates[this_id]:
                    if pth in cndt:
                        candidates[this_id].remove(cndt)
"""
DSJ_TAIL = """
for req in pathreqlist:
    req.nodes_list.append(req.destination)
    req.loose_list.append('STRICT')
    if req in pathreqlist_simple:
        path_res_list.append(compute_constrained_path(network, req))
    else:
        path_res_list.append(pathreslist_disjoint[req])
return path_res_list
"""


def gen_dsjctn(tree, out):
    fn = find(tree, 'compute_path_dsjctn')
    find_block(fn, DSJ_HEAD, 'compute_path_dsjctn: simple / synchronised split')
    find_block(fn, DSJ_VECTOR, 'compute_path_dsjctn: order of the requests of a synchronization vector')
    find_block(fn, DSJ_STEP3, 'compute_path_dsjctn: step 3 (a non-candidate route is pruned from the vectors of ITS request only)')
    find_block(fn, DSJ_TAIL, 'compute_path_dsjctn: final loop')
    body = strip_doc(fn.body)
    if src(body[-1]) != 'return path_res_list' or not isinstance(body[-2], ast.For) or src(body[-2].iter) != 'pathreqlist':
        raise Unsupported('compute_path_dsjctn: the final loop is not the end of the function')
    # the vector loop iterates the vectors, and inside it the requests are taken from dlist (vector order) only
    vec = [n for n in ast.walk(fn) if isinstance(n, ast.For) and src(n.iter) == 'disjunctions_list']
    if not vec or sum(1 for v in vec if windows(v, DSJ_VECTOR)) != 1:
        raise Unsupported('compute_path_dsjctn: loop over the synchronization vectors')
    for v in vec:
        if not windows(v, DSJ_VECTOR):
            continue                # later loops use pathreqlist_disjt as the SET of requests still to serve (membership / remove)
        for n in ast.walk(v):
            if isinstance(n, ast.Name) and n.id in ('pathreqlist', 'pathreqlist_disjt', 'pathreqlist_simple'):
                raise Unsupported('compute_path_dsjctn: the combination of a vector looks at the batch list')
            if isinstance(n, (ast.For, ast.comprehension)) and src(n.iter) in ('simple_rqs', 'rqs', 'simple_rqs.keys()',
                                                                                'simple_rqs.items()', 'rqs.items()'):
                raise Unsupported('compute_path_dsjctn: the combination of a vector iterates the dict of candidate routes '
                                  '(batch order) instead of the vector')
    calls = [n for n in ast.walk(fn) if isinstance(n, ast.Call) and src(n.func) == 'compute_constrained_path']
    if len(calls) != 1:
        raise Unsupported('compute_path_dsjctn: compute_constrained_path must be called once, in the final loop')
    out.append('(* gnpy/topology/request.py: compute_path_dsjctn.  Matched: requests split by membership of a synchronization vector;')
    out.append('   the requests of a vector are taken in the order of the vector (dis.disjunctions_req.copy()) and the vector loop never')
    out.append('   looks at the batch list; step 3 prunes a route that is no candidate for a request from the candidates of the vectors')
    out.append('   that request belongs to (concerned_d_id), never from another vector;')
    out.append('   final loop: every non-synchronised request gets compute_constrained_path(network, req),')
    out.append('   the only call, nothing kept from one request to the next. *)')
    out.append('Definition g_route_memo : bool := false.\n')


def gen_compare(tree, out):
    fn = find(tree, 'compare_reqs')
    last = strip_doc(fn.body)[-1]
    if not (isinstance(last, ast.If) and isinstance(last.test, ast.BoolOp) and isinstance(last.test.op, ast.And)
            and [src(s) for s in last.body] == ['return True'] and [src(s) for s in last.orelse] == ['return False']):
        raise Unsupported('compare_reqs: final `if <conjunction>: return True else: return False`')
    fields = []
    for c in last.test.values[:-1]:
        if not (isinstance(c, ast.Compare) and len(c.ops) == 1 and isinstance(c.ops[0], ast.Eq)
                and isinstance(c.left, ast.Attribute) and isinstance(c.comparators[0], ast.Attribute)
                and src(c.left.value) == 'req1' and src(c.comparators[0].value) == 'req2'
                and c.left.attr == c.comparators[0].attr):
            raise Unsupported(f'compare_reqs: conjunct `{src(c)}` is not req1.x == req2.x')
        fields.append(c.left.attr)
    if src(last.test.values[-1]) != 'same_disj':
        raise Unsupported('compare_reqs: last conjunct is not same_disj')
    out.append('(* gnpy/topology/request.py: compare_reqs.  Translated: the attributes on which two requests must agree (in')
    out.append('   addition to the shape of their synchronization vectors) to be aggregated into one. *)')
    out.append('Definition g_compared_fields : list string :=\n  [' + '; '.join(f'"{f}"%string' for f in fields) + '].\n')


EXPLICIT_PATH = """
path_oms = []
for elem in node_list:
    if hasattr(elem, 'oms'):
        path_oms.append(elem.oms)
if not path_oms:
    return None
path_oms = unique_ordered(path_oms)
try:
    next_node = next(network.successors(source))
    source_roadm = next_node if isinstance(next_node, Roadm) else source
    previous_node = next(network.predecessors(destination))
    destination_roadm = previous_node if isinstance(previous_node, Roadm) else destination
    if not (path_oms[0].el_list[0] == source_roadm and path_oms[-1].el_list[-1] == destination_roadm):
        return None
except StopIteration:
    return None
oms0 = path_oms[0]
path = [source] + oms0.el_list
for oms in path_oms[1:]:
    if not is_adjacent(oms0, oms):
        return None
    oms0 = oms
    path.extend(oms.el_list)
path.append(destination)
path = unique_ordered(path)
if path[-1] is not destination or not all(network.has_edge(a, b) for a, b in pairwise(path)) \
        or not ispart(node_list, path):
    return None
return path
"""


def gen_explicit_path(tree, out):
    fn = find(tree, 'explicit_path')
    match_template(EXPLICIT_PATH, strip_doc(fn.body), 'explicit_path')
    # the OMS objects hang on the network elements: nothing of them may be written (the route is built in a NEW list)
    for n in ast.walk(fn):
        tg = n.targets if isinstance(n, (ast.Assign, ast.Delete)) else [n.target] if isinstance(n, (ast.AugAssign, ast.AnnAssign)) else []
        for t in tg:
            if any(isinstance(x, ast.Attribute) for x in ast.walk(t)):
                raise Unsupported(f'explicit_path: `{src(n)[:80]}` writes an attribute')
    out.append('(* gnpy/topology/request.py: explicit_path.  Matched: whole body; the route is `[source] + oms0.el_list` (a NEW list),')
    out.append('   extended with the el_list of the following adjacent OMS; no attribute of an element or OMS is assigned. *)')
    out.append('Definition g_explicit_path_new_list : bool := true.\n')


UPDATE_ATTR = """
clean_kwargs = {k: v for k, v in kwargs.items() if v != ''}
for k, v in self.default_values.items():
    if isinstance(v, (list, dict)):
        setattr(self, k, clean_kwargs.get(k, deepcopy(v)))
    else:
        setattr(self, k, clean_kwargs.get(k, v))
"""


def gen_params(tree, out):
    match_template(UPDATE_ATTR, strip_doc(find(tree, 'BaseParams.update_attr').body), 'BaseParams.update_attr')
    out.append('(* gnpy/topology/topology_parameters.py: BaseParams.update_attr.  Matched: list and dict defaults are deep-copied for')
    out.append('   every instance (no PathRequest shares nodes_list / loose_list with another one). *)\n')


GGN_FRAGMENT = """
nb_ch_computed = sim_params.nli_params.computed_number_of_channels
nb_ch = len(spectral_info.channel_number)
cut_indices = array([round(i * (nb_ch - 1) / (nb_ch_computed - 1)) for i in range(0, nb_ch_computed)])
"""
SHARED = ('sim_params', 'nli_params', 'raman_params', 'SimParams', '_shared_dict')


def gen_science(tree, elements_tree, out):
    for name, t in (('science_utils.py', tree), ('elements.py', elements_tree)):
        for n in ast.walk(t):
            targets = []
            if isinstance(n, ast.Assign):
                targets = n.targets
            elif isinstance(n, (ast.AugAssign, ast.AnnAssign)):
                targets = [n.target]
            elif isinstance(n, ast.Delete):
                targets = n.targets
            for tg in targets:
                for x in ast.walk(tg):
                    if isinstance(x, (ast.Attribute, ast.Subscript)) and any(w in src(x) for w in SHARED):
                        raise Unsupported(f'{name}: `{src(n)[:90]}` stores into the process-wide simulation parameters')
            if isinstance(n, ast.Call) and (src(n.func).endswith('set_params') or src(n.func) == 'setattr'
                                            and n.args and any(w in src(n.args[0]) for w in SHARED)):
                raise Unsupported(f'{name}: `{src(n)[:90]}` changes the process-wide simulation parameters')
    find_block(find(tree, 'NliSolver.compute_nli'), GGN_FRAGMENT,
               'NliSolver.compute_nli: reduced number of channels read into a local', count=2)
    out.append('(* gnpy/core/science_utils.py, gnpy/core/elements.py.  Checked: no assignment / augmented assignment / del / setattr /')
    out.append('   set_params targets sim_params, nli_params, raman_params or SimParams; both GGN branches of compute_nli read')
    out.append('   computed_number_of_channels into the local nb_ch_computed. *)')
    out.append('Definition g_writes_sim_params : bool := false.\n')


PLANNING = """
oms_list = build_oms_list(network, equipment)
rqs = requests_from_json(data, equipment)
check_request_path_ids(rqs)
rqs = correct_json_route_list(network, rqs)
dsjn = disjunctions_from_json(data)
H_l1
dsjn = deduplicate_disjunctions(dsjn)
H_l2
rqs, dsjn = requests_aggregation(rqs, dsjn)
H_l3
pths = compute_path_dsjctn(network, equipment, rqs, dsjn)
H_l4
propagatedpths, reversed_pths, reversed_propagatedpths = \\
    compute_path_with_disjunction(network, equipment, rqs, pths, redesign=redesign)
pth_assign_spectrum(pths, rqs, oms_list, reversed_pths, policy=user_policy)
for i, rq in enumerate(rqs):
    if hasattr(rq, 'OSNR') and rq.OSNR:
        rq.osnr_with_sys_margin = rq.OSNR + equipment['SI']['default'].sys_margins
result = [ResultElement(rq, pth, rpth) for rq, pth, rpth in zip(rqs, propagatedpths, reversed_propagatedpths)]
return oms_list, propagatedpths, reversed_propagatedpths, rqs, dsjn, result
"""


def gen_planning(tree, out):
    fn = find(tree, 'planning')
    names = [a.arg for a in fn.args.args]
    if names != ['network', 'equipment', 'data', 'redesign', 'user_policy'] or len(fn.args.defaults) != 2 \
            or src(fn.args.defaults[0]) != 'False':
        raise Unsupported('planning: parameters (redesign must default to False)')
    b = match_template(PLANNING, strip_doc(fn.body), 'planning')
    for k in ('H_l1', 'H_l2', 'H_l3', 'H_l4'):
        if not src(b[k]).startswith('logger.info('):
            raise Unsupported(f'planning: `{src(b[k])[:60]}` between the steps')
    steps = []
    for s in strip_doc(fn.body):
        for n in ast.walk(s):
            if isinstance(n, ast.Call) and isinstance(n.func, ast.Name) and n.func.id in (
                    'build_oms_list', 'requests_from_json', 'correct_json_route_list', 'requests_aggregation',
                    'compute_path_dsjctn', 'compute_path_with_disjunction', 'pth_assign_spectrum'):
                steps.append(n.func.id)
    out.append('(* gnpy/tools/worker_utils.py: planning.  Matched: whole body; redesign defaults to False and is only handed on.')
    out.append('   Translated: the order of the steps (all routes, then all propagations, then the spectrum fold). *)')
    out.append('Definition g_pipeline : list string :=\n  [' + '; '.join(f'"{s}"%string' for s in steps) + '].\n')


def generate(repo=None):
    repo = repo or common.REPO

    def tree(p):
        return ast.parse(open(os.path.join(repo, p)).read())
    out = ['(* GENERATED on every run by harness/pygen_c16.py from gnpy/topology/request.py, gnpy/topology/topology_parameters.py,',
           '   gnpy/core/science_utils.py, gnpy/core/elements.py and gnpy/tools/worker_utils.py of /repo - do not edit. *)',
           'From Verif Require Import Prelude.', 'Open Scope Z_scope.', '']
    rq = tree('gnpy/topology/request.py')
    gen_cpwd(rq, out)
    gen_pom(rq, out)
    gen_dsjctn(rq, out)
    gen_explicit_path(rq, out)
    gen_compare(rq, out)
    gen_params(tree('gnpy/topology/topology_parameters.py'), out)
    gen_science(tree('gnpy/core/science_utils.py'), tree('gnpy/core/elements.py'), out)
    gen_planning(tree('gnpy/tools/worker_utils.py'), out)
    return '\n'.join(out)


def regenerate():
    """(Re)write coq/theories/Gen/BatchGen.v when its content changed. Returns (ok, message)."""
    dst = os.path.join(common.COQ, 'theories', 'Gen', 'BatchGen.v')
    try:
        txt = generate()
    except (Unsupported, SyntaxError, OSError) as e:
        return False, f'translation failed: {type(e).__name__}: {e}'
    os.makedirs(os.path.dirname(dst), exist_ok=True)
    if not os.path.exists(dst) or open(dst).read() != txt:
        with open(dst, 'w') as f:
            f.write(txt)
    return True, 'ok'


if __name__ == '__main__':
    print(generate())
