"""C09 — designed gains close the power budget and follow the documented power rule.

Tie: random networks (ROADM meshes and point-to-point lines; fibre / fused spans; explicit amplifiers with full,
partial or no operator settings; boosters/preamps/in-line amplifiers left to auto-design) x random Span / SI / ROADM
configurations (power and gain mode, delta_power_range, slope, reference, padding, EOL, connectors, VOA margin/step,
extended gain, the three ROADM equalisation policies, per-degree targets) x random amplifier libraries are designed by
the real gnpy (`add_missing_elements_in_network` + `design_network`).  Every OMS, as it is *before* build_network
touches it, is handed to the Gallina model `Verif.Model.PowerDesign` (connectors/EOL, padding, span losses, power
rule, saturation, VOA, selection) and all designed values are compared.  Independently the property is evaluated on
the implementation: the design comb is propagated through every OMS and the *signal* power after every amplifier and
ROADM is compared with reference power + designed offset (oracle), and the designed values are checked against the
documented rule.  The for-all part is Props/C09.v.
"""
import copy
import glob
import json
import logging
import math
import os
from fractions import Fraction

from . import common
from .common import qlit, listlit, strlit
from . import c10
from .c10 import slist

TOL = 1e-9
SIG_TOL = 1e-6          # dB, oracle on propagated signal power (phase-1 measurement < 1e-6 dB)


# ------------------------------------------------------------------ generator
def gen_span(rng):
    step = rng.choice([0.5, 0.5, 0.5, 0.1, 0.2, 1, 0.25, 0, 0.05, 0.3])
    # the allowed offsets, at every position relative to 0: around it, ending / starting at it, entirely above, entirely
    # below, a single value (0 or not), bounds in the wrong order
    u = rng.random()
    if u < 0.5:
        lo, hi = rng.choice([-2, -2, -3, -1, -0.5, -6]), rng.choice([3, 3, 2, 1, 0.5, 6])
    elif u < 0.6:
        lo, hi = rng.choice([(0, 3), (0, 1), (-2, 0), (-6, 0), (0, 0.5)])
    elif u < 0.72:
        lo, hi = rng.choice([(1, 3), (0.5, 2), (2, 6), (0.25, 1)])
    elif u < 0.84:
        lo, hi = rng.choice([(-3, -1), (-2, -0.5), (-6, -2), (-1, -0.25)])
    elif u < 0.95:
        lo, hi = rng.choice([(0, 0), (0, 0), (1, 1), (-2, -2), (0.5, 0.5)])
    else:
        lo, hi = rng.choice([(3, -2), (1, 0), (0, -1), (2, 1)])
    dpr = [lo, hi, step]
    if rng.random() < 0.03:
        dpr = dpr[:2]                                  # malformed stream: ConfigurationError expected
    return {
        'power_mode': rng.random() < 0.65,
        'delta_power_range_db': dpr,
        'max_fiber_lineic_loss_for_raman': rng.choice([0.25, 0.25, 0.2, 0.22, 0.3]),
        'target_extended_gain': rng.choice([2.5, 2.5, 0, 1, 3.5]),
        'max_length': rng.choice([150, 150, 120, 200]),
        'length_units': 'km',
        'max_loss': 28,
        'padding': rng.choice([10, 10, 10, 8, 12, 15, 0, 11.5]),
        'EOL': rng.choice([0, 0, 0, 0.5, 1, 1.5, 3]),
        'con_in': rng.choice([0, 0, 0.5, 0.25, 1]),
        'con_out': rng.choice([0, 0, 0.5, 0.25, 1]),
        'span_loss_ref': rng.choice([20.0, 20.0, 20.0, 18.0, 22.5]),
        'power_slope': rng.choice([0.3, 0.3, 0.3, 1 / 3, 0.25, 0.5, 0]),
        'voa_margin': rng.choice([1, 1, 1, 0.5, 2, 0.25]),
        'voa_step': rng.choice([0.5, 0.5, 0.5, 0.1, 1, 0.25]),
    }


def gen_si(rng):
    spacing = rng.choice([50e9, 50e9, 75e9, 100e9, 37.5e9])
    nch = rng.choice([4, 6, 8, 10, 12, 16, 20, 24, 32, 40])
    f_min = rng.choice([191.3e12, 191.35e12, 192.0e12, 193.0e12])
    f_max = f_min + nch * spacing + rng.choice([0, 0, spacing / 4])
    while f_max > 196.05e12:
        nch -= 2
        f_max = f_min + nch * spacing
    si = {'f_min': f_min, 'f_max': f_max, 'baud_rate': min(32e9, spacing * 0.8), 'spacing': spacing,
          'power_dbm': rng.choice([0, 0, 0, 1, -1, 2, 3, -2.5, 0.7]), 'power_range_db': [0, 0, 1], 'roll_off': 0.15,
          'tx_osnr': 40, 'sys_margins': 2,
          'use_si_channel_count_for_design': rng.random() < 0.7}
    r = rng.random()
    if r < 0.4:
        si['tx_power_dbm'] = si['power_dbm']
    elif r < 0.7:
        si['tx_power_dbm'] = rng.choice([0, -1, 1.5, 3, -4])
    return si


def gen_roadm_lib(rng, names, good=None):
    """equipment['Roadm']: the default entry and one more type, each with a policy and (sometimes) restriction lists"""
    def policy():
        r = rng.random()
        if r < 0.6:
            return {'target_pch_out_db': rng.choice([-20, -20, -18, -22, -17.5, -25, -12])}
        if r < 0.8:
            return {'target_psd_out_mWperGHz': rng.choice([3.125e-4, 2.0e-4, 5.0e-4, 7.8125e-4])}
        return {'target_out_mWperSlotWidth': rng.choice([2.0e-4, 1.25e-4, 4.0e-4])}

    def restr():
        out = {'preamp_variety_list': [], 'booster_variety_list': []}
        for k in out:
            if rng.random() < 0.3:
                pool = good if good and rng.random() < 0.85 else names
                out[k] = rng.sample(pool, min(len(pool), rng.choice([1, 2, 3])))
        return out
    lib = []
    for tv in (None, 'r1'):
        e = dict(policy(), add_drop_osnr=38, pmd=0, pdl=0, restrictions=restr())
        if tv:
            e['type_variety'] = tv
            e['roadm-path-impairments'] = []
        lib.append(e)
    return lib


def gen_operational(rng, span, pref_total_hint):
    op = {}
    style = rng.random()
    if style < 0.3:
        pass                                            # no settings
    elif style < 0.65:                                  # full settings
        op['gain_target'] = rng.choice([10, 12, 15, 17.5, 20, 22, 25, 30, 8.25])
        op['delta_p'] = rng.choice([-2, -1, 0, 0.5, 1, 2, 3, 5, -3.5])
        op['out_voa'] = rng.choice([0, 0, 1, 0.5, 2, None])
        op['tilt_target'] = 0
    else:                                               # partial
        if rng.random() < 0.5:
            op['gain_target'] = rng.choice([None, 12, 16, 19.5, 24, 28])
        if rng.random() < 0.5:
            op['delta_p'] = rng.choice([None, -2, 0, 1, 2.5, 4, 8])
        if rng.random() < 0.4:
            op['out_voa'] = rng.choice([None, 0, 1, 1.5, 3])
    if rng.random() < 0.2:
        op['in_voa'] = rng.choice([None, 0, 0.5, 1, 2])
    return op


def gen_edfa_el(rng, uid, libnames, imposable, span):
    el = {'uid': uid, 'type': 'Edfa'}
    r = rng.random()
    if r < 0.45 and imposable:
        el['type_variety'] = rng.choice(imposable)
    elif r < 0.6:
        pool = imposable if imposable and rng.random() < 0.85 else libnames
        el['variety_list'] = rng.sample(pool, min(len(pool), rng.choice([1, 2, 3])))
    el['operational'] = gen_operational(rng, span, None)
    return el


def gen_fiber_el(rng, uid, short=False, vector_loss=False, raman=False):
    length = rng.choice([rng.uniform(1, 40), rng.uniform(30, 90), rng.uniform(60, 135), rng.choice([20, 40, 50, 80, 100])])
    if short:
        length = rng.uniform(1, 45)
    if rng.random() < 0.03:
        length = rng.uniform(150, 420)                   # gets split by add_missing_elements (C08)
    p = {'length': round(length, rng.choice([0, 1, 3])), 'length_units': 'km',
         'loss_coef': rng.choice([0.2, 0.2, 0.2, 0.19, 0.21, 0.22, 0.25, 0.26, 0.3, 0.185])}
    if vector_loss and rng.random() < 0.15:
        # loss coefficient given per frequency, samples on both sides of the usual Raman limits (selection only: the
        # propagation oracle of C09 assumes frequency-flat fibres)
        base = rng.choice([0.2, 0.22, 0.25, 0.3])
        p['loss_coef'] = {'value': [round(base + d, 3) for d in rng.choice([(-0.015, 0.0, 0.012), (-0.02, -0.01, -0.002),
                                                                             (0.004, 0.01, 0.02), (0.01, -0.004, -0.02)])],
                          'frequency': [191.0e12, 193.5e12, 196.5e12]}
    for k in ('con_in', 'con_out'):
        r = rng.random()
        if r < 0.45:
            p[k] = None
        elif r < 0.9:
            p[k] = rng.choice([0, 0.25, 0.5, 0.5, 1, 1.2])
    if rng.random() < 0.12:
        p['att_in'] = rng.choice([0, 1, 2, 3.5])
    if rng.random() < 0.05 and p['length'] > 4:
        p['lumped_losses'] = [{'position': round(p['length'] / 2, 3), 'loss': rng.choice([0.5, 1, 2])}]
    if raman:
        # a RamanFiber needs its connectors at construction; scalar loss coefficient, 50-120 km, counter-propagating pumps
        p['length'] = round(rng.uniform(50, 120), 1)
        p['loss_coef'] = rng.choice([0.2, 0.19, 0.21, 0.22])
        p['con_in'] = rng.choice([0, 0.5])
        p['con_out'] = rng.choice([0, 0.5])
        p.pop('lumped_losses', None)
        k = rng.choice([0.6, 0.8, 1.0, 1.2])
        return {'uid': uid, 'type': 'RamanFiber', 'type_variety': 'SSMF', 'params': p,
                'operational': {'temperature': 283,
                                'raman_pumps': [{'power': round(0.2 * k, 4), 'frequency': 205e12, 'propagation_direction': 'counterprop'},
                                                {'power': round(0.206 * k, 4), 'frequency': 201e12, 'propagation_direction': 'counterprop'}]}}
    return {'uid': uid, 'type': 'Fiber', 'type_variety': 'SSMF', 'params': p}


def gen_line(rng, tag, libnames, imposable, span, from_roadm, to_roadm, vector_loss=False):
    """elements (JSON) of one direction of a link, in order, without the end nodes"""
    els = []
    k = [0]

    def uid(kind):
        k[0] += 1
        return f'{kind} {tag} {k[0]}'
    if from_roadm:
        r = rng.random()
        if r < 0.45:
            els.append(gen_edfa_el(rng, uid('booster'), libnames, imposable, span))
        elif r < 0.55:
            els.append({'uid': uid('fused'), 'type': 'Fused', 'params': {'loss': rng.choice([0, 0.5, 1, 2])}})
    nspans = rng.choice([1, 1, 2, 2, 3, 4])
    for s in range(nspans):
        shape = rng.random()
        short = rng.random() < 0.25
        ram = rng.random() < 0.06
        if rng.random() < 0.12:
            # a short span spliced from 2-3 fibres through Fused nodes: the padding goes to the FIRST fibre, the cached
            # design loss lives on the LAST one
            for j in range(rng.choice([2, 2, 3])):
                if j:
                    els.append({'uid': uid('fused'), 'type': 'Fused', 'params': {'loss': rng.choice([0, 0.2, 0.5])}})
                f_ = gen_fiber_el(rng, uid('fiber'), True)
                f_['params']['length'] = round(rng.uniform(1, 14), 1)
                f_['params'].pop('lumped_losses', None)
                els.append(f_)
        elif shape < 0.7:
            els.append(gen_fiber_el(rng, uid('fiber'), short, vector_loss and not ram, raman=ram))
        elif shape < 0.85:
            els.append(gen_fiber_el(rng, uid('fiber'), short, vector_loss))
            els.append({'uid': uid('fused'), 'type': 'Fused', 'params': {'loss': rng.choice([0.3, 0.5, 1, 1.5])}})
            if rng.random() < 0.3:
                els.append({'uid': uid('fused'), 'type': 'Fused', 'params': {'loss': rng.choice([0.2, 1])}})
            els.append(gen_fiber_el(rng, uid('fiber'), True, vector_loss and not ram, raman=ram))
        else:
            els.append(gen_fiber_el(rng, uid('fiber'), short, vector_loss))
            els.append({'uid': uid('fused'), 'type': 'Fused', 'params': {'loss': rng.choice([0.3, 0.5, 1])}})
        last = s == nspans - 1
        if not last or to_roadm or rng.random() < 0.6:
            if rng.random() < (0.5 if not last else 0.45):
                els.append(gen_edfa_el(rng, uid('amp'), libnames, imposable, span))
                if rng.random() < 0.06:
                    els.append(gen_edfa_el(rng, uid('amp'), libnames, imposable, span))   # two amplifiers in a row
    return els


def gen_case(rng, for_c10=False):
    lib = c10.gen_library(rng, n=rng.choice([3, 4, 5, 6, 8, 10]))
    # C09 propagates the design comb: flat amplifiers only (no ripple profile); make sure auto-design has a choice
    for e in lib:
        if e['type_def'] == 'advanced_model' and not for_c10:
            e['type_def'] = 'fixed_gain'
            e.pop('advanced_config_from_json')
            e['nf0'] = 5.5
    if rng.random() < 0.4:
        # a hybrid-like Raman model eligible for auto-design: wide gain range, quiet, moderate p_max
        gmin_ = rng.choice([10, 12, 15, 18, 22, 25])
        lib.insert(rng.randint(0, len(lib)),
                   {'type_variety': 'hyb', 'type_def': 'fixed_gain', 'raman': True, 'gain_min': gmin_,
                    'gain_flatmax': gmin_ + rng.choice([6, 8, 11]), 'p_max': rng.choice([14, 16, 18, 21, 23]),
                    'nf0': rng.choice([-1, 0.5, 2, 4]), 'out_voa_auto': rng.random() < 0.3, 'allowed_for_design': True})
    singles = [e for e in lib if e['type_def'] != 'multi_band']
    full = [e for e in singles if 'f_min' not in e or (e['f_min'] <= 191.3e12 and e['f_max'] >= 196.1e12)]
    for e in rng.sample(full, min(len(full), 2)):
        if not e.get('raman'):
            e['allowed_for_design'] = True
    libnames = [e['type_variety'] for e in singles]
    imposable = [e['type_variety'] for e in full]
    span = gen_span(rng)
    si = gen_si(rng)
    if rng.random() < 0.25:
        # high design load: reference power x channel count above the p_max of part of the library
        si['power_dbm'] = rng.choice([3, 4, 5, 6])
        if 'tx_power_dbm' in si:
            si['tx_power_dbm'] = si['power_dbm']
    roadm_lib = gen_roadm_lib(rng, libnames, imposable)
    els, cx = [], []
    nroadm = rng.choice([0, 2, 2, 2, 3, 3, 4])
    names = [chr(65 + i) for i in range(nroadm)]
    edges = set()
    order = names[:]
    rng.shuffle(order)
    for i in range(1, len(order)):
        edges.add(tuple(sorted((order[i], rng.choice(order[:i])))))
    if nroadm >= 3 and rng.random() < 0.4:
        a, b = rng.sample(names, 2)
        edges.add(tuple(sorted((a, b))))
    lines = {}
    for (a, b) in sorted(edges):
        for (s, t) in ((a, b), (b, a)):
            lines[(s, t)] = gen_line(rng, f'{s}{t}', libnames, imposable, span, True, True, for_c10)
    for x in names:
        rp = {}
        r = rng.random()
        if r < 0.35:
            rp['target_pch_out_db'] = rng.choice([-20, -18, -21.5, -15, -23])
        elif r < 0.45:
            rp['target_psd_out_mWperGHz'] = rng.choice([3.125e-4, 4.0e-4])
        elif r < 0.55:
            rp['target_out_mWperSlotWidth'] = rng.choice([2.0e-4, 3.0e-4])
        if rng.random() < 0.25:
            rr = {}
            for key in ('preamp_variety_list', 'booster_variety_list'):
                if rng.random() < 0.6:
                    pool = imposable if imposable and rng.random() < 0.85 else libnames
                    rr[key] = rng.sample(pool, min(len(pool), rng.choice([0, 1, 2])))
            rp['restrictions'] = rr
        # per-degree targets, keyed by the uid of the first element of the egress line
        for (s, t), l in lines.items():
            if s != x or rng.random() > 0.3:
                continue
            first = l[0]
            deg = first['uid'] if first['type'] not in ('Fiber', 'RamanFiber') else f"Edfa_booster_roadm {s}_to_{first['uid']}"
            kind = rng.choice(['per_degree_pch_out_db', 'per_degree_pch_out_db', 'per_degree_psd_out_mWperGHz',
                               'per_degree_psd_out_mWperSlotWidth'])
            rp.setdefault(kind, {})[deg] = {'per_degree_pch_out_db': rng.choice([-19, -17, -22.5, -14]),
                                            'per_degree_psd_out_mWperGHz': rng.choice([2.5e-4, 6.0e-4]),
                                            'per_degree_psd_out_mWperSlotWidth': rng.choice([1.5e-4, 3.5e-4])}[kind]
        # per-degree design band carrying its own spacing (the design channel count of the degree follows it)
        for (s, t), l in lines.items():
            if s != x or rng.random() > 0.3:
                continue
            first = l[0]
            deg = first['uid'] if first['type'] not in ('Fiber', 'RamanFiber') else f"Edfa_booster_roadm {s}_to_{first['uid']}"
            if first['type'] in ('Fiber', 'RamanFiber') and first['params']['length'] > 100:
                first['params']['length'] = round(rng.uniform(40, 100), 1)      # not split: the booster keeps this name
            lo = rng.choice([191.3e12, 191.4e12, 192.0e12])
            rp.setdefault('per_degree_design_bands', {})[deg] = [
                {'f_min': lo, 'f_max': lo + rng.choice([1.0e12, 2.4e12, 3.6e12, 4.0e12]),
                 'spacing': rng.choice([37.5e9, 50e9, 75e9, 100e9, 62.5e9])}]
        el = {'uid': f'roadm {x}', 'type': 'Roadm', 'params': rp}
        if rng.random() < 0.3:
            el['type_variety'] = 'r1'
        els += [{'uid': f'trx {x}', 'type': 'Transceiver'}, el]
        cx += [(f'trx {x}', f'roadm {x}'), (f'roadm {x}', f'trx {x}')]
    for (s, t), l in lines.items():
        prev = f'roadm {s}'
        for e in l:
            els.append(e)
            cx.append((prev, e['uid']))
            prev = e['uid']
        cx.append((prev, f'roadm {t}'))
    if nroadm == 0 or rng.random() < 0.25:               # point-to-point line between two transceivers
        for (s, t) in (('X', 'Y'), ('Y', 'X')):
            l = gen_line(rng, f'{s}{t}', libnames, imposable, span, False, False, for_c10)
            prev = f'trx {s}'
            for e in l:
                els.append(e)
                cx.append((prev, e['uid']))
                prev = e['uid']
            cx.append((prev, f'trx {t}'))
        els += [{'uid': 'trx X', 'type': 'Transceiver'}, {'uid': 'trx Y', 'type': 'Transceiver'}]
    if nroadm >= 1 and rng.random() < 0.35:              # mixed OMS: ROADM -> Transceiver and Transceiver -> ROADM
        r_ = rng.choice(names)
        for (tag, a, b_, fr, to) in ((f'{r_}Z', f'roadm {r_}', 'trx Z', True, False), (f'Z{r_}', 'trx Z', f'roadm {r_}', False, True)):
            l = gen_line(rng, tag, libnames, imposable, span, fr, to, for_c10)
            prev = a
            for e in l:
                els.append(e)
                cx.append((prev, e['uid']))
                prev = e['uid']
            cx.append((prev, b_))
        els.append({'uid': 'trx Z', 'type': 'Transceiver'})
    topo = {'elements': els, 'connections': [{'from_node': a, 'to_node': b} for a, b in cx]}
    return {'seed': rng.getrandbits(32), 'edfa': lib, 'span': span, 'si': si, 'roadm': roadm_lib, 'topo': topo}


# ------------------------------------------------------------------ implementation driver
def build_case(case):
    from gnpy.tools.json_io import network_from_json
    from gnpy.core.network import add_missing_elements_in_network
    eq = c10.build_equipment(case['edfa'], case['span'], case['si'], case['roadm'])
    topo = copy.deepcopy(case['topo'])
    elem_restr = {e['uid']: e.get('params', {}).get('restrictions') for e in topo['elements'] if e['type'] == 'Roadm'}
    elem_json = {e['uid']: copy.deepcopy(e) for e in topo['elements']}
    net = network_from_json(topo, eq)
    add_missing_elements_in_network(net, eq)
    roadm_lib = {e.get('type_variety', 'default'): e['restrictions'] for e in case['roadm']}
    return {'equipment': eq, 'network': net, 'elem_restr': elem_restr, 'roadm_lib': roadm_lib, 'elem_json': elem_json,
            'max_lineic': case['span']['max_fiber_lineic_loss_for_raman'], 'case': case}


def oms_chains(net):
    """every OMS of the network as set_egress_amplifier walks it: (start node, [elements], end node)"""
    from gnpy.core import elements as E
    out = []
    starts = [n for n in net.nodes() if isinstance(n, E.Roadm)] + [n for n in net.nodes() if isinstance(n, E.Transceiver)]
    for st in starts:
        for first in net.successors(st):
            if isinstance(first, E.Transceiver):
                continue
            chain, node, seen = [], first, set()
            while not isinstance(node, (E.Roadm, E.Transceiver)):
                if node.uid in seen:
                    raise RuntimeError('loop')
                seen.add(node.uid)
                chain.append(node)
                node = next(net.successors(node))
            if chain:
                out.append((st, chain, node))
    return out


def snapshot_elem(n):
    from gnpy.core import elements as E
    import numpy as np
    if isinstance(n, E.Multiband_amplifier):
        return {'t': 'unsupported', 'uid': n.uid}
    if isinstance(n, E.Fiber):
        lumped = sum(float(x['loss']) for x in n.params.lumped_losses) if len(n.params.lumped_losses) else 0.0
        lin = float(n.loss_coef_func(n.params.ref_frequency) * n.params.length) + lumped
        return {'t': 'fiber', 'uid': n.uid, 'lin': lin, 'con_in': n.params.con_in, 'con_out': n.params.con_out,
                'att_in': float(n.params.att_in), 'loss_coef': [float(x) for x in np.atleast_1d(n.params.loss_coef)],
                'raman': isinstance(n, E.RamanFiber)}
    if isinstance(n, E.Fused):
        return {'t': 'fused', 'uid': n.uid, 'loss': float(n.loss)}
    if isinstance(n, E.Edfa):
        op = n.operational
        return {'t': 'edfa', 'uid': n.uid, 'variety': n.params.type_variety or '',
                'vlist': list(n.variety_list) if isinstance(n.variety_list, list) else [],
                'gain': op.gain_target, 'delta_p': op.delta_p, 'out_voa': op.out_voa, 'in_voa': op.in_voa}
    return {'t': 'unsupported', 'uid': n.uid}


def design(built):
    """snapshot every OMS, then run the real design; fills built['oms'], built['nf'], built['status']"""
    import gnpy.core.network as nw
    from gnpy.tools.worker_utils import designed_network
    net, eq = built['network'], built['equipment']
    built['oms'] = [{'start': st, 'nodes': ch, 'end': en, 'snap': [snapshot_elem(n) for n in ch]}
                    for st, ch, en in oms_chains(net)]
    nf = {}
    orig_s = nw.select_edfa
    orig_e = nw.set_egress_amplifier
    progress = []

    def wrap_s(raman_allowed, gain_target, power_target, edfa_eqpt, uid, target_extended_gain, verbose=True):
        nf[uid] = {n: c10.nf_of(gain_target, a) for n, a in edfa_eqpt.items()}
        return orig_s(raman_allowed, gain_target, power_target, edfa_eqpt, uid, target_extended_gain, verbose)

    def wrap_e(network, this_node, *a, **k):
        progress.append(this_node.uid)
        return orig_e(network, this_node, *a, **k)
    est = {}
    orig_g = nw.estimate_raman_gain

    def wrap_g(node, equipment, power_dbm):
        had = hasattr(node, 'estimated_gain')
        r = orig_g(node, equipment, power_dbm)
        if type(node).__name__ == 'RamanFiber':
            d = est.setdefault(node.uid, {'ref': [], 'cached_calls': 0})
            if power_dbm is None and not had:
                d['ref'].append(float(r))          # estimate at the reference power, rounded, not recorded by gnpy
            elif had:
                d['cached_calls'] += 1
        return r
    nw.estimate_raman_gain = wrap_g
    nw.select_edfa = wrap_s
    nw.set_egress_amplifier = wrap_e
    built['status'] = 'ok'
    try:
        try:
            _, req, ref = designed_network(eq, net, no_insert_edfas=True)
            built['ref'] = ref
        except Exception as e:
            built['status'] = f'E:{type(e).__name__}'
            built['exc'] = str(e)[:300]
    finally:
        nw.select_edfa = orig_s
        nw.set_egress_amplifier = orig_e
        nw.estimate_raman_gain = orig_g
    # the two Raman gain estimates of every RamanFiber (inputs of the model)
    for o in built['oms']:
        for n, sn in zip(o['nodes'], o['snap']):
            if sn.get('raman'):
                d = est.get(n.uid, {'ref': []})
                cached = getattr(n, 'estimated_gain', None)
                if d['ref'] and max(d['ref']) - min(d['ref']) > 1e-12:
                    built['raman_ref_unstable'] = True
                gref = d['ref'][0] if d['ref'] else (round(float(cached), 2) if cached is not None else 0.0)
                sn['g_ref'] = gref
                sn['g_cached'] = float(cached) if cached is not None else gref
    built['nf'] = nf
    built['progress'] = progress
    si = built['case']['si']
    for o in built['oms']:
        # the design band of the degree (set_per_degree_design_band, C08/C15): an input of the power design
        bands = getattr(o['start'], 'per_degree_design_bands', {}).get(o['nodes'][0].uid) or []
        o['band'] = (float(bands[0]['f_min']), float(bands[0]['f_max'])) if bands else (float(si['f_min']), float(si['f_max']))
        o['nbands'] = len(bands)
        o['design_band'] = design_band_of(built, o)
    return built


def observe(built):
    """designed values of every OMS"""
    from gnpy.core import elements as E
    for o in built['oms']:
        amps, fibs = [], []
        for n in o['nodes']:
            if isinstance(n, E.Edfa):
                amps.append({'uid': n.uid, 'variety': n.params.type_variety, 'gain': n.effective_gain,
                             'delta_p': n.delta_p, '_delta_p': n._delta_p, 'out_voa': n.out_voa, 'in_voa': n.in_voa})
            elif isinstance(n, E.Fiber):
                fibs.append({'uid': n.uid, 'att_in': n.params.att_in, 'con_in': n.params.con_in,
                             'con_out': n.params.con_out, 'dsl': getattr(n, 'design_span_loss', None),
                             'loss': float(n.loss) if n.params.con_in is not None and n.params.con_out is not None else None})
        o['amps'], o['fibs'] = amps, fibs


# ------------------------------------------------------------------ independent reference values (transcendental inputs)
def db(x):
    return 10 * math.log10(x)


def ref_values(case):
    si = case['si']
    pref_ch = float(si['power_dbm'])
    nch = int((si['f_max'] - si['f_min']) // si['spacing'])
    return pref_ch, pref_ch + db(nch), nch


def roadm_policy(el_json, roadm_lib_entries):
    """node-level equalisation of a ROADM element: its own if given, else the library entry's"""
    keys = ('target_pch_out_db', 'target_psd_out_mWperGHz', 'target_out_mWperSlotWidth')
    p = el_json.get('params', {})
    for k in keys:
        if p.get(k) is not None:
            return k, p[k]
    tv = el_json.get('type_variety', 'default')
    ent = next(e for e in roadm_lib_entries if e.get('type_variety', 'default') == tv)
    for k in keys:
        if k in ent:
            return k, ent[k]
    raise KeyError('policy')


def start_power(built, o, pref_ch):
    """reference power launched into the OMS, computed from the generated inputs only"""
    from gnpy.core import elements as E
    case = built['case']
    si = case['si']
    st = o['start']
    if isinstance(st, E.Transceiver):
        return float(si['tx_power_dbm']) if si.get('tx_power_dbm') is not None else pref_ch
    ej = built['elem_json'][st.uid]
    deg = o['nodes'][0].uid
    p = ej.get('params', {})
    o['p0_kind'] = 'power'
    if deg in p.get('per_degree_pch_out_db', {}):
        return float(p['per_degree_pch_out_db'][deg])
    if deg in p.get('per_degree_psd_out_mWperGHz', {}):
        o['p0_kind'] = 'psd'
        return db(p['per_degree_psd_out_mWperGHz'][deg] * si['baud_rate'] * 1e-9)
    if deg in p.get('per_degree_psd_out_mWperSlotWidth', {}):
        o['p0_kind'] = 'psw'
        return db(p['per_degree_psd_out_mWperSlotWidth'][deg] * si['spacing'] * 1e-9)
    k, v = roadm_policy(ej, case['roadm'])
    if k == 'target_pch_out_db':
        return float(v)
    if k == 'target_psd_out_mWperGHz':
        o['p0_kind'] = 'psd'
        return db(v * si['baud_rate'] * 1e-9)
    o['p0_kind'] = 'psw'
    return db(v * si['spacing'] * 1e-9)


def eff_restr(built, roadm, key):
    el = built['elem_restr'].get(roadm.uid)
    if el is not None and key in el:
        return el[key]
    tv = built['elem_json'][roadm.uid].get('type_variety', 'default')
    return built['roadm_lib'].get(tv, {}).get(key, [])


# ------------------------------------------------------------------ model terms
def oq(x):
    return 'None' if x is None else f'(sq {qlit(float(x))})'


def b(x):
    return 'true' if x else 'false'


def cfg_lit(span):
    d = span
    return (f"(cfg {b(d['power_mode'])} {listlit([qlit(float(x)) for x in d['delta_power_range_db']])} "
            f"{qlit(float(d['span_loss_ref']))} {qlit(float(d['power_slope']))} {qlit(float(d['voa_margin']))} "
            f"{qlit(float(d['voa_step']))} {qlit(float(d['target_extended_gain']))} "
            f"{qlit(float(d['max_fiber_lineic_loss_for_raman']) * 1e-3)} {qlit(float(d['padding']))} {qlit(float(d['EOL']))} "
            f"{qlit(float(d['con_in']))} {qlit(float(d['con_out']))})")


def lib_lit(eq):
    out = []
    for n, a in eq['Edfa'].items():
        v = c10.amp_view(n, a)
        auto = bool(getattr(a, 'out_voa_auto', False))
        out.append(f"la {strlit(n)} {b(v['multi'])} {b(v['raman'])} {b(v['allowed'])} {qlit(v['f_min'])} {qlit(v['f_max'])} "
                   f"{qlit(v['gain_min'])} {qlit(v['gain_flatmax'])} {qlit(v['p_max'])} {b(auto)}")
    return listlit(out)


def elem_lit(s, nf):
    if s['t'] == 'fiber' and s.get('raman'):
        return (f"rrf {qlit(s['lin'])} {oq(s['con_in'])} {oq(s['con_out'])} {qlit(s['att_in'])} "
                f"{listlit([qlit(x) for x in s['loss_coef']])} {qlit(s['g_ref'])} {qlit(s['g_cached'])}")
    if s['t'] == 'fiber':
        return (f"rf {qlit(s['lin'])} {oq(s['con_in'])} {oq(s['con_out'])} {qlit(s['att_in'])} "
                f"{listlit([qlit(x) for x in s['loss_coef']])}")
    if s['t'] == 'fused':
        return f"rfu {qlit(s['loss'])}"
    nfs = listlit([f'nfv {strlit(n)} {qlit(v)}' for n, v in nf.get(s['uid'], {}).items()])
    return (f"ra {strlit(s['variety'])} {slist([x for x in s['vlist']])} {oq(s['gain'])} {oq(s['delta_p'])} "
            f"{oq(s['out_voa'])} {oq(s['in_voa'])} {nfs}")


def oms_lit(built, o, p0, pref_ch):
    from gnpy.core import elements as E
    st, en = o['start'], o['end']
    s = (f"(sroadm {slist([x for x in eff_restr(built, st, 'booster_variety_list')])})"
         if isinstance(st, E.Roadm) else 'StartTrx')
    e = (f"(eroadm {slist([x for x in eff_restr(built, en, 'preamp_variety_list')])})"
         if isinstance(en, E.Roadm) else 'EndTrx')
    bmin, bmax = o['band']
    o['pref_total'] = oms_pref_total(built['case'], o, pref_ch)
    return f"oms {qlit(bmin)} {qlit(bmax)} {qlit(o['pref_total'])} {qlit(p0)} {s} {e} {listlit([elem_lit(x, built['nf']) for x in o['snap']])}"


def oms_pref_total(case, o, pref_ch):
    """pref_total_db of the OMS: SI channel count, or - use_si_channel_count_for_design false - the channel count of
    the OMS's design band (automatic_nch), computed independently"""
    si = case['si']
    if si.get('use_si_channel_count_for_design', True):
        nch = int((si['f_max'] - si['f_min']) // si['spacing'])
    else:
        lo, hi, sp = o['design_band']
        nch = int((hi - lo) // sp)
    o['design_nch'] = nch
    return pref_ch + db(nch)


def design_band_of(built, o):
    """(f_min, f_max, spacing) of the design band of the OMS, from the generated inputs where they give it (per-degree
    design band of the ingress ROADM, with its own spacing), else the band the implementation derived with the SI
    spacing"""
    si = built['case']['si']
    ej = built['elem_json'].get(o['start'].uid, {})
    pd = ej.get('params', {}).get('per_degree_design_bands', {}).get(o['nodes'][0].uid)
    if pd:
        b_ = sorted(pd, key=lambda x_: x_['f_min'])[0]
        return float(b_['f_min']), float(b_['f_max']), float(b_.get('spacing', si['spacing']))
    return o['band'][0], o['band'][1], float(si['spacing'])


def net_term(built, omses, p0s, pref_ch, pref_total=None):
    si = built['case']['si']
    return (f"run_net {cfg_lit(built['case']['span'])} {lib_lit(built['equipment'])} {qlit(pref_ch)} "
            f"{listlit([oms_lit(built, o, p0, pref_ch) for o, p0 in zip(omses, p0s)])}")


# ------------------------------------------------------------------ oracle: propagate the design comb through one OMS
def propagate_oms(built, o, p0, pref_ch):
    """returns list of (uid, kind, per-channel signal dBm (min, max), noise share dB, total power dBm, clamp info)"""
    from gnpy.core import elements as E
    from gnpy.core.info import create_input_spectral_information
    from gnpy.core.utils import dbm2watt, watt2dbm, lin2db
    import numpy as np
    si_c = built['case']['si']
    st, en = o['start'], o['end']
    net = built['network']
    path = []
    if isinstance(st, E.Roadm):
        trx = next(n for n in net.predecessors(st) if isinstance(n, E.Transceiver))
        path += [trx, st]
        tx = p0 + 6.0                               # enough for the ROADM to reach its egress target
    else:
        path += [st]
        tx = p0
    path += o['nodes']
    if isinstance(en, E.Roadm):
        trx2 = next(n for n in net.successors(en) if isinstance(n, E.Transceiver))
        path += [en, trx2]
    else:
        path += [en]
    path = copy.deepcopy(path)                      # propagation leaves traces on the elements
    f_lo, f_hi, sp_ = si_c['f_min'], si_c['f_max'], si_c['spacing']
    if not si_c.get('use_si_channel_count_for_design', True):
        f_lo, f_hi, sp_ = o['design_band']           # the design load of the degree: its own band and spacing
    # (the reference carrier keeps the SI baud rate and slot width: a PSW target, or a baud rate that does not fit the
    # band's spacing, makes the design load itself inconsistent - not judged by propagation)
    if sp_ != si_c['spacing'] and (o.get('p0_kind') == 'psw' or si_c['baud_rate'] > sp_):
        return None
    si = create_input_spectral_information(f_min=f_lo, f_max=f_hi, roll_off=si_c['roll_off'],
                                           baud_rate=si_c['baud_rate'], spacing=sp_,
                                           tx_osnr=si_c['tx_osnr'], tx_power=dbm2watt(tx))
    rec = []
    for i, el in enumerate(path[:-1]):
        if isinstance(el, E.Roadm):
            si = el(si, degree=path[i + 1].uid, from_degree=path[i - 1].uid)
        else:
            if isinstance(el, E.Edfa):
                pre_gain = el.effective_gain
            si = el(si)
        if isinstance(el, (E.Edfa, E.Roadm)):
            sig = 10 * np.log10(si.signal * 1e3)
            noise = 10 * np.log10(1 + (si.ase + si.nli) / si.signal)
            r = {'uid': el.uid, 'kind': type(el).__name__, 'sig_min': float(sig.min()), 'sig_max': float(sig.max()),
                 'noise_db': float(noise.max()), 'pch_min': float(si.pch_dbm.min()), 'pch_max': float(si.pch_dbm.max()),
                 'ptot': float(watt2dbm(si.ptot))}
            if isinstance(el, E.Edfa):
                r['clamped'] = float(pre_gain - el.effective_gain)
            rec.append(r)
    return rec


# ------------------------------------------------------------------ multiband OMS (two-band lines of Multiband_amplifier nodes)
def gen_mb_case(rng):
    """c10's two-band line, plus - on some nodes - an imposed multiband type_variety with or without per band amplifiers
    carrying operator settings"""
    c = c10.gen_case_c(rng)
    c['kind'] = 'M'
    groups = [e for e in c['edfa'] if e['type_def'] == 'multi_band' and len(e['amplifiers']) == 2]
    byname = {e['type_variety']: e for e in c['edfa']}
    for el in c['topo']['elements']:
        if el['type'] != 'Multiband_amplifier' or not groups or rng.random() > 0.4:
            continue
        g = rng.choice(groups)
        if {byname[t]['f_min'] for t in g['amplifiers']} != {c10.CBAND[0], c10.LBAND[0]}:
            continue
        el.pop('variety_list', None)
        el['type_variety'] = g['type_variety']
        if rng.random() < 0.65:
            el['amplifiers'] = [{'type_variety': t, 'operational': gen_operational(rng, c['span'], None)} for t in g['amplifiers']]
    return c


def drive_mb(case):
    """design a multiband line; returns built with built['moms'] = [{bands, nodes: [...], start, end, p0 ...}]"""
    import gnpy.core.network as nw
    from gnpy.core import elements as E
    from gnpy.tools.worker_utils import designed_network
    built = build_case(case)
    net, eq = built['network'], built['equipment']
    chains = [(st, ch, en) for st, ch, en in oms_chains(net) if any(isinstance(n, E.Multiband_amplifier) for n in ch)]
    pre = {}
    for st, ch, en in chains:
        for n in ch:
            if isinstance(n, E.Fiber):
                pre[n.uid] = snapshot_elem(n)
    nfcalls = {}
    orig_s = nw.select_edfa

    def wrap_s(raman_allowed, gain_target, power_target, edfa_eqpt, uid, target_extended_gain, verbose=True):
        nfcalls.setdefault(uid, []).append({n: c10.nf_of(gain_target, a) for n, a in edfa_eqpt.items()})
        return orig_s(raman_allowed, gain_target, power_target, edfa_eqpt, uid, target_extended_gain, verbose)
    nw.select_edfa = wrap_s
    built['status'] = 'ok'
    try:
        try:
            designed_network(eq, net, no_insert_edfas=True)
        except Exception as e:
            built['status'] = f'E:{type(e).__name__}'
            built['exc'] = str(e)[:300]
    finally:
        nw.select_edfa = orig_s
    lib = eq['Edfa']
    si = case['si']
    moms = []
    for st, ch, en in chains:
        bands = list(getattr(st, 'per_degree_design_bands', {}).get(ch[0].uid) or [])
        o = {'start': st, 'end': en, 'nodes': ch, 'snap': [], 'obs': [],
             'bands': [(float(b_['f_min']), float(b_['f_max'])) for b_ in bands]}
        for n in ch:
            if isinstance(n, E.Multiband_amplifier):
                ej = built['elem_json'].get(n.uid, {})
                imposed = ej.get('type_variety', '') if ej.get('type_variety') not in (None, 'default') else ''
                jamps = {a['type_variety']: a for a in ej.get('amplifiers', [])}
                per_band, obs = [], []
                order = list(n.amplifiers.items())
                for k, (lo, hi) in enumerate(o['bands']):
                    # the band's amplifier object, if the design got that far
                    from gnpy.core.parameters import find_band_name, FrequencyBand
                    amp = n.amplifiers.get(find_band_name(FrequencyBand(f_min=lo, f_max=hi)))
                    jv = next((t for t in jamps if float(lib[t].f_min) <= lo and float(lib[t].f_max) >= hi), '')
                    op = jamps[jv].get('operational', {}) if jv else {}
                    per_band.append({'variety': jv, 'gain': op.get('gain_target'), 'delta_p': op.get('delta_p'),
                                     'out_voa': op.get('out_voa'), 'in_voa': op.get('in_voa', 0)})
                    if amp is not None and amp.effective_gain is not None and amp._delta_p is not None:
                        obs.append({'variety': amp.params.type_variety, 'gain': float(amp.effective_gain),
                                    'delta_p': amp.delta_p, '_delta_p': float(amp._delta_p),
                                    'out_voa': amp.out_voa, 'in_voa': amp.in_voa})
                    else:
                        obs.append(None)
                o['snap'].append({'t': 'mb', 'uid': n.uid, 'variety': imposed,
                                  'vlist': list(n.variety_list) if isinstance(n.variety_list, list) else [],
                                  'amps': per_band, 'nf': nfcalls.get(n.uid, [])})
                o['obs'].append({'uid': n.uid, 'bands': obs, 'type': n.type_variety if built['status'] == 'ok' else None})
            elif isinstance(n, E.Fiber) and not isinstance(n, E.RamanFiber):
                o['snap'].append(pre[n.uid])
                o['obs'].append({'uid': n.uid, 'att_in': n.params.att_in, 'con_in': n.params.con_in, 'con_out': n.params.con_out,
                                 'dsl': getattr(n, 'design_span_loss', None), 'loss': float(n.loss)})
            elif isinstance(n, E.Fused):
                o['snap'].append({'t': 'fused', 'uid': n.uid, 'loss': float(n.loss)})
                o['obs'].append({'uid': n.uid, 'loss': float(n.loss)})
            else:
                o['snap'].append({'t': 'unsupported', 'uid': n.uid})
                o['obs'].append(None)
        moms.append(o)
    built['moms'] = moms
    return built


def band_pref_total(case, band, pref_ch):
    si = case['si']
    if si.get('use_si_channel_count_for_design', True):
        nch = int((si['f_max'] - si['f_min']) // si['spacing'])
    else:
        nch = int((band[1] - band[0]) // si['spacing'])
    return pref_ch + db(nch)


def mb_term(built, pref_ch):
    case = built['case']
    groups = listlit([f"grp {strlit(g['name'])} {b(g['allowed'])} {slist(g['members'])}" for g in c10.group_views(case)])
    omss = []
    for o in built['moms']:
        from gnpy.core import elements as E
        st, en = o['start'], o['end']
        s_ = (f"(sroadm {slist(eff_restr(built, st, 'booster_variety_list'))})" if isinstance(st, E.Roadm) else 'StartTrx')
        e_ = (f"(eroadm {slist(eff_restr(built, en, 'preamp_variety_list'))})" if isinstance(en, E.Roadm) else 'EndTrx')
        o['p0'] = start_power(built, o, pref_ch)
        o['pref_totals'] = [band_pref_total(case, bd, pref_ch) for bd in o['bands']]
        bis = listlit([f"bi {qlit(lo)} {qlit(hi)} {qlit(pt)}" for (lo, hi), pt in zip(o['bands'], o['pref_totals'])])
        els = []
        for sn in o['snap']:
            if sn['t'] == 'fiber':
                els.append(f"mrf {qlit(sn['lin'])} {oq(sn['con_in'])} {oq(sn['con_out'])} {qlit(sn['att_in'])} "
                           f"{listlit([qlit(x) for x in sn['loss_coef']])}")
            elif sn['t'] == 'fused':
                els.append(f"mrfu {qlit(sn['loss'])}")
            else:
                amps = []
                for k, a in enumerate(sn['amps']):
                    nf = sn['nf'][k] if k < len(sn['nf']) else {}
                    nfs = listlit([f'nfv {strlit(n)} {qlit(v)}' for n, v in nf.items()])
                    amps.append(f"ban {strlit(a['variety'])} {oq(a['gain'])} {oq(a['delta_p'])} {oq(a['out_voa'])} {oq(a['in_voa'])} {nfs}")
                els.append(f"mra {strlit(sn['variety'])} {slist(sn['vlist'])} {listlit(amps)}")
        omss.append(f"moms {bis} {qlit(o['p0'])} {s_} {e_} {listlit(els)}")
    return (f"run_mnet {cfg_lit(case['span'])} {lib_lit(built['equipment'])} {groups} {qlit(pref_ch)} {listlit(omss)}")


def parse_moms(txt):
    fib_s, rest = txt.split('#', 1)
    fibs = []
    for f in [x for x in fib_s.split(';') if x]:
        att, cin, cout, dsl = f.split('|')
        fibs.append({'att_in': pq(att), 'con_in': pq(cin), 'con_out': pq(cout), 'dsl': pq(dsl)})
    if rest.startswith('E:'):
        return {'fibs': fibs, 'err': rest[2:].split(':')[0], 'nodes': [], 'walks': []}
    node_s, walk_s = rest.split('#')
    nodes = []
    for nd in [x for x in node_s.split('&') if x]:
        bands = []
        for a in nd.split('^'):
            v, g, dp, _dp, ov, iv, nl, crit = a.split('|')
            bands.append({'variety': v, 'gain': pq(g), 'delta_p': pq(dp), '_delta_p': pq(_dp), 'out_voa': pq(ov),
                          'in_voa': pq(iv), 'node_loss': pq(nl), 'crit': pq(crit)})
        nodes.append(bands)
    return {'fibs': fibs, 'err': None, 'nodes': nodes, 'walks': [[pq(x) for x in w.split(';') if x] for w in walk_s.split('^')]}


def judge_mb(ctx, built, line, pref_ch):
    """per band correspondence and per band static oracle for every multiband OMS of the network"""
    from gnpy.core import elements as E
    case = strip(built['case'])
    span = built['case']['span']
    eq = built['equipment']['Edfa']
    models = [parse_moms(x) for x in line.split('~')] if built['moms'] else []
    for o, m in zip(built['moms'], models):
        desc = f"multiband OMS {o['start'].uid} -> {o['end'].uid}"
        ctx.case({'net': built['case']['seed'], 'oms': o['nodes'][0].uid, 'kind': 'M'}, True)
        ctx.count('mb_oms')
        if built['status'] != 'ok':
            typ = built['status'][2:]
            ctx.count('mb_design_error_' + typ)
            # (ties in the nodes designed before the error may move it: only the error type is compared)
            if m['err'] != typ:
                # the error may also have been raised in another OMS of the network
                if not any(mm['err'] == typ for mm in models):
                    ctx.corr_break('corr:PowerDesign.design_mb', f"{desc}: implementation raised {built['status']} "
                                   f"({built.get('exc')}), model {m['err']}", case, impl=built['status'], model=m['err'])
            continue
        if m['err']:
            ctx.corr_break('corr:PowerDesign.design_mb', f"{desc}: model raises {m['err']}, implementation designed it",
                           case, model=m['err'])
            continue
        # fibres
        fsn = [(s_, ob) for s_, ob in zip(o['snap'], o['obs']) if s_['t'] == 'fiber']
        tie = padding_tie(o['snap'], m['fibs'], span['padding'])
        if tie:
            ctx.count('mb_oms_not_judged_padding_tie')
            continue
        for (s_, ob), fm in zip(fsn, m['fibs']):
            for k_ in ('att_in', 'con_in', 'con_out', 'dsl'):
                if not close(ob[k_], fm[k_]):
                    ctx.corr_break('corr:PowerDesign.prep', f"{desc}: fibre {ob['uid']} {k_}", case, impl=ob[k_], model=fm[k_])
        # nodes, band by band
        nsn = [(s_, ob) for s_, ob in zip(o['snap'], o['obs']) if s_['t'] == 'mb']
        stop = False
        for (s_, ob), mb in zip(nsn, m['nodes']):
            if stop:
                break
            for k, (aobs, am) in enumerate(zip(ob['bands'], mb)):
                if am['crit'] < TOL:
                    ctx.count('mb_amp_not_judged_tie')
                    stop = True
                    break
                ctx.count('mb_band_amps_compared')
                if aobs is None:
                    ctx.corr_break('corr:PowerDesign.mb_node', f"{desc}: {ob['uid']} band {k} not designed", case)
                    stop = True
                    break
                if aobs['variety'] != am['variety']:
                    ctx.corr_break('corr:PowerDesign.mb_node', f"{desc}: {ob['uid']} band {k} type_variety", case,
                                   impl=aobs['variety'], model=am['variety'])
                    stop = True
                    break
                for k_ in ('gain', 'delta_p', '_delta_p', 'out_voa', 'in_voa'):
                    if not close(aobs[k_], am[k_]):
                        ctx.corr_break('corr:PowerDesign.mb_node', f"{desc}: {ob['uid']} band {k} {k_}", case,
                                       impl=aobs[k_], model=am[k_])
        if len(nsn) != len(m['nodes']):
            ctx.corr_break('corr:PowerDesign.design_mb', f"{desc}: {len(nsn)} nodes, model {len(m['nodes'])}", case)
        # ---- oracle: per band budget and p_max on the implementation's designed values
        for k, (band, pref_total) in enumerate(zip(o['bands'], o['pref_totals'])):
            p = o['p0']
            for s_, ob in zip(o['snap'], o['obs']):
                if s_['t'] in ('fiber', 'fused'):
                    p -= ob['loss']
                elif s_['t'] == 'mb':
                    a = ob['bands'][k]
                    if a is None:
                        break
                    p = p - a['in_voa'] + a['gain']
                    ctx.count('mb_band_amps_budget_checked')
                    if abs(p - (pref_ch + a['_delta_p'])) > 1e-9:
                        ctx.violation('mb_budget_not_closed', f"{desc} band {k}: reference channel leaves {ob['uid']} at {p} dBm, "
                                      f"reference power + offset = {pref_ch + a['_delta_p']}", case)
                        p = pref_ch + a['_delta_p']
                    if span['power_mode'] and pref_total + a['_delta_p'] > float(eq[a['variety']].p_max) + 1e-9:
                        ctx.violation('mb_design_power_above_pmax', f"{desc} band {k}: {ob['uid']} total design power "
                                      f"{pref_total + a['_delta_p']} > p_max {eq[a['variety']].p_max}", case)
                    p -= a['out_voa']


# ------------------------------------------------------------------ parsing
def pq(s):
    if s == 'N':
        return None
    n, d = s.split('/')
    return float(Fraction(int(n), int(d)))


def parse_oms(txt):
    fib_s, rest = txt.split('#', 1)
    fibs = []
    for f in [x for x in fib_s.split(';') if x]:
        att, cin, cout, dsl = f.split('|')
        fibs.append({'att_in': pq(att), 'con_in': pq(cin), 'con_out': pq(cout), 'dsl': pq(dsl)})
    if rest.startswith('E:'):
        return {'fibs': fibs, 'err': rest[2:].split(':')[0], 'amps': [], 'walk': []}
    amp_s, walk_s = rest.split('#')
    amps = []
    for a in [x for x in amp_s.split(';') if x]:
        v, g, dp, _dp, ov, iv, nl, crit = a.split('|')
        amps.append({'variety': v, 'gain': pq(g), 'delta_p': pq(dp), '_delta_p': pq(_dp), 'out_voa': pq(ov),
                     'in_voa': pq(iv), 'node_loss': pq(nl), 'crit': pq(crit)})
    return {'fibs': fibs, 'err': None, 'amps': amps, 'walk': [pq(x) for x in walk_s.split(';') if x]}


def close(a, c):
    if a is None or c is None:
        return a is None and c is None
    return abs(float(a) - float(c)) <= TOL * max(1.0, abs(float(c)))


# ------------------------------------------------------------------ run
def padding_tie(snaps, model_fibs, padding):
    """is some span of the OMS within 1e-9 of the padding threshold?  The padding goes to the FIRST fibre of the span
    (when the span starts with a fibre), the cached design loss is on the LAST one"""
    k = -1                     # index in the fibre list
    first = None               # fibre-list index of the first element of the current span, if it is a fibre
    in_span = False
    for sn in snaps:
        if sn['t'] == 'fiber':
            k += 1
            if not in_span:
                first = k
            in_span = True
            fm = model_fibs[k]
            if fm['dsl'] is not None:
                raw_first = [x for x in snaps if x['t'] == 'fiber'][first]['att_in'] if first is not None else None
                bump = (model_fibs[first]['att_in'] - raw_first) if first is not None else 0.0
                margin = bump if bump > TOL else fm['dsl'] - padding
                if abs(margin) < TOL:
                    return True
        elif sn['t'] == 'fused':
            if not in_span:
                first = None
            in_span = True
        else:
            in_span = False
            first = None
    return False


def strip(c):
    return {k: v for k, v in c.items() if not k.startswith('_')}


def is_gain_mode_in_voa(v):
    """open finding C09/F-gain-mode-in-voa: gain-mode saturation test of an imposed variety made before the input VOA"""
    return v.get('key') == 'user_gain_reduced_without_saturation' and bool(v.get('in_voa'))


MATCHERS = {'F-gain-mode-in-voa': is_gain_mode_in_voa}


def run(ctx):
    logging.disable(logging.CRITICAL)
    import warnings
    warnings.simplefilter('ignore')
    from gnpy.core import elements as E
    rng = ctx.rng
    # second tie: re-translate the design arithmetic of gnpy/core/network.py and utils.round2float from /repo's source; the
    # equivalence lemmas of Proofs/PowerDesignGen.v are then re-checked by check_props against what the code says now
    from . import pygen_c09
    gen_ok, gen_msg = pygen_c09.regenerate()
    ctx.proof = common.check_props('C09')
    if not gen_ok:
        ctx.proof['ok'] = False
        ctx.proof['log'] = 'harness/pygen_c09.py: ' + gen_msg + '\n' + ctx.proof.get('log', '')
        ctx.proof['failed_file'] = 'theories/Gen/PowerDesignGen.v (translation of /repo source failed)'
    ctx.rule = ('random networks (0-4 ROADMs + optional point-to-point line, 1-4 spans per direction, fibre/fused spans, '
                'explicit amplifiers with full / partial / no operator settings and imposed variety or variety list, '
                'auto-inserted boosters/preamps/in-line amplifiers) x random Span (power/gain mode, delta_power_range '
                'around / touching / above / below 0, single-valued, inverted; slope, reference, padding, EOL 0-3 dB with '
                'given and defaulted fibre connectors, VOA margin/step, extended gain), SI (4-40 channels, '
                'reference and tx power) and ROADM configurations (three policies, per-degree targets, restrictions) x '
                'random libraries; one evaluation = one OMS; non-trivial = at least two amplifiers; distinct by hash')
    cases = []
    for f in sorted(glob.glob(os.path.join(common.VERIF, 'corpus', 'C09', '*.json'))):
        c = json.load(open(f))
        c['_corpus'] = os.path.basename(f)
        cases.append(c)
    if ctx.replay:
        cases = [json.load(open(ctx.replay))['case']]
    else:
        cases += [gen_case(rng) for _ in range(ctx.scale(90, 1600))]
        cases += [gen_mb_case(rng) for _ in range(ctx.scale(40, 500))]
    terms, meta = [], []
    mterms, mmeta = [], []
    for c in cases:
        case = strip(c)
        if c.get('kind') == 'M':
            try:
                built = drive_mb(c)
            except Exception as e:
                ctx.count('mb_not_built:' + type(e).__name__)
                continue
            ctx.count('mb_networks')
            ctx.count('mb_design_' + built['status'])
            pref_ch, _, _ = ref_values(c)
            if any(s_['t'] == 'unsupported' for o in built['moms'] for s_ in o['snap']) or not built['moms']:
                ctx.count('mb_unsupported')
                continue
            mterms.append(mb_term(built, pref_ch))
            mmeta.append((built, pref_ch))
            continue
        try:
            built = build_case(c)
        except Exception as e:
            ctx.count('not_built:' + type(e).__name__)
            continue
        design(built)
        ctx.count('networks')
        ctx.count('design_' + built['status'])
        ctx.count('mode_' + ('power' if c['span']['power_mode'] else 'gain'))
        pref_ch, pref_total, nch = ref_values(c)
        omses = [o for o in built['oms'] if all(s['t'] != 'unsupported' for s in o['snap']) and o['nbands'] <= 1]
        ctx.count('oms_unsupported', len(built['oms']) - len(omses))
        if built['status'] == 'ok':
            observe(built)
            ref = built['ref']
            from gnpy.core.utils import watt2dbm
            if abs(float(watt2dbm(ref.power)) - pref_ch) > 1e-9 or \
                    (ref.nb_channel is not None and ref.nb_channel != nch):
                ctx.corr_break('corr:PowerDesign.reference', 'reference channel differs from the independent computation',
                               case, impl=[float(watt2dbm(ref.power)), ref.nb_channel], model=[pref_ch, nch])
        p0s = [start_power(built, o, pref_ch) for o in omses]
        terms.append(net_term(built, omses, p0s, pref_ch, pref_total))
        meta.append((c, built, omses, p0s, pref_ch, pref_total))
    lines = common.coq_eval('C09', 'Prelude Model.Select Model.PowerDesign Run.C09', terms, per_file=5)
    mlines = common.coq_eval('C09', 'Prelude Model.Select Model.PowerDesign Run.C09', mterms, per_file=4, tag='mcases')
    for (built, pref_ch), line in zip(mmeta, mlines):
        judge_mb(ctx, built, line, pref_ch)
    for (c, built, omses, p0s, pref_ch, pref_total), line in zip(meta, lines):
        case = strip(c)
        models = [parse_oms(x) for x in line.split('~')] if omses else []
        span = c['span']
        if built['status'] == 'E:NetworkTopologyError':
            ctx.count('design_rejected_topology')          # topology validation is not part of the power design (C08)
            continue
        if built['status'] != 'ok':
            # the design raised: some OMS of the model must raise the same error (the only modelled one)
            errs = [m['err'] for m in models if m['err']]
            typ = built['status'][2:]
            ctx.count('design_error_' + typ)
            if typ not in errs:
                ctx.corr_break('corr:PowerDesign.design', f"implementation raised {built['status']} ({built.get('exc')}), "
                               f"model errors {errs}", case, impl=built['status'], model=errs)
            continue
        for o, m, p0 in zip(omses, models, p0s):
            desc = f"OMS {o['start'].uid} -> {o['end'].uid} via {o['nodes'][0].uid}"
            ctx.case({'net': c['seed'], 'oms': o['nodes'][0].uid}, len(o['amps']) >= 2)
            ctx.count('oms')
            ctx.count('oms_amps_%d' % min(len(o['amps']), 6))
            ctx.count('oms_start_' + type(o['start']).__name__ + '_end_' + type(o['end']).__name__)
            for s_, f_ in zip([x for x in o['snap'] if x['t'] == 'fiber'], o['fibs']):
                ctx.count('fibre')
                if f_['att_in'] > s_['att_in'] + TOL:
                    ctx.count('fibre_padded')
                if s_['con_in'] is None or s_['con_out'] is None:
                    ctx.count('fibre_default_connector')
                if s_.get('raman'):
                    ctx.count('fibre_raman')
            ctx.count('fused', sum(1 for x in o['snap'] if x['t'] == 'fused'))
            for s_, a_ in zip([x for x in o['snap'] if x['t'] == 'edfa'], o['amps']):
                ctx.count('amp_variety_imposed' if s_['variety'] else ('amp_variety_list' if s_['vlist'] else 'amp_variety_auto'))
                for k_ in ('gain', 'delta_p', 'out_voa'):
                    if s_[k_] is not None:
                        ctx.count('amp_operator_' + k_)
                if s_['in_voa']:
                    ctx.count('amp_operator_in_voa')
                if s_['out_voa'] is None and a_['out_voa'] > 0:
                    ctx.count('amp_auto_voa_nonzero')
                lib_ = built['equipment']['Edfa'][a_['variety']]
                if abs(o['pref_total'] + a_['_delta_p'] - (a_['out_voa'] if s_['out_voa'] is None else 0) - float(lib_.p_max)) < 1e-9:
                    ctx.count('amp_at_p_max')
            if m['err']:
                ctx.corr_break('corr:PowerDesign.design', f"{desc}: model raises {m['err']}, implementation designed it",
                               case, model=m['err'])
                continue
            # ---- tie rule: padding threshold
            tie = padding_tie(o['snap'], m['fibs'], span['padding'])
            if tie:
                ctx.count('oms_not_judged_padding_tie')
                continue
            # ---- correspondence: fibres
            bad = False
            for fo, fm in zip(o['fibs'], m['fibs']):
                for k in ('att_in', 'con_in', 'con_out', 'dsl'):
                    if not close(fo[k], fm[k]):
                        ctx.corr_break('corr:PowerDesign.prep', f"{desc}: fibre {fo['uid']} {k}", case,
                                       impl=fo[k], model=fm[k])
                        bad = True
            # ---- correspondence: amplifiers (stop at the first rounding/threshold tie: downstream values depend on it)
            judged = 0
            for ao, am in zip(o['amps'], m['amps']):
                if am['crit'] < TOL:
                    ctx.count('amp_not_judged_tie')
                    break
                judged += 1
                ctx.count('amps_compared')
                if ao['variety'] != am['variety']:
                    ctx.corr_break('corr:PowerDesign.set_one', f"{desc}: {ao['uid']} type_variety", case,
                                   impl=ao['variety'], model=am['variety'])
                    bad = True
                    break
                for k in ('gain', 'delta_p', '_delta_p', 'out_voa', 'in_voa'):
                    if not close(ao[k], am[k]):
                        ctx.corr_break('corr:PowerDesign.set_one', f"{desc}: {ao['uid']} {k}", case,
                                       impl=ao[k], model=am[k])
                        bad = True
            if len(o['amps']) != len(m['amps']):
                ctx.corr_break('corr:PowerDesign.design', f"{desc}: {len(o['amps'])} amplifiers designed, model {len(m['amps'])}",
                               case)
            # ---- oracle 1: the documented rule and the budget on the designed values themselves
            oracle_static(ctx, c, built, o, p0, pref_ch, o['pref_total'], desc, case)
            # ---- oracle 2: propagate the design comb (not through Raman spans: the estimated gain is an input here)
            if any(s_.get('raman') for s_ in o['snap']):
                ctx.count('oms_raman_not_propagated')
            elif o['amps']:
                try:
                    rec = propagate_oms(built, o, p0, pref_ch)
                except Exception as e:
                    ctx.count('propagation_failed:' + type(e).__name__)
                    continue
                if rec is None:
                    ctx.count('oms_design_load_not_propagated')
                    continue
                oracle_propagation(ctx, c, built, o, p0, pref_ch, rec, desc, case)
    ctx.assumptions += [
        'translator tie: harness/pygen_c09.py (fail-closed Python-ast -> Gallina over Q, on harness/pygen.py: templates for '
        'utils.round2float, target_power, span_loss, add_fiber_padding, compute_gain_power_and_tilt_target, '
        'set_one_amplifier, set_amplifier_voa and the per band initialisation / walk loop of set_egress_amplifier; '
        'translated holes: rounding, slope rule and clamps, padding test / att_in / recorded loss, dp and gain targets of '
        'both modes, saturation reductions, automatic VOA, start offset, total reference power)',
        'pref_ch_db, pref_total_db = pref_ch_db + 10 log10(nb_channels), PSD/PSW ROADM targets and loss_coef x length are '
        'inputs of the model computed by the harness with math.log10 / plain products, independently of gnpy.core.utils',
        'noise figures of the candidates of each auto-designed node are inputs computed on a fresh gnpy.core.elements.Edfa (c10.nf_of)',
        'Raman gain estimates of RamanFibers (reference power / designed power) are inputs recorded by wrapping '
        'estimate_raman_gain; OMS with a RamanFiber are not propagated; SRS tilt is 0 (Raman flag off); multiband lines '
        'are generated without RamanFiber; the design band(s) of each degree are inputs read from the implementation',
        'the propagation oracle uses flat amplifiers (no advanced_model ripple profile) and frequency-flat fibre loss',
    ]
    return common.finish(ctx, MATCHERS)


def _rhe(q):
    """round half even of a Fraction -> int"""
    import math
    f = math.floor(q)
    r = q - f
    if r < Fraction(1, 2):
        return f
    if r > Fraction(1, 2):
        return f + 1
    return f if f % 2 == 0 else f + 1


def ref_round2float(x, step):
    """independent exact reference for utils.round2float; returns (value, distance of the rounded quantity to a tie)"""
    x, step = Fraction(x), Fraction(step)
    s = Fraction(_rhe(step * 10), 10)
    if s >= Fraction(1, 100):
        q = x / s
        val = _rhe(q) * s
    else:
        q = x * 100
        val = Fraction(_rhe(q), 100)
    import math
    return float(val), float(abs(q - math.floor(q) - Fraction(1, 2)))


def expected_rule(span, loss):
    lo, hi, step = span['delta_power_range_db'][:3]
    x = (Fraction(loss) - Fraction(span['span_loss_ref'])) * Fraction(span['power_slope'])
    v, tie = ref_round2float(x, step)
    return min(float(hi), max(float(lo), v)), tie


def oracle_static(ctx, c, built, o, p0, pref_ch, pref_total, desc, case):
    """budget + rule on the implementation's designed values, computed from the observed element losses"""
    from gnpy.core import elements as E
    span = c['span']
    pm = span['power_mode']
    eq = built['equipment']
    p = p0
    amps = {a['uid']: a for a in o['amps']}
    fibs = {f['uid']: f for f in o['fibs']}
    snaps = {s['uid']: s for s in o['snap']}
    o['_excess'] = {}

    def floss(k):
        """loss of fibre k of the OMS as documented, from the loaded topology and the Span configuration: linear loss +
        connectors (the given value, else the Span default; the EOL margin on top of the output connector of every fibre
        that ends a span, i.e. is not followed by a Fused - the rule C08's connector_value oracle checks) + the designed att_in"""
        n, sn = o['nodes'][k], o['snap'][k]
        nxt_fused = k + 1 < len(o['nodes']) and isinstance(o['nodes'][k + 1], E.Fused)
        con_in = sn['con_in'] if sn['con_in'] is not None else span['con_in']
        con_out = (sn['con_out'] if sn['con_out'] is not None else span['con_out']) + (0.0 if nxt_fused else span['EOL'])
        return sn['lin'] + float(con_in) + float(con_out) + float(fibs[n.uid]['att_in'])
    pos = {n.uid: k for k, n in enumerate(o['nodes'])}
    for k, n in enumerate(o['nodes']):
        if isinstance(n, E.Fiber) and fibs[n.uid]['loss'] is not None:
            ctx.count('fibre_losses_checked')
            if abs(fibs[n.uid]['loss'] - floss(k)) > 1e-9:
                ctx.violation('fibre_loss', f"{desc}: {n.uid} loses {fibs[n.uid]['loss']} dB after the design, linear loss + "
                              f"connectors (con_in/con_out given {o['snap'][k]['con_in']}/{o['snap'][k]['con_out']}, defaults "
                              f"{span['con_in']}/{span['con_out']}, EOL {span['EOL']}) + att_in = {floss(k)} dB", case)
    span_excess = 0.0          # cached design loss minus real loss of the span just crossed
    span_user_att = 0.0        # operator att_in of the first fibre of that span, if the span was padded
    for idx, n in enumerate(o['nodes']):
        if isinstance(n, E.Fiber):
            f = fibs[n.uid]
            # a RamanFiber gives back the gain estimated at its designed input power
            p -= floss(idx) - (snaps[n.uid]['g_cached'] if snaps[n.uid].get('raman') else 0.0)
            if f['dsl'] is not None:
                j, real, first = idx, 0.0, None
                while j >= 0 and isinstance(o['nodes'][j], (E.Fiber, E.Fused)):
                    real += floss(j) if isinstance(o['nodes'][j], E.Fiber) else float(o['nodes'][j].loss)
                    if snaps[o['nodes'][j].uid].get('raman'):
                        real -= snaps[o['nodes'][j].uid]['g_cached']
                    first = o['nodes'][j]
                    j -= 1
                span_excess = f['dsl'] - real
                span_user_att = 0.0
                if isinstance(first, E.Fiber) and fibs[first.uid]['att_in'] > snaps[first.uid]['att_in'] + TOL:
                    span_user_att = snaps[first.uid]['att_in']            # padded, and the operator had given att_in
                if abs(span_excess) > 1e-9:
                    ctx.violation('dsl_not_span_loss', f"{desc}: design_span_loss of {n.uid} is {f['dsl']}, the span loses {real}",
                                  case, padded_user_att_in=span_user_att > 0 and abs(span_excess - span_user_att) <= 1e-9)
        elif isinstance(n, E.Fused):
            p -= float(n.loss)
        elif isinstance(n, E.Edfa):
            a = amps[n.uid]
            s = snaps[n.uid]
            p = p - a['in_voa'] + a['gain']
            lib = eq['Edfa'][a['variety']]
            step = round(span['voa_step'], 1)
            half = step / 2 if step >= 0.01 else 0.005
            auto_voa = s['out_voa'] is None and pm and bool(lib.out_voa_auto)
            dev = p - (pref_ch + a['_delta_p'])
            above = pref_total + a['_delta_p'] - float(lib.p_max)
            is_overshoot = auto_voa and span['voa_margin'] < half and 0 < above <= half - span['voa_margin'] + 1e-9 \
                and a['out_voa'] > 0
            o['_excess'][n.uid] = {'att': span_user_att if span_user_att > 0 and abs(dev - span_user_att) <= 1e-9 else 0.0,
                                   'voa': above if is_overshoot else 0.0}
            if abs(dev) > 1e-9:
                ctx.violation('budget_not_closed', f"{desc}: reference channel leaves {n.uid} at {p} dBm, "
                              f"reference power + offset = {pref_ch + a['_delta_p']}", case,
                              padded_user_att_in=o['_excess'][n.uid]['att'] > 0, voa_overshoot=False)
                p = pref_ch + a['_delta_p']                 # resynchronise: report each amplifier once
            if above > 1e-9:
                ctx.violation('design_power_above_pmax', f"{desc}: {n.uid} total design power {pref_total + a['_delta_p']} "
                              f"> p_max {lib.p_max}", case, voa_overshoot=is_overshoot)
            # operator values kept unless saturating
            if pm and s['delta_p'] is not None and s['out_voa'] is not None:
                if pref_total + s['delta_p'] <= float(lib.p_max) + 1e-12 and s['variety'] and \
                        abs(a['delta_p'] - s['delta_p']) > 1e-9:
                    ctx.violation('user_delta_p_changed', f"{desc}: {n.uid} delta_p {s['delta_p']} -> {a['delta_p']} "
                                  f"without saturation", case)
            if (not pm) and s['gain'] is not None and s['variety']:
                pout = pref_total + a['_delta_p'] + (s['gain'] - a['gain'])    # what the user gain would give
                if pout <= float(lib.p_max) - 1e-9 and abs(a['gain'] - s['gain']) > 1e-9:
                    # the specific open finding: the test was made before the input VOA
                    in_voa_case = a['in_voa'] > 0 and pout + a['in_voa'] > float(lib.p_max) - 1e-9 and \
                        abs((s['gain'] - a['gain']) - (pout + a['in_voa'] - float(lib.p_max))) <= 1e-9
                    ctx.violation('user_gain_reduced_without_saturation',
                                  f"{desc}: {n.uid} gain {s['gain']} -> {a['gain']} although the output "
                                  f"{pout} dBm would not exceed p_max {lib.p_max}", case, in_voa=in_voa_case)
            # the documented rule, where the operator set no offset (and, in gain mode, no gain)
            if s['delta_p'] is None and (pm or s['gain'] is None) and len(span['delta_power_range_db']) >= 3:
                nxt = o['nodes'][idx + 1:]
                k = 0
                while k < len(nxt) and isinstance(nxt[k], (E.Fiber, E.Fused)):
                    k += 1
                run = nxt[:k]
                if not nxt and isinstance(o['end'], E.Roadm):
                    exp_dp, tie = 0.0, 1.0
                else:
                    if run and isinstance(run[0], E.Fiber) and fibs[run[0].uid]['dsl'] is not None:
                        nloss = fibs[run[0].uid]['dsl']          # the cached design loss (checked against the real one above)
                    else:
                        # before the walk reaches a RamanFiber its gain is estimated at the reference power
                        nloss = sum((floss(pos[x.uid]) if isinstance(x, E.Fiber) else float(x.loss))
                                    - (snaps[x.uid]['g_ref'] if snaps[x.uid].get('raman') else 0.0) for x in run)
                    exp_dp, tie = expected_rule(span, nloss)
                if tie < 1e-9:
                    ctx.count('rule_not_judged_tie')
                else:
                    ctx.count('rule_checked')
                    auto_part = a['out_voa'] if (s['out_voa'] is None and pm) else 0.0
                    got = a['_delta_p'] - auto_part - (s['out_voa'] or 0.0)
                    gain_before_voa = a['gain'] - auto_part
                    if abs(got - exp_dp) > 1e-9:
                        ext = span['target_extended_gain']
                        saturating = got < exp_dp and (
                            abs(pref_total + a['_delta_p'] - auto_part - float(lib.p_max)) <= 1e-9 or
                            (not s['variety'] and abs(gain_before_voa - (float(lib.gain_flatmax) + ext)) <= 1e-9) or
                            ((not pm) and s['variety'] and a['in_voa'] and
                             abs(pref_total + a['_delta_p'] + a['in_voa'] - float(lib.p_max)) <= 1e-9))
                        if not saturating:
                            ctx.violation('dp_rule', f"{desc}: {n.uid} offset {got} (VOA parts removed), the rule gives {exp_dp} "
                                          f"and the amplifier is not at a limit", case)
            p -= a['out_voa']
            span_excess = span_user_att = 0.0


def oracle_propagation(ctx, c, built, o, p0, pref_ch, rec, desc, case):
    amps = {a['uid']: a for a in o['amps']}
    first = True
    for r in rec:
        if r['kind'] == 'Roadm':
            if first:
                first = False
                if abs(r['pch_min'] - p0) > SIG_TOL or abs(r['pch_max'] - p0) > SIG_TOL:
                    ctx.violation('roadm_egress', f"{desc}: ROADM {r['uid']} launches {r['pch_min']}..{r['pch_max']} dBm, "
                                  f"design assumed {p0}", case)
            continue
        first = False
        a = amps.get(r['uid'])
        if a is None:
            continue
        ctx.count('amps_propagated')
        exp = pref_ch + a['_delta_p'] - a['out_voa']
        lo = exp - r['noise_db'] - SIG_TOL
        if r['sig_min'] < lo or r['sig_max'] > exp + SIG_TOL:
            ex = o.get('_excess', {}).get(r['uid'], {'att': 0.0, 'voa': 0.0})
            # the two open findings predict the deviation: + operator att_in, resp. - (power above p_max), up to noise
            # (when the excess gain drives the amplifier into its p_max clamp, less than att_in comes out)
            by_att = bool(ex['att'] > 0 and r['sig_max'] - exp <= ex['att'] + SIG_TOL and
                          (ex['att'] - r['noise_db'] - SIG_TOL <= r['sig_min'] - exp or
                           (r.get('clamped', 0) > 0 and r['sig_min'] - exp > 0)))
            by_voa = bool(ex['voa'] > 0 and -ex['voa'] - r['noise_db'] - SIG_TOL <= r['sig_min'] - exp and
                          r['sig_max'] - exp <= SIG_TOL)
            ctx.violation('budget_not_closed', f"{desc}: propagated signal leaves {r['uid']} at {r['sig_min']}..{r['sig_max']} dBm, "
                          f"reference power + offset - VOA = {exp} (noise share {r['noise_db']} dB)", case,
                          padded_user_att_in=by_att, voa_overshoot=by_voa, stage='propagation')
            return
        if r.get('clamped', 0) > 0:
            ctx.count('amps_clamped_by_noise')
