"""C06 — a ROADM never amplifies and equalises every channel to its egress target.

Tie.  Two streams of generated cases are driven through the real code and through the Gallina model
`Verif.Model.Roadm` (evaluated by vm_compute):
  A  element level : elements.Roadm(params=…) ; set_roadm_paths(…)* ; ref_carrier / ref_pch_in_dbm ; Roadm.__call__ on
                     random SpectralInformation (mixed baud rates / slot widths / offsets / powers, C and L band)
                     for add / drop / express crossings                               -> Run.C06.runA
  L  loader level  : json_io.Roadm (equipment entry) ; network_from_json (merge_equalization, RoadmParams) ;
                     design (set_roadm_per_degree_targets …) ; Roadm.__call__ on the designed element -> Run.C06.runL
Per crossing the per-channel output power, Roadm.loss_pch_db, ref_pch_out_dbm and ref_effective_loss (or the
exception type) are compared; per loader case the accept/reject outcome, the node policy in force and the three
per-degree tables after design.  Independently the property itself is evaluated on the implementation's own
observations (oracle).  PSD / PSW values and baud rates / slot widths reach the model as dB values computed here
with math.log10 (independent of gnpy.core.utils).  The for-all part is Props/C06.v.
"""
import copy
import glob
import json
import logging
import math
import os
import warnings
from fractions import Fraction

from . import common
from .common import zlit, listlit

POL = ['target_pch_out_db', 'target_psd_out_mWperGHz', 'target_out_mWperSlotWidth']
PDEG = ['per_degree_pch_out_db', 'per_degree_psd_out_mWperGHz', 'per_degree_psd_out_mWperSlotWidth']
PTYPE = {'express': 'Express', 'add': 'Add', 'drop': 'Drop'}
PKEY = {'express': 'roadm-express-path', 'add': 'roadm-add-path', 'drop': 'roadm-drop-path'}
TOL = 1e-9          # dB
C_BAND = (191.3e12, 196.1e12)
L_BAND = (186.3e12, 190.1e12)
RESTR = {'preamp_variety_list': [], 'booster_variety_list': []}


def qlit(x):
    """exact value of a float as  fq mantissa exponent  (= mantissa · 2^exponent : Q), see Run/C06.v"""
    n, d = float(x).as_integer_ratio()
    return f'(fq {zlit(n)} {zlit(-(d.bit_length() - 1))})'


def db(x):
    """10·log10 — the harness's own conversion"""
    return 10.0 * math.log10(x)


# ------------------------------------------------------------------ generators
def gen_policy_value(rng, key, zero_ok=0.03):
    if key == POL[0]:
        u = rng.random()
        if u < zero_ok:
            return 0 if rng.random() < 0.5 else 0.0
        if u < 0.5:
            return rng.choice([-20, -18, -25, -16, -12, -22.5, -17.3])
        return round(rng.uniform(-30, -5), rng.choice([0, 1, 2, 6]))
    return 10 ** rng.uniform(-4.6, -2.8)


def gen_bands(rng):
    """list of impairment entries of one profile"""
    lo, hi = C_BAND
    style = rng.random()
    if style < 0.30:
        rngs = [C_BAND]
    elif style < 0.55:
        rngs = [C_BAND, L_BAND] if rng.random() < 0.5 else [L_BAND, C_BAND]
    elif style < 0.70:
        mid = rng.choice([193.5e12, 193.7e12, round(rng.uniform(192e12, 195e12), -9)])
        rngs = [(lo, mid), (mid, hi)]
        if rng.random() < 0.4:
            rngs.append(L_BAND)
    elif style < 0.80:
        rngs = [(192.5e12, 194.5e12), C_BAND, L_BAND]             # overlapping: first match wins
    elif style < 0.92:
        rngs = [None]                                               # frequency-range with null bounds: everything
    elif style < 0.97:
        rngs = [C_BAND, None]
    else:
        rngs = [(192.0e12, 193.0e12)]                               # narrow: many carriers uncovered
    bands = []
    for r in rngs:
        b = {'lo': None, 'hi': None} if r is None else {'lo': r[0], 'hi': r[1]}
        u = rng.random()
        if u < 0.10:
            pass                                                    # key absent -> default 0
        elif u < 0.115:
            b['maxloss'] = None                                     # explicit null -> skipped
        elif u < 0.135:
            b['maxloss'] = -rng.choice([1, 2.5, 3])                 # nothing in gnpy rejects a negative loss
        elif u < 0.6:
            b['maxloss'] = rng.choice([0, 0.5, 5, 7.5, 11.5, 16.5, 18])
        else:
            b['maxloss'] = rng.uniform(0, 22)
        for key, vals in (('pmd', [0, 1e-12, 3e-12, 0.5e-12]), ('pdl', [0, 0.3, 0.5, 0.25])):
            u = rng.random()
            if u < 0.015:
                pass                                                # key absent: the entry is skipped for this key
            elif u < 0.02:
                b[key] = None
            else:
                b[key] = rng.choice(vals)
        bands.append(b)
    return bands


def gen_profiles(rng):
    n = rng.choice([0, 0, 1, 2, 3, 3, 4, 5])
    ids = rng.sample(range(0, 9), n)
    if n >= 2 and rng.random() < 0.04:
        ids[1] = ids[0]                                             # repeated id: the later definition wins
    return [{'id': i, 'type': rng.choice(['express', 'express', 'add', 'drop']), 'bands': gen_bands(rng)} for i in ids]


def gen_per_degree(rng, degrees, p_each=0.4):
    pd = {k: {} for k in PDEG}
    for d in degrees:
        if rng.random() < p_each:
            kinds = [rng.randrange(3)]
            if rng.random() < 0.08:
                kinds = rng.sample(range(3), 2)                     # two kinds on one degree: power > PSD > PSW
            for k in kinds:
                pd[PDEG[k]][d] = gen_policy_value(rng, POL[k], zero_ok=0.05)
    return {k: v for k, v in pd.items() if v or rng.random() < 0.3}


def path_bands(case, frm, to):
    """the impairment entries in force on the internal path frm->to, as the property reads the configuration:
    the first registered path frm->to; its profile by id, else the first profile of its type, else none (0 dB).
    Returns None when the configuration is broken (no such path / unknown id)."""
    profs = {}
    for p in case['profiles']:
        profs[p['id']] = p
    for c in case['calls']:
        if c['from'] == frm and c['to'] == to:
            if c['id'] is not None:
                return profs[c['id']]['bands'] if c['id'] in profs else None
            for p in profs.values():
                if p['type'] == c['type']:
                    return p['bands']
            return [{'lo': None, 'hi': None, 'pmd': case['pmd'], 'pdl': case['pdl']}]   # roadm_global_impairment
    return None


def chan_loss(bands, f):
    """'roadm-maxloss' of the first entry containing f that defines a value (absent key = 0 dB); None = uncovered"""
    for b in bands:
        if b['lo'] is None or b['lo'] <= f <= b['hi']:
            if 'maxloss' not in b:
                return 0.0
            if b['maxloss'] is not None:
                return float(b['maxloss'])
    return None


def chan_imp(bands, f, key):
    """'roadm-pmd' / 'roadm-pdl' of the first entry containing f that defines it; None = undefined for this carrier"""
    for b in bands:
        if (b['lo'] is None or b['lo'] <= f <= b['hi']) and b.get(key) is not None:
            return float(b[key])
    return None


def policy_in_force(case, deg):
    """(kind index, value) the property expects at egress degree `deg`, or None"""
    pd = case['per_degree']
    for k in range(3):
        if deg in pd.get(PDEG[k], {}):
            return k, pd[PDEG[k]][deg]
    vals = [(k, case['policy'][POL[k]]) for k in range(3) if case['policy'].get(POL[k]) is not None]
    return vals[0] if vals else None


def target_of(pol, baud, slot):
    k, v = pol
    return float(v) if k == 0 else db(v * (baud if k == 1 else slot) * 1e-9)


def covered_ranges(bands):
    out = []
    for b in bands:
        if b.get('maxloss', 0) is None:
            continue
        out.append((1.0e14, 2.5e14) if b['lo'] is None else (b['lo'], b['hi']))
    return out


def gen_spectrum(rng, bands, pol, big):
    """carriers with mixed baud rates / slot widths / offsets / powers; frequencies mostly inside the bands of the path"""
    cov = covered_ranges(bands) if bands else []
    free = rng.random() < 0.05 or not cov
    n = rng.choice([1, 1, 2, 3, 4, 5, 6, 8, 10, 12]) if not big else rng.randint(20, 60)
    if free:
        zones = [rng.choice([C_BAND, L_BAND, (190.0e12, 192.0e12)])]
    else:
        zones = [rng.choice(cov)]
        if len(cov) > 1 and rng.random() < 0.5:
            zones = sorted(set(rng.sample(cov, 2)))
    zones = [(max(lo, 1.80e14), min(hi, 2.0e14)) for lo, hi in zones]
    f, baud, slot = [], [], []
    per_zone = max(1, n // len(zones))
    last_edge = 0.0
    for lo, hi in zones:
        u = rng.random()
        sw0 = rng.choice([37.5e9, 50e9, 62.5e9, 75e9, 100e9, 112.5e9])
        if u < 0.12:
            x = lo                                                  # first carrier exactly on the lower edge
        elif u < 0.15:
            x = lo - rng.choice([1e6, 12.5e9])                      # just outside
        else:
            x = lo + rng.uniform(0, max(1e9, (hi - lo) * 0.6))
        x = max(x, last_edge + sw0 / 2 + 1e6)
        for i in range(per_zone):
            sw = sw0 if i == 0 else rng.choice([37.5e9, 50e9, 50e9, 62.5e9, 75e9, 87.5e9, 100e9, 112.5e9])
            if i > 0:
                x = last_edge + sw / 2 + rng.choice([1e6, 1e6, 12.5e9, 25e9, rng.uniform(1e6, 200e9)])
                if rng.random() < 0.05:
                    x = max(x, hi) if x > hi - 300e9 else x         # a carrier exactly on the upper edge
            br = rng.choice([b for b in (28e9, 32e9, 32e9, 42e9, 56e9, 64e9, 69e9, 85e9, 100e9) if b <= sw] or [sw])
            if rng.random() < 0.1:
                br = round(rng.uniform(0.5, 1.0) * sw, -6)
            f.append(float(x)), baud.append(float(br)), slot.append(float(sw))
            last_edge = x + sw / 2
    n = len(f)
    if rng.random() < 0.4:
        delta = [0.0] * n
    else:
        delta = [rng.choice([0, 0, 0.5, -0.5, 1, -1, 2, -2, 3, rng.uniform(-5, 5)]) for _ in range(n)]
    pdbm = []
    mode = rng.random()
    for i in range(n):
        loss = chan_loss(bands, f[i]) if bands else 0.0
        base = (target_of(pol, baud[i], slot[i]) if pol else -20.0) + delta[i] + (loss or 0.0)
        if mode < 0.15:
            p = base + rng.uniform(0.5, 25)                         # all above target
        elif mode < 0.25:
            p = base - rng.uniform(0.5, 20)                         # all below
        elif mode < 0.75:
            p = base + rng.choice([rng.uniform(-8, 8), rng.uniform(-0.01, 0.01), rng.choice([-3, 3, 0])])
        else:
            p = rng.uniform(-45, 8)
        pdbm.append(float(p))
    ase = [rng.choice([0, rng.uniform(0, 0.2)]) for _ in range(n)]
    nli = [rng.choice([0, rng.uniform(0, 0.1)]) for _ in range(n)]
    pmd = [rng.choice([0.0, 1e-12, 1e-12, 2.5e-12, rng.uniform(0, 5e-12)]) for _ in range(n)]
    pdl = [rng.choice([0.0, 0.1, 0.1, 0.45, rng.uniform(0, 2)]) for _ in range(n)]
    # the order in which the carriers are handed over is free (the spectrum object sorts by frequency)
    u = rng.random()
    order = list(range(n))
    if u < 0.5:
        rng.shuffle(order)
    elif u < 0.65:
        order.reverse()
    split = rng.randint(1, n - 1) if n >= 2 and rng.random() < 0.2 else None     # built as the sum of two spectra
    return {'f': f, 'baud': baud, 'slot': slot, 'delta': [float(d) for d in delta], 'pdbm': pdbm, 'ase': ase, 'nli': nli,
            'pmd': pmd, 'pdl': pdl, 'order': order, 'split': split}


def gen_case_A(rng, big=False):
    egress = [f'e{i}' for i in range(rng.randint(1, 3))] + ['t0']
    ingress = [f'i{i}' for i in range(rng.randint(1, 2))] + ['t0']
    u = rng.random()
    policy = {}
    if u < 0.89:
        k = rng.randrange(3)
        policy[POL[k]] = gen_policy_value(rng, POL[k])
    elif u < 0.94:
        for k in rng.sample(range(3), rng.choice([2, 2, 3])):
            policy[POL[k]] = gen_policy_value(rng, POL[k], zero_ok=0.3)     # 0 dBm is a value like any other
    elif u < 0.97:
        pass
    else:
        ks = rng.sample(range(3), rng.choice([1, 2]))
        policy[POL[ks[0]]] = None
        if len(ks) > 1:
            policy[POL[ks[1]]] = gen_policy_value(rng, POL[ks[1]])
    case = {'kind': 'A', 'policy': policy, 'per_degree': gen_per_degree(rng, egress),
            'pmd': rng.choice([0, 1e-12]), 'pdl': rng.choice([0, 0.5]), 'profiles': gen_profiles(rng)}
    ids = [p['id'] for p in case['profiles']]
    calls = []
    for a in ingress:
        for b in egress:
            if a == 't0' and b == 't0':
                continue
            if rng.random() < 0.03:
                continue                                            # path never registered
            typ = 'add' if a == 't0' else 'drop' if b == 't0' else 'express'
            iid = None
            if ids and rng.random() < 0.35:
                iid = rng.choice(ids)
            elif rng.random() < 0.004:
                iid = 77                                            # unknown profile id
            calls.append({'from': a, 'to': b, 'type': typ, 'id': iid})
    if calls and rng.random() < 0.05:
        calls.append(dict(rng.choice(calls), id=rng.choice(ids) if ids else None))   # registered twice: first wins
    case['calls'] = calls
    case['ref_carrier'] = None if rng.random() < 0.02 else \
        {'baud_rate': rng.choice([32e9, 32e9, 64e9, 42e9]), 'slot_width': rng.choice([50e9, 50e9, 75e9, 37.5e9])}
    case['ref_in'] = {a: float(rng.choice([0, 0, -3, rng.uniform(-25, 3)])) for a in ingress if rng.random() > 0.02}
    xs = []
    for _ in range(rng.randint(1, 4) if not big else 1):
        a, b = rng.choice(ingress), rng.choice(egress)
        if a == 't0' and b == 't0':
            b = egress[0]
        bands = path_bands(case, a, b)
        xs.append({'from': a, 'deg': b, 'spectrum': gen_spectrum(rng, bands, policy_in_force(case, b), big)})
    case['crossings'] = xs
    return case


def gen_case_L(rng, big=False):
    nb = rng.randint(1, 3)
    peers = 'BCD'[:nb]
    egress = [f'Edfa_booster_roadm A_to_fiber A{x}' for x in peers]
    ingress = [f'Edfa_preamp_roadm A_from_fiber {x}A' for x in peers]
    # the same ROADM configuration authored as a workbook (Nodes / Links / Eqpt / Roadms sheets) and converted
    xls = rng.random() < 0.22
    if xls:
        egress = [f'east edfa in A to {x}' for x in peers]          # the names the converter gives to the amplifiers
        ingress = [f'west edfa in A to {x}' for x in peers]
    fused = None
    if not xls and rng.random() < 0.4:
        # a neighbour ROADM F reached through fused elements only (no amplifier): its own target feeds roadm A
        kf = rng.randrange(3)
        fused = {'policy': {POL[kf]: gen_policy_value(rng, POL[kf])},
                 'loss_in': rng.choice([0, 0.5, 2.5, round(rng.uniform(0, 6), 2)]), 'loss_out': rng.choice([0, 1.5, 3])}
        egress.append('fused AF')
        ingress.append('fused FA')
    u = rng.random()
    eqp, elp = {}, {}
    k = rng.randrange(3)
    eqp[POL[k]] = gen_policy_value(rng, POL[k], zero_ok=0.05)
    if u < 0.30 or (xls and u < 0.86):
        pass                                                        # element silent: library default applies
    elif u < 0.78:
        k2 = rng.randrange(3)
        elp[POL[k2]] = gen_policy_value(rng, POL[k2], zero_ok=0.10)
    elif u < 0.86:
        for k2 in rng.sample(range(3), rng.choice([2, 2, 3])):      # element names several policies
            elp[POL[k2]] = gen_policy_value(rng, POL[k2], zero_ok=0.3)
    elif u < 0.91:
        eqp = {POL[k2]: gen_policy_value(rng, POL[k2], zero_ok=0.3) for k2 in rng.sample(range(3), 2)}   # library names several
    elif u < 0.95:
        eqp = {}                                                    # library names none
        if rng.random() < 0.5:
            elp[POL[k]] = gen_policy_value(rng, POL[k])
    elif u < 0.98:
        elp[POL[rng.randrange(3)]] = None                           # explicit null in the element
    else:
        eqp = {POL[k]: None}                                        # explicit null in the library
    p_each = rng.choice([0.0, 0.3, 0.3, 0.6, 1.0])
    if any(v is None for v in elp.values()) or any(v is None for v in eqp.values()):
        p_each = rng.choice([0.3, 1.0, 1.0])
    if xls:
        elp = {}                                                    # a Roadms sheet has no column for a node-level policy
    case = {'kind': 'L', 'peers': peers, 'eq_policy': eqp, 'policy': elp,
            'per_degree': gen_per_degree(rng, egress + (['trx A'] if rng.random() < 0.1 and not xls else []), p_each),
            'pmd': rng.choice([0, 1e-12]), 'pdl': rng.choice([0, 0.5]), 'profiles': gen_profiles(rng),
            'lengths': [rng.choice([20, 40, 60, 80]) for _ in peers], 'fused_peer': fused,
            'pref': rng.choice([0, 0, 0, -2, -1, 1, 2.5, 3])}
    # per_degree_impairments: mostly consistent with the path types inferred from the topology
    pdi = []
    for p in case['profiles']:
        if rng.random() < 0.3:
            typ = p['type']
            if rng.random() < 0.12:
                typ = rng.choice(['express', 'add', 'drop'])        # a profile of another type on this pair
            if typ == 'express':
                pdi.append({'from_degree': rng.choice(ingress), 'to_degree': rng.choice(egress), 'impairment_id': p['id']})
            elif typ == 'add':
                pdi.append({'from_degree': 'trx A', 'to_degree': rng.choice(egress), 'impairment_id': p['id']})
            else:
                pdi.append({'from_degree': rng.choice(ingress), 'to_degree': 'trx A', 'impairment_id': p['id']})
            if rng.random() < 0.02:
                pdi[-1]['to_degree'] = 'no such degree'
            if rng.random() < 0.02:
                pdi[-1]['impairment_id'] = 77                       # unknown profile id
    seen, case['per_degree_impairments'] = set(), []
    for i in pdi:
        if (i['from_degree'], i['to_degree']) not in seen or rng.random() < 0.3:     # a repeated pair: the later entry wins
            seen.add((i['from_degree'], i['to_degree']))
            case['per_degree_impairments'].append(i)
    if xls:
        # what a Roadms sheet can say: one row per direction A -> z with a dBm target and / or the impairment ids chosen for
        # the listed ingress directions; the configuration the oracle resolves from IS the sheet (derived right here)
        rows = []
        for x in peers:
            ex = [i for i in case['per_degree_impairments'] if i['to_degree'] == f'east edfa in A to {x}'
                  and i['from_degree'].startswith('west edfa in A to ')]
            tgt = next((tab[f'east edfa in A to {x}'] for k, tab in case['per_degree'].items() if f'east edfa in A to {x}' in tab), None)
            rows.append({'z': x, 'target': None if tgt is None else round(float(tgt), 2) if tgt > -1 else round(rng.uniform(-26, -8), 1),
                         'from': [i['from_degree'][len('west edfa in A to '):] for i in ex] or None,
                         'ids': [i['impairment_id'] for i in ex] or None})
        case['xls'] = {'rows': rows, 'fmt': 'xlsx'}
        case['per_degree'] = {PDEG[0]: {f"east edfa in A to {r['z']}": r['target'] for r in rows if r['target'] is not None}}
        case['per_degree_impairments'] = [{'from_degree': f'west edfa in A to {f}', 'to_degree': f"east edfa in A to {r['z']}",
                                           'impairment_id': i} for r in rows if r['from'] for f, i in zip(r['from'], r['ids'])]
    case['seeds'] = [rng.randrange(1 << 30) for _ in range(rng.randint(1, 3) if not big else 1)]
    case['big'] = big
    # amplifier settings upstream of the ingress degrees (delta_p, out_voa) for a second, direct call of
    # set_roadm_input_powers: the auto-design alone always leaves out_voa = 0 on the preamplifiers
    case['amp_settings'] = [[round(rng.uniform(-3, 3), 2), rng.choice([0, 0.5, 1, 2.5])] for _ in peers] \
        if rng.random() < 0.7 and not xls else None
    # persistence: the designed network is saved and loaded again through the routes the tool offers, designed again, and
    # every crossing must still obey the ORIGINAL configuration
    u = rng.random()
    case['persist'] = [] if u < 0.45 else ['legacy'] if u < 0.7 else ['yang'] if u < 0.9 else ['legacy', 'yang']
    if 'yang' in case['persist']:
        # the YANG-based format carries dBm targets with 2 and PSD / PSW targets with 10 fraction digits
        def q(key, v):
            return v if v is None else round(v, 2) if key in (POL[0], PDEG[0]) else round(v, 10)
        for d in (case['eq_policy'], case['policy']):
            for k in d:
                d[k] = q(k, d[k])
        for k, tab in case['per_degree'].items():
            for dg in tab:
                tab[dg] = q(k, tab[dg])
        if fused:
            for k in fused['policy']:
                fused['policy'][k] = q(k, fused['policy'][k])
    return case


# ------------------------------------------------------------------ implementation drivers
def roadm_params_json(case, profiles=True):
    prm = dict(case['policy'])
    prm.update(copy.deepcopy(case['per_degree']))
    prm.update({'add_drop_osnr': 38, 'pmd': case['pmd'], 'pdl': case['pdl'], 'restrictions': copy.deepcopy(RESTR)})
    if profiles:
        prm['roadm-path-impairments'] = profiles_json(case['profiles'])
    return prm


def profiles_json(profiles):
    out = []
    for p in profiles:
        items = []
        for b in p['bands']:
            it = {'frequency-range': {'lower-frequency': b['lo'], 'upper-frequency': b['hi']},
                  'roadm-cd': 0, 'roadm-inband-crosstalk': 0}
            for key in ('maxloss', 'pmd', 'pdl'):
                if key in b:
                    it['roadm-' + key] = b[key]
            items.append(it)
        out.append({'roadm-path-impairments-id': p['id'], PKEY[p['type']]: items})
    return out


def make_si(sp):
    """build the SpectralInformation from the carrier list in the order in which the case hands it over (sp['order'],
    any permutation: SpectralInformation sorts by frequency itself), either in one go or as the sum of two spectra.
    Returns the object and what was supplied PER CARRIER, sorted by frequency (the reference for everything else)."""
    import numpy as np
    from gnpy.core.info import create_arbitrary_spectral_information
    n = len(sp['f'])
    cols = {k: list(sp[k]) for k in ('f', 'baud', 'slot', 'delta', 'pdbm', 'ase', 'nli')}
    cols['pmd'] = list(sp.get('pmd', [1e-12] * n))
    cols['pdl'] = list(sp.get('pdl', [0.1] * n))
    order = list(sp.get('order') or range(n))

    def build(idx):
        pw = np.array([10 ** (cols['pdbm'][i] / 10) * 1e-3 for i in idx])
        return create_arbitrary_spectral_information(
            np.array([cols['f'][i] for i in idx]), slot_width=np.array([cols['slot'][i] for i in idx]), pch=pw,
            baud_rate=np.array([cols['baud'][i] for i in idx]), tx_osnr=40.0, tx_power=pw,
            delta_pdb_per_channel=np.array([cols['delta'][i] for i in idx]),
            pmd=np.array([cols['pmd'][i] for i in idx]), pdl=np.array([cols['pdl'][i] for i in idx]))
    k = sp.get('split')
    si = build(order) if not k else build(order[:k]) + build(order[k:])
    by_f = sorted(range(n), key=lambda i: cols['f'][i])
    sup = {key: [float(cols[key][i]) for i in by_f] for key in cols}
    si.add_ase(si.pch * np.array(sup['ase']))
    si.add_nli(si.pch * np.array(sup['nli']))
    sup['pin'] = [db(10 ** (p / 10) * (1 + a)) for p, a in zip(sup['pdbm'], sup['ase'])]
    return si, sup


def cross(roadm, x):
    """one Roadm.__call__; returns the observation record.  Inputs (frequency, baud rate, slot width, offset, power,
    pmd, pdl of each carrier) are recorded AS SUPPLIED per carrier, not as read back from the constructed object"""
    import numpy as np
    si, sup = make_si(x['spectrum'])
    rec = {'f': sup['f'], 'baud': sup['baud'], 'slot': sup['slot'], 'off': sup['delta'], 'pin': sup['pin'],
           'pmd_in': sup['pmd'], 'pdl_in': sup['pdl']}
    held = {'f': si.frequency, 'baud': si.baud_rate, 'slot': si.slot_width, 'off': si.delta_pdb_per_channel,
            'pmd_in': si.pmd, 'pdl_in': si.pdl, 'pin': [db(float(v) * 1e3) for v in si.pch]}
    bad = [k for k in held if len(held[k]) != len(rec[k]) or
           any(abs(float(a) - b) > 1e-9 * max(1.0, abs(b)) for a, b in zip(held[k], rec[k]))]
    if bad:
        rec['construction'] = f"the spectrum object does not hold, per carrier, what was supplied: {bad} " \
                              f"(e.g. {bad[0]}: held {[float(v) for v in held[bad[0]]][:6]}, supplied {rec[bad[0]][:6]})"
    before = (si._signal_ratio.copy(), si._ase_ratio.copy(), si._nli_ratio.copy(), si.frequency.copy(),
              si.baud_rate.copy(), si.slot_width.copy(), si.pmd.copy(), si.pdl.copy())
    try:
        with warnings.catch_warnings():
            warnings.simplefilter('ignore')
            so = roadm(si, degree=x['deg'], from_degree=x['from'])
    except Exception as e:   # every exception out of the crossing is an observation
        rec['exc'] = type(e).__name__
        rec['msg'] = str(e)[:160]
        return rec
    rec['out'] = [db(float(v) * 1e3) for v in so.pch]
    rec['same_object'] = so is si
    rec['ratios_same'] = bool(np.array_equal(so._signal_ratio, before[0]) and np.array_equal(so._ase_ratio, before[1])
                              and np.array_equal(so._nli_ratio, before[2]) and np.array_equal(so.frequency, before[3])
                              and np.array_equal(so.baud_rate, before[4]) and np.array_equal(so.slot_width, before[5]))
    rec['pch_out_attr'] = [float(v) for v in np.atleast_1d(roadm.pch_out_dbm)]
    rec['loss_attr'] = [float(v) for v in np.atleast_1d(roadm.loss_pch_db)]
    rec['ref_out'] = float(roadm.ref_pch_out_dbm)
    rec['ref_loss'] = float(roadm.ref_effective_loss)
    rec['pmd_out'] = [float(v) for v in so.pmd]
    rec['pdl_out'] = [float(v) for v in so.pdl]
    return rec


def drive_A(case):
    from gnpy.core.elements import Roadm
    from gnpy.core.info import ReferenceCarrier
    obs = {'stage': None, 'crossings': []}
    try:
        roadm = Roadm(uid='roadm X', params=roadm_params_json(case))
    except Exception as e:
        obs['stage'] = ('params', type(e).__name__, str(e)[:160])
        return obs
    obs['node'] = [roadm.target_pch_out_dbm, roadm.target_psd_out_mWperGHz, roadm.target_out_mWperSlotWidth]
    for c in case['calls']:
        try:
            roadm.set_roadm_paths(from_degree=c['from'], to_degree=c['to'], path_type=c['type'], impairment_id=c['id'])
        except Exception as e:
            obs['stage'] = ('paths', type(e).__name__, str(e)[:160])
            return obs
    if case['ref_carrier']:
        roadm.ref_carrier = ReferenceCarrier(**case['ref_carrier'])
    for k, v in case['ref_in'].items():
        roadm.ref_pch_in_dbm[k] = v
    for x in case['crossings']:
        obs['crossings'].append(cross(roadm, x))
    return obs


_EQPT = {}


def base_equipment():
    if 'eq' not in _EQPT:
        from pathlib import Path
        from gnpy.tools.json_io import load_equipment
        _EQPT['eq'] = load_equipment(Path(common.REPO) / 'tests' / 'data' / 'eqpt_config.json')
    return _EQPT['eq']


def topo_L(case):
    ra = {'uid': 'roadm A', 'type': 'Roadm', 'type_variety': 'c06', 'params': {}}
    ra['params'].update(case['policy'])
    ra['params'].update(copy.deepcopy(case['per_degree']))
    if case['per_degree_impairments']:
        ra['params']['per_degree_impairments'] = copy.deepcopy(case['per_degree_impairments'])
    els = [{'uid': 'trx A', 'type': 'Transceiver'}, ra]
    cx = [('trx A', 'roadm A'), ('roadm A', 'trx A')]
    for x, ln in zip(case['peers'], case['lengths']):
        els += [{'uid': f'trx {x}', 'type': 'Transceiver'}, {'uid': f'roadm {x}', 'type': 'Roadm'}]
        cx += [(f'trx {x}', f'roadm {x}'), (f'roadm {x}', f'trx {x}')]
        for a, b in (('A', x), (x, 'A')):
            els.append({'uid': f'fiber {a}{b}', 'type': 'Fiber', 'type_variety': 'SSMF',
                        'params': {'length': ln, 'length_units': 'km', 'loss_coef': 0.2, 'con_in': None, 'con_out': None}})
            cx += [(f'roadm {a}', f'fiber {a}{b}'), (f'fiber {a}{b}', f'roadm {b}')]
    fp = case.get('fused_peer')
    if fp:
        els += [{'uid': 'trx F', 'type': 'Transceiver'}, {'uid': 'roadm F', 'type': 'Roadm', 'params': dict(fp['policy'])},
                {'uid': 'fused FA', 'type': 'Fused', 'params': {'loss': fp['loss_in']}},
                {'uid': 'fused AF', 'type': 'Fused', 'params': {'loss': fp['loss_out']}}]
        cx += [('trx F', 'roadm F'), ('roadm F', 'trx F'), ('roadm F', 'fused FA'), ('fused FA', 'roadm A'),
               ('roadm A', 'fused AF'), ('fused AF', 'roadm F')]
    return {'elements': els, 'connections': [{'from_node': a, 'to_node': b} for a, b in cx]}


def workbook_L(case):
    """the topology of the case written as a real .xlsx workbook and converted by gnpy.tools.convert"""
    import tempfile
    from pathlib import Path
    from gnpy.tools import convert
    from . import c20                                   # workbook writer of the spreadsheet property

    def side(d):
        return {'distance': d, 'fiber': 'SSMF', 'lineic': None, 'con_in': None, 'con_out': None, 'pmd': None, 'cable': None}

    def amp(t):
        return {'amp_type': t, 'att_in': None, 'amp_gain': None, 'amp_dp': None, 'tilt': None, 'att_out': None}
    cities = 'A' + case['peers']
    rows = case['xls']['rows']
    book = {'layout': {'side': c20.SIDE_KEYS, 'amp': c20.AMP_KEYS, 'no_dp': False, 'pad': False},
            'nodes': [{'city': x, 'state': None, 'country': None, 'region': None, 'latitude': 0, 'longitude': 0, 'type': 'ROADM',
                       'booster': None, 'preamp': None} for x in cities],
            'links': [{'a': 'A', 'z': z, 'east': side(ln), 'west': side(ln)} for z, ln in zip(case['peers'], case['lengths'])],
            'eqpts': [{'a': 'A', 'z': z, 'east': amp('std_medium_gain'), 'west': amp('std_low_gain')} for z in case['peers']],
            'roadms': [{'a': 'A', 'z': r['z'], 'target': r['target'], 'variety': 'c06' if k == 0 else None,
                        'fd': ' | '.join(r['from']) if r['from'] else None,
                        'imp': ' | '.join(str(i) for i in r['ids']) if r['from'] else None} for k, r in enumerate(rows)],
            'services': None}
    with tempfile.TemporaryDirectory(dir=common.WORK) as td:
        fn = Path(td) / 'topology.xlsx'
        c20.write_xlsx(book, fn)
        return convert.xls_to_json_data(fn)


def feeds_of(net, roadm, case):
    """what feeds each ingress degree of `roadm`: walk upstream through fibres / fused elements (losses add up) to the
    first transceiver, amplifier or ROADM — topology and amplifier settings, i.e. inputs of the ROADM design step"""
    import gnpy.core.elements as elements
    out = []
    for el in net.predecessors(roadm):
        node, loss = el, 0.0
        while isinstance(node, (elements.Fiber, elements.Fused, elements.RamanFiber)):
            loss += node.loss
            node = next(net.predecessors(node))
        if isinstance(node, elements.Edfa):
            out.append({'deg': el.uid, 'kind': 'edfa', 'dp': float(node._delta_p), 'voa': float(node.out_voa), 'loss': float(loss)})
        elif isinstance(node, elements.Roadm):
            out.append({'deg': el.uid, 'kind': 'roadm', 'policy': case['fused_peer']['policy'], 'loss': float(loss)})
        elif isinstance(node, elements.Transceiver):
            out.append({'deg': el.uid, 'kind': 'trx', 'loss': float(loss)})
        else:
            raise RuntimeError(f'unexpected feed {node.uid}')
    return out


def drive_L(case, rng_mod):
    """equipment entry -> network_from_json -> design -> crossings on roadm A"""
    import gnpy.core.elements as elements
    from gnpy.core.network import add_missing_elements_in_network
    from gnpy.tools import json_io
    from gnpy.tools.worker_utils import designed_network
    import gnpy.core.network as nw
    obs = {'stage': None, 'crossings': [], 'next_oms': [], 'prev_oms': [], 'drops': [], 'adds': [], 'calls': [], 'xs': [],
           'feeds': [], 'warnings': []}
    eq = dict(base_equipment())
    eq['Roadm'] = dict(eq['Roadm'])
    entry = {'type_variety': 'c06', 'add_drop_osnr': 38, 'pmd': case['pmd'], 'pdl': case['pdl'],
             'restrictions': copy.deepcopy(RESTR), 'roadm-path-impairments': profiles_json(case['profiles'])}
    entry.update(case['eq_policy'])
    try:
        eq['Roadm']['c06'] = json_io.Roadm(**entry)
    except Exception as e:
        obs['stage'] = ('equipment', type(e).__name__, str(e)[:160])
        return obs
    try:
        net = json_io.network_from_json(workbook_L(case) if case.get('xls') else topo_L(case), eq)
    except Exception as e:
        obs['stage'] = ('load', type(e).__name__, str(e)[:160])
        return obs
    roadm = next(n for n in net.nodes() if n.uid == 'roadm A')
    obs['node'] = [roadm.target_pch_out_dbm, roadm.target_psd_out_mWperGHz, roadm.target_out_mWperSlotWidth]
    add_missing_elements_in_network(net, eq)
    obs['next_oms'] = [n.uid for n in net.successors(roadm) if not isinstance(n, elements.Transceiver)]
    obs['prev_oms'] = [n.uid for n in net.predecessors(roadm) if not isinstance(n, elements.Transceiver)]
    obs['drops'] = [n.uid for n in net.successors(roadm) if isinstance(n, elements.Transceiver)]
    obs['adds'] = [n.uid for n in net.predecessors(roadm) if isinstance(n, elements.Transceiver)]
    warn_orig = nw.logger.warning

    def warn_spy(msg, *a, **k):
        if isinstance(msg, str) and 'maximum target power' in msg and 'in ROADM "roadm A"' in msg:
            obs['warnings'].append((float(msg.split('maximum target power ')[1].split('dBm')[0]),
                                    msg.split('Min input power from "')[1].split('" direction')[0]))
        return warn_orig(msg, *a, **k)
    orig = elements.Roadm.set_roadm_paths
    calls = []

    def spy(self, from_degree, to_degree, path_type, impairment_id=None):
        if self is roadm:
            calls.append({'from': from_degree, 'to': to_degree, 'type': path_type, 'id': impairment_id})
        return orig(self, from_degree=from_degree, to_degree=to_degree, path_type=path_type, impairment_id=impairment_id)
    elements.Roadm.set_roadm_paths = spy
    nw.logger.warning = warn_spy
    try:
        with warnings.catch_warnings():
            warnings.simplefilter('ignore')
            designed_network(eq, net, no_insert_edfas=True, args_power=case.get('pref', 0))
    except Exception as e:
        obs['stage'] = ('design', type(e).__name__, str(e)[:160])
        obs['calls'] = calls
        return obs
    finally:
        elements.Roadm.set_roadm_paths = orig
        nw.logger.warning = warn_orig
    obs['calls'] = calls
    if case.get('amp_settings'):
        # same function, other amplifier settings
        for x, (dp, voa) in zip(case['peers'], case['amp_settings']):
            amp = next(n for n in net.nodes() if n.uid == f'Edfa_preamp_roadm A_from_fiber {x}A')
            amp._delta_p, amp.out_voa = dp, voa
        obs['warnings'].clear()
        nw.logger.warning = warn_spy
        try:
            nw.set_roadm_input_powers(net, roadm, eq, float(case.get('pref', 0)))
        finally:
            nw.logger.warning = warn_orig
    obs['feeds'] = feeds_of(net, roadm, case)
    obs['tables'] = [dict(roadm.per_degree_pch_out_dbm), dict(roadm.per_degree_pch_psd), dict(roadm.per_degree_pch_psw)]
    obs['ref_in'] = {k: float(v) for k, v in roadm.ref_pch_in_dbm.items()}
    obs['ref_carrier'] = {'baud_rate': float(roadm.ref_carrier.baud_rate), 'slot_width': float(roadm.ref_carrier.slot_width)}
    # crossings: drawn here because they depend on what the design produced (degrees, paths)
    view = dict(case, calls=configured_paths(case, obs), per_degree={PDEG[k]: obs['tables'][k] for k in range(3)},
                policy={POL[k]: obs['node'][k] for k in range(3)})
    for seed in case['seeds']:
        r = rng_mod.Random(seed)
        chosen = [cc for cc in calls if any(i['from_degree'] == cc['from'] and i['to_degree'] == cc['to']
                                            for i in case['per_degree_impairments'])]
        if chosen and r.random() < 0.5:
            c = r.choice(chosen)                  # a pair for which the user picked an impairment profile
        else:
            c = r.choice(calls) if (r.random() < 0.97 and calls) else {'from': 'trx A', 'to': 'trx A'}
        sp = gen_spectrum(r, path_bands(view, c['from'], c['to']), policy_in_force(view, c['to']), case.get('big', False))
        x = {'from': c['from'], 'deg': c['to'], 'spectrum': sp}
        obs['xs'].append(x)
        obs['crossings'].append(cross(roadm, x))
    obs['persist'] = []
    for route in case.get('persist') or []:
        import tempfile
        from pathlib import Path
        pr = {'route': route, 'xs': [], 'crossings': []}
        obs['persist'].append(pr)
        saved_err = os.dup(2)                     # libyang reports its validation errors on the process's stderr
        devnull = os.open(os.devnull, os.O_WRONLY)
        os.dup2(devnull, 2)
        try:
            with tempfile.TemporaryDirectory(dir=common.WORK) as td, warnings.catch_warnings():
                warnings.simplefilter('ignore')
                fn = Path(td) / 'network.json'
                if route == 'legacy':
                    json_io.save_network(net, fn)
                else:
                    json_io.save_gnpy_json(copy.deepcopy(json_io.network_to_json(net)), fn)
                net2 = json_io.load_network(fn, eq)
                designed_network(eq, net2, no_insert_edfas=True, args_power=case.get('pref', 0))
        except Exception as e:
            pr['exc'] = f'{type(e).__name__}: {str(e)[:200]}'
            continue
        finally:
            os.dup2(saved_err, 2)
            os.close(saved_err)
            os.close(devnull)
        r2 = next(n for n in net2.nodes() if n.uid == 'roadm A')
        pr['ref_in'] = {k: float(v) for k, v in r2.ref_pch_in_dbm.items()}
        pr['node'] = [r2.target_pch_out_dbm, r2.target_psd_out_mWperGHz, r2.target_out_mWperSlotWidth]
        r = rng_mod.Random(f"{case['seeds'][0]}-{route}")
        for cp in configured_paths(case, obs):            # every internal path of the reloaded ROADM
            sp = gen_spectrum(r, path_bands(view, cp['from'], cp['to']), policy_in_force(view, cp['to']), False)
            x = {'from': cp['from'], 'deg': cp['to'], 'spectrum': sp}
            pr['xs'].append(x)
            pr['crossings'].append(cross(r2, x))
    return obs


# ------------------------------------------------------------------ request-level stream (R)
NODES_R = 'ABC'
AMP_BAND_R = (191.3e12, 196.1e12)       # inside the band of every amplifier model of tests/data/eqpt_config.json


def inside_band(c, band):
    """the whole slot of the carrier lies inside the band"""
    return c['f'] - c['slot'] / 2 >= band[0] and c['f'] + c['slot'] / 2 <= band[1]


def gen_case_R(rng):
    """a triangle of ROADMs with their own policies, a transceiver whose modes carry equalization offsets, and path
    requests (automatic or imposed mode, uni/bidirectional) to be run through compute_path_with_disjunction"""
    roadms = {}
    for x in NODES_R:
        k = rng.randrange(3)
        others = [y for y in NODES_R if y != x]
        roadms[x] = {'policy': {POL[k]: gen_policy_value(rng, POL[k], zero_ok=0.0)} if rng.random() < 0.8 else {},
                     'per_degree': gen_per_degree(rng, [f'Edfa_booster_roadm {x}_to_fiber {x}{y}' for y in others], 0.3)}
    eqk = rng.randrange(3)
    profiles = []
    for i, t in enumerate(['express', 'add', 'drop']):
        if rng.random() < 0.6:
            profiles.append({'id': i, 'type': t, 'bands': [{'lo': None, 'hi': None, 'maxloss': rng.choice([0, 3.5, 7.5, 11.5, 16.5]),
                                                          'pmd': rng.choice([0, 1e-12]), 'pdl': rng.choice([0, 0.3])}]})
    modes = []
    for j in range(rng.randint(1, 4)):
        br, sp = rng.choice([(32e9, 50e9), (32e9, 37.5e9), (64e9, 75e9), (42e9, 50e9)])
        m = {'format': f'mode {j}', 'baud_rate': br, 'OSNR': rng.choice([8, 11, 15, 19, 24, 30]), 'bit_rate': rng.choice([100e9, 200e9]),
             'roll_off': 0.15, 'tx_osnr': rng.choice([35, 40, 45]), 'min_spacing': sp, 'cost': 1}
        if rng.random() < 0.8:
            m['equalization_offset_db'] = rng.choice([0, 1, -1.5, 2.5, 3, -3, round(rng.uniform(-4, 4), 2)])
        modes.append(m)
    if rng.random() < 0.5:
        # two modes of one baud rate that differ by their equalisation offset (explored one after the other, each on a
        # spectrum built with its own offset); thresholds drawn so that the first explored one is often infeasible
        base = rng.choice(modes)
        hi, lo = rng.sample([3, 2, 1.5, 0, -1, -2.5], 2)
        base['equalization_offset_db'] = max(hi, lo)
        base['OSNR'] = rng.choice([45, 45, 38, 15])
        twin = dict(base, format=f'mode {len(modes)}', equalization_offset_db=min(hi, lo), OSNR=rng.choice([8, 8, 11, 45]),
                    bit_rate=rng.choice([base['bit_rate'], 100e9, 200e9]))
        modes.append(twin)
    reqs = []
    for j in range(rng.randint(1, 3)):
        a, b = rng.sample(NODES_R, 2)
        imposed = rng.choice(modes) if rng.random() < 0.3 else None
        spacing = rng.choice([50e9, 75e9, 75e9, 100e9])
        if imposed:
            spacing = max(spacing, imposed['min_spacing'])          # an imposed mode needs at least its min_spacing
        reqs.append({'id': f'r{j}', 'src': a, 'dst': b, 'via': rng.choice([y for y in NODES_R if y not in (a, b)]) if rng.random() < 0.3 else None,
                     'mode': imposed['format'] if imposed else None, 'bidir': rng.random() < 0.75, 'spacing': spacing})
        if imposed and rng.random() < 0.7:
            # a user-defined spectrum (one Carrier per frequency, own offset / baud rate / slot width / power each) that
            # extends beyond the amplifiers' band at its lower and / or upper end: those carriers are filtered out on the way
            carriers, fcur = [], rng.choice([190.9e12, 190.95e12, 191.1e12, 191.2e12, 191.32e12])
            for _ in range(rng.randint(4, 12)):
                sw = rng.choice([50e9, 50e9, 75e9, 100e9])
                fcur += sw / 2
                carriers.append({'f': fcur, 'slot': sw, 'baud': rng.choice([b for b in (32e9, 42e9, 64e9) if b <= sw]),
                                 'delta': rng.choice([0, 0.5, -1, 1.5, 2, -2.5, round(rng.uniform(-4, 4), 2)]),
                                 'pdbm': rng.choice([0, 0, -1.5, 1, round(rng.uniform(-6, 3), 2)])})
                fcur += sw / 2 + rng.choice([0, 0, 12.5e9, 50e9])
            if rng.random() < 0.4:
                fcur = rng.choice([195.9e12, 196.0e12])
                for _ in range(rng.randint(1, 4)):
                    carriers.append({'f': fcur + 25e9, 'slot': 50e9, 'baud': 32e9, 'delta': rng.choice([0, 1, -2, 3]), 'pdbm': 0})
                    fcur += 50e9
            # carriers outside the band are the point, but not all of them: at least one lies inside the amplifiers' band
            while not any(inside_band(c, AMP_BAND_R) for c in carriers):
                sw = 50e9
                fcur = max(fcur, AMP_BAND_R[0]) + sw / 2
                carriers.append({'f': fcur, 'slot': sw, 'baud': 32e9, 'delta': rng.choice([0, 1.5, -2.5]), 'pdbm': 0})
                fcur += sw / 2
            rng.shuffle(carriers)                                   # a dict: any insertion order
            reqs[-1]['spectrum'] = carriers
    return {'kind': 'R', 'roadms': roadms, 'eq_policy': {POL[eqk]: gen_policy_value(rng, POL[eqk], zero_ok=0.0)},
            'pmd': rng.choice([0, 1e-12]), 'pdl': rng.choice([0, 0.5]), 'profiles': profiles, 'modes': modes, 'requests': reqs,
            'lengths': {a + b: rng.choice([20, 50, 80]) for a in NODES_R for b in NODES_R if a < b},
            'f_max': rng.choice([192.1e12, 192.6e12, 193.1e12])}


def topo_R(case):
    els, cx = [], []
    for x in NODES_R:
        prm = dict(case['roadms'][x]['policy'])
        prm.update(copy.deepcopy(case['roadms'][x]['per_degree']))
        els += [{'uid': f'trx {x}', 'type': 'Transceiver'}, {'uid': f'roadm {x}', 'type': 'Roadm', 'type_variety': 'c06', 'params': prm}]
        cx += [(f'trx {x}', f'roadm {x}'), (f'roadm {x}', f'trx {x}')]
    for a in NODES_R:
        for b in NODES_R:
            if a != b:
                els.append({'uid': f'fiber {a}{b}', 'type': 'Fiber', 'type_variety': 'SSMF',
                            'params': {'length': case['lengths'][min(a, b) + max(a, b)], 'length_units': 'km', 'loss_coef': 0.2,
                                       'con_in': None, 'con_out': None}})
                cx += [(f'roadm {a}', f'fiber {a}{b}'), (f'fiber {a}{b}', f'roadm {b}')]
    return {'elements': els, 'connections': [{'from_node': a, 'to_node': b} for a, b in cx]}


def requests_R(case):
    out = []
    for r in case['requests']:
        hops = ([f"roadm {r['via']}"] if r['via'] else []) + [f"trx {r['dst']}"]
        tb = {'technology': 'flexi-grid', 'trx_type': 'c06trx', 'spacing': r['spacing'], 'path_bandwidth': 100e9}
        if r['mode']:
            tb['trx_mode'] = r['mode']
        out.append({'request-id': r['id'], 'source': f"trx {r['src']}", 'destination': f"trx {r['dst']}",
                    'src-tp-id': f"trx {r['src']}", 'dst-tp-id': f"trx {r['dst']}", 'bidirectional': r['bidir'],
                    'path-constraints': {'te-bandwidth': tb},
                    'explicit-route-objects': {'route-object-include-exclude': [
                        {'explicit-route-usage': 'route-include-ero', 'index': i,
                         'num-unnum-hop': {'node-id': h, 'link-tp-id': 'link-tp-id is not used', 'hop-type': 'STRICT'}}
                        for i, h in enumerate(hops)]}})
    return {'path-request': out}


def drive_R(case):
    """real path requests through compute_path_dsjctn / compute_path_with_disjunction; every Roadm.__call__ is observed
    (per carrier input / output power and what the element reports), grouped by the propagation it belongs to"""
    import numpy as np
    import gnpy.core.elements as elements
    import gnpy.topology.request as rq
    from gnpy.tools import json_io
    from gnpy.tools.worker_utils import designed_network
    obs = {'stage': None, 'requests': []}
    eq = dict(base_equipment())
    eq['Roadm'] = dict(eq['Roadm'])
    eq['Transceiver'] = dict(eq['Transceiver'])
    entry = {'type_variety': 'c06', 'add_drop_osnr': 38, 'pmd': case['pmd'], 'pdl': case['pdl'],
             'restrictions': copy.deepcopy(RESTR), 'roadm-path-impairments': profiles_json(case['profiles'])}
    entry.update(case['eq_policy'])
    events = []
    orig_call, orig_prop, orig_auto = elements.Roadm.__call__, rq.propagate, rq.propagate_and_optimize_mode

    def spy_call(self, spectral_info, degree, from_degree):
        ev = {'roadm': self.uid, 'deg': degree, 'from': from_degree,
              'f': [float(v) for v in spectral_info.frequency], 'baud': [float(v) for v in spectral_info.baud_rate],
              'slot': [float(v) for v in spectral_info.slot_width], 'pin': [db(float(v) * 1e3) for v in spectral_info.pch],
              'pmd_in': [float(v) for v in spectral_info.pmd], 'pdl_in': [float(v) for v in spectral_info.pdl],
              'ref_in': {k: float(v) for k, v in self.ref_pch_in_dbm.items()}}
        before = (spectral_info._signal_ratio.copy(), spectral_info._ase_ratio.copy(), spectral_info._nli_ratio.copy())
        events.append(ev)
        so = orig_call(self, spectral_info, degree=degree, from_degree=from_degree)
        ev['out'] = [db(float(v) * 1e3) for v in so.pch]
        ev['ratios_same'] = bool(np.array_equal(so._signal_ratio, before[0]) and np.array_equal(so._ase_ratio, before[1])
                                 and np.array_equal(so._nli_ratio, before[2]) and len(so.frequency) == len(ev['f']))
        ev['pch_out_attr'] = [float(v) for v in np.atleast_1d(self.pch_out_dbm)]
        ev['loss_attr'] = [float(v) for v in np.atleast_1d(self.loss_pch_db)]
        ev['ref_out'], ev['ref_loss'] = float(self.ref_pch_out_dbm), float(self.ref_effective_loss)
        ev['pmd_out'], ev['pdl_out'] = [float(v) for v in so.pmd], [float(v) for v in so.pdl]
        return so

    def spy_prop(path, req, equipment):
        events.append({'mark': 'propagate', 'req': req.request_id, 'src': path[0].uid,
                       'n_roadms': sum(isinstance(e, elements.Roadm) for e in path)})
        return orig_prop(path, req, equipment)

    def spy_auto(path, req, equipment):
        events.append({'mark': 'auto', 'req': req.request_id, 'src': path[0].uid,
                       'n_roadms': sum(isinstance(e, elements.Roadm) for e in path)})
        return orig_auto(path, req, equipment)
    try:
        trx = {'type_variety': 'c06trx', 'frequency': {'min': 191.35e12, 'max': case['f_max']}, 'mode': copy.deepcopy(case['modes'])}
        eq['Transceiver']['c06trx'] = json_io.Transceiver(**trx)
        eq['Roadm']['c06'] = json_io.Roadm(**entry)
        net = json_io.network_from_json(topo_R(case), eq)
        with warnings.catch_warnings():
            warnings.simplefilter('ignore')
            designed_network(eq, net)
        from gnpy.topology.spectrum_assignment import build_oms_list
        build_oms_list(net, eq)
        # the band common to the amplifiers of the designed network (configuration data of the amplifier models)
        amps = [n for n in net.nodes() if isinstance(n, elements.Edfa)]
        obs['amp_band'] = [max(float(a.params.f_min) for a in amps), min(float(a.params.f_max) for a in amps)]
        rqs = json_io.requests_from_json(requests_R(case), eq)
        from gnpy.core.info import Carrier
        for r, req in zip(case['requests'], rqs):
            if r.get('spectrum'):
                req.initial_spectrum = {c['f']: Carrier(delta_pdb=c['delta'], baud_rate=c['baud'], slot_width=c['slot'], roll_off=0.15,
                                                        tx_osnr=40, tx_power=10 ** (c['pdbm'] / 10) * 1e-3, label='user')
                                        for c in r['spectrum']}
                req.nb_channel = len(r['spectrum'])
        pths = rq.compute_path_dsjctn(net, eq, rqs, [])
        elements.Roadm.__call__, rq.propagate, rq.propagate_and_optimize_mode = spy_call, spy_prop, spy_auto
        with warnings.catch_warnings():
            warnings.simplefilter('ignore')
            rq.compute_path_with_disjunction(net, eq, rqs, pths)
    except Exception as e:
        obs['stage'] = ('requests', type(e).__name__, str(e)[:200])
        return obs
    finally:
        elements.Roadm.__call__, rq.propagate, rq.propagate_and_optimize_mode = orig_call, orig_prop, orig_auto
    obs['ref_carrier'] = {'baud_rate': float(eq['SI']['default'].baud_rate), 'slot_width': float(eq['SI']['default'].spacing)}
    # group the crossings: per request, the propagation in force in each direction
    groups, cur = [], None
    for ev in events:
        if 'mark' in ev:
            cur = dict(ev, crossings=[])
            groups.append(cur)
        elif cur is not None:
            cur['crossings'].append(ev)
    for r, req in zip(case['requests'], rqs):
        mode = getattr(req, 'tsp_mode', None)
        rec = {'id': r['id'], 'mode_in_force': mode, 'blocking': getattr(req, 'blocking_reason', None), 'passes': []}
        for g in groups:
            if g['req'] != r['id'] or not g['crossings'] or not g['n_roadms']:
                continue
            direction = 'A->Z' if g['src'] == f"trx {r['src']}" else 'Z->A'
            # automatic mode selection propagates once per candidate baud rate / offset: the last pass is the one in force
            rec['passes'].append({'direction': direction, 'kind': g['mark'], 'crossings': g['crossings'][-g['n_roadms']:],
                                  'tried_before': len(g['crossings']) // g['n_roadms'] - 1})
        obs['requests'].append(rec)
    return obs


def views_R(case, obs):
    """for every observed crossing in force: the element-level configuration (as the user wrote it) it must obey, the
    crossing descriptor and the observation record, in the shapes used by the element-level stream"""
    out = []
    offsets = {m['format']: m.get('equalization_offset_db', 0) for m in case['modes']}
    user = {r['id']: {c['f']: c for c in r['spectrum']} for r in case['requests'] if r.get('spectrum')}
    for rec in obs['requests']:
        if rec['mode_in_force'] not in offsets:
            continue
        off = float(offsets[rec['mode_in_force']])
        for ps in rec['passes']:
            for ev in ps['crossings']:
                x = ev['roadm'][-1]
                cfg = case['roadms'][x]
                typ = 'add' if ev['from'].startswith('trx') else 'drop' if ev['deg'].startswith('trx') else 'express'
                view = {'kind': 'A', 'policy': cfg['policy'] if cfg['policy'] else case['eq_policy'], 'per_degree': cfg['per_degree'],
                        'pmd': case['pmd'], 'pdl': case['pdl'], 'profiles': case['profiles'],
                        'calls': [{'from': ev['from'], 'to': ev['deg'], 'type': typ, 'id': None}],
                        'ref_carrier': obs['ref_carrier'], 'ref_in': ev['ref_in'], 'crossings': []}
                r2 = dict(ev, off=[off] * len(ev['f']))       # the offset of the mode in force, for every carrier
                if rec['id'] in user:
                    # user-defined spectrum: every carrier that reaches the ROADM keeps the offset supplied for ITS frequency,
                    # whatever was filtered out by the amplifiers' band on the way
                    sup = user[rec['id']]
                    r2['off'] = [float(sup[f]['delta']) if f in sup else 0.0 for f in ev['f']]
                    alien = [f for f in ev['f'] if f not in sup]
                    wrong = [f for f in ev['f'] if f in sup and (sup[f]['baud'] != ev['baud'][ev['f'].index(f)]
                                                                  or sup[f]['slot'] != ev['slot'][ev['f'].index(f)])]
                    if alien or wrong:
                        r2['construction'] = f'carriers reaching the ROADM do not match the supplied ones: unknown {alien}, altered {wrong}'
                    r2['n_supplied'] = len(sup)
                xd = {'from': ev['from'], 'deg': ev['deg']}
                view['crossings'] = [xd]
                what = 'user-defined spectrum, per-carrier offsets' if rec['id'] in user else f'offset {off} dB'
                out.append((view, xd, r2, f"request {rec['id']} {ps['direction']} ({ps['kind']}, mode {rec['mode_in_force']}, "
                                          f"{what}) {ev['roadm']} {ev['from']}->{ev['deg']}"))
    return out


# ------------------------------------------------------------------ property oracle on the implementation's observations
def oracle_crossing(view, x, rec, tag):
    """view: configuration in force (policy / per_degree / calls / profiles / ref_in / ref_carrier).
    Returns (failures, judged): failures = [(key, description)]"""
    fails = []
    if 'construction' in rec:
        fails.append(('spectrum_construction', f"{tag}: {rec['construction']}"))     # and go on judging against what was supplied
    bands = path_bands(view, x['from'], x['deg'])
    pol = policy_in_force(view, x['deg'])
    n = len(rec['f'])
    losses = [chan_loss(bands, f) for f in rec['f']] if bands is not None else None
    imps = {k: [chan_imp(bands, f, k) for f in rec['f']] for k in ('pmd', 'pdl')} if bands is not None else None
    well = (bands is not None and pol is not None and losses is not None and all(l is not None for l in losses)
            and all(v is not None for k in ('pmd', 'pdl') for v in imps[k])
            and x['from'] in view['ref_in'] and (pol[0] == 0 or view['ref_carrier'] is not None))
    if not well:
        return fails, False                       # broken configuration: only the correspondence judges it
    if 'exc' in rec:
        fails.append(('exception_on_valid_crossing', f"{tag}: {rec['exc']}: {rec['msg']}"))
        return fails, True
    if len(rec['out']) != n or not rec['ratios_same']:
        fails.append(('quality', f'{tag}: carriers / shares / frequencies changed across the ROADM'))
        return fails, True
    for i in range(n):
        tgt = target_of(pol, rec['baud'][i], rec['slot'][i]) + rec['off'][i]
        exp = min(tgt, rec['pin'][i] - losses[i])
        if abs(rec['out'][i] - exp) > TOL:
            fails.append(('formula', f"{tag}: carrier {i} leaves at {rec['out'][i]:.9f} dBm, expected "
                                     f"min({tgt:.9f}, {rec['pin'][i]:.9f} - {losses[i]}) = {exp:.9f}"))
            break
        if losses[i] >= 0 and rec['out'][i] > rec['pin'][i] + TOL:
            fails.append(('gain', f"{tag}: carrier {i} enters at {rec['pin'][i]:.9f} dBm and leaves at {rec['out'][i]:.9f}"))
            break
        if abs(rec['pch_out_attr'][i] - rec['out'][i]) > TOL or abs(rec['loss_attr'][i] - (rec['pin'][i] - rec['out'][i])) > TOL:
            fails.append(('report', f'{tag}: pch_out_dbm / loss_pch_db do not describe what was done to carrier {i}'))
            break
    if not fails:
        rc = view['ref_carrier'] or {'baud_rate': 1.0, 'slot_width': 1.0}
        exp_ref = min(view['ref_in'][x['from']] - max(losses), target_of(pol, rc['baud_rate'], rc['slot_width']))
        if abs(rec['ref_out'] - exp_ref) > TOL or abs(rec['ref_loss'] - (view['ref_in'][x['from']] - exp_ref)) > TOL:
            fails.append(('reference_channel', f"{tag}: ref_pch_out_dbm {rec['ref_out']:.9f} / ref_effective_loss "
                                               f"{rec['ref_loss']:.9f}, expected {exp_ref:.9f}"))
    for i in range(n if not fails else 0):
        # PMD / PDL of the internal path are added in quadrature (secondary clause)
        for key in ('pmd', 'pdl'):
            before, after, imp = rec[key + '_in'][i], rec[key + '_out'][i], imps[key][i]
            if abs(after ** 2 - (before ** 2 + imp ** 2)) > 1e-9 * (before ** 2 + imp ** 2) or after < before:
                fails.append(('pmd_pdl', f'{tag}: {key} of carrier {i}: {before} -> {after}, expected quadrature sum with {imp}'))
                break
    return fails, True


def count_pol(d):
    return sum(1 for k in POL if k in d), sum(1 for k in POL if d.get(k) is not None)


def oracle_A(case, obs):
    """single-policy clause on a directly constructed element (RoadmParams)"""
    _, nv = count_pol(case['policy'])
    rejected = obs['stage'] is not None and obs['stage'][0] == 'params'
    if nv > 1 and not rejected:
        return [('invalid_policy_accepted', f"{nv} node-level policies {case['policy']} accepted (in force: {obs.get('node')})")]
    if nv <= 1 and rejected:
        return [('valid_policy_rejected', f"{case['policy']}: {obs['stage'][1]}: {obs['stage'][2]}")]
    if not rejected and obs.get('node') != [case['policy'].get(k) for k in POL]:
        return [('policy_in_force', f"node policy {obs.get('node')} but configuration says {case['policy']}")]
    return []


def pdi_broken(case, obs):
    """does per_degree_impairments name an unknown degree / unknown profile, or a profile whose type does not fit a
    transceiver degree?  (read off the configuration and the degree lists, independently of the model)"""
    profs = {}
    for p in case['profiles']:
        profs[p['id']] = p['type']
    last = {}
    for i in case['per_degree_impairments']:
        last[(i['from_degree'], i['to_degree'])] = i['impairment_id']
    for (a, b), iid in last.items():
        if a not in obs['prev_oms'] + obs['adds'] or b not in obs['next_oms'] + obs['drops']:
            return True
        if iid not in profs:
            return True
        want = 'add' if a in obs['adds'] else 'drop' if b in obs['drops'] else None
        if want and profs[iid] != want:
            return True
    return False


def configured_paths(case, obs):
    """the internal paths the configuration asks for, read off the topology and per_degree_impairments only: express
    between line degrees, drop towards / add from the transceiver degrees, each with the impairment id the user chose
    for that (from, to) pair (the last entry for a pair counts), else none (= first library profile of that type)"""
    chosen = {}
    for i in case['per_degree_impairments']:
        chosen[(i['from_degree'], i['to_degree'])] = i['impairment_id']
    pairs = [(a, b, 'express') for a in obs['prev_oms'] for b in obs['next_oms']] \
        + [(a, b, 'drop') for a in obs['prev_oms'] for b in obs['drops']] \
        + [(a, b, 'add') for a in obs['adds'] for b in obs['next_oms']]
    return [{'from': a, 'to': b, 'type': t, 'id': chosen.get((a, b))} for a, b, t in pairs]


def oracle_L(case, obs):
    fails = []
    ep, ev = count_pol(case['eq_policy'])
    lp, lv = count_pol(case['policy'])
    has_null = ep != ev or lp != lv
    rejected = obs['stage'] is not None
    conf_err = rejected and obs['stage'][1] in ('ConfigurationError', 'EquipmentConfigError', 'ParametersError',
                                                'NetworkTopologyError')
    if rejected and not conf_err:
        fails.append(('loader_crash', f"{obs['stage'][0]}: {obs['stage'][1]}: {obs['stage'][2]}"))
        return fails
    if rejected and obs['stage'][1] == 'NetworkTopologyError' and pdi_broken(case, obs):
        return fails                              # wrong per_degree_impairments entry: not a matter of policy
    must_reject = ep != 1 or lp > 1
    if must_reject:
        if not rejected:
            fails.append(('invalid_policy_accepted', f'equipment names {ep} policies, element names {lp}: accepted'))
        return fails
    expected = dict(case['policy']) if lp == 1 else dict(case['eq_policy'])
    exp_vals = [expected.get(k) for k in POL]
    if has_null and all(v is None for v in exp_vals):
        # no policy is in force: the configuration must not be accepted
        if not rejected:
            fails.append(('null_policy_accepted', 'a null policy value leaves the ROADM without node-level policy, '
                                                  f"yet it was loaded and designed (node {obs['node']})"))
        return fails
    if rejected:
        fails.append(('valid_policy_rejected', f"exactly one policy ({expected}) is configured but "
                                               f"{obs['stage'][0]} raised {obs['stage'][1]}: {obs['stage'][2]}"))
        return fails
    if obs['node'] != exp_vals or sum(v is not None for v in obs['node']) != 1:
        fails.append(('policy_in_force', f"node policy {obs['node']} but configuration says {exp_vals}"))
    user = case['per_degree']
    for d in obs['next_oms']:
        got = [(k, obs['tables'][k][d]) for k in range(3) if d in obs['tables'][k]]
        want = [(k, user[PDEG[k]][d]) for k in range(3) if d in user.get(PDEG[k], {})]
        if not want:
            want = [(k, v) for k, v in enumerate(exp_vals) if v is not None]
        if got != want:
            fails.append(('per_degree_population', f'egress {d}: tables hold {got}, configuration says {want}'))
    for k in range(3):
        for d, v in user.get(PDEG[k], {}).items():
            if obs['tables'][k].get(d) != v:
                fails.append(('per_degree_population', f'user entry {PDEG[k]}[{d}]={v} not kept'))
    # the impairment profile in force on every internal path is the configured one
    reg = {}
    for c in obs['calls']:
        reg.setdefault((c['from'], c['to']), c)
    for w in configured_paths(case, obs):
        got = reg.get((w['from'], w['to']))
        if got is None or got['type'] != w['type'] or got['id'] != w['id']:
            fails.append(('impairment_in_force', f"internal path {w['from']} -> {w['to']}: configured {w['type']} with "
                                                 f"impairment id {w['id']}, registered {got}"))
            break
    return fails


# ------------------------------------------------------------------ model side
def deg_ids(names):
    return {n: i + 1 for i, n in enumerate(sorted(set(names)))}


def kv_lit(d, key, conv):
    if key not in d:
        return 'Absent'
    if d[key] is None:
        return 'Null'
    return f'(Val {qlit(conv(d[key]))})'


def keys3_lit(d):
    return f'(mkK {kv_lit(d, POL[0], float)} {kv_lit(d, POL[1], db)} {kv_lit(d, POL[2], db)})'


def dict_lit(d, ids, conv):
    return listlit([f'dg {ids[k]} {qlit(conv(v))}' for k, v in d.items()])


def band_lit(b):
    ml, pmd, pdl = ('Absent' if k not in b else 'Null' if b[k] is None else f"(vq {qlit(float(b[k]))})"
                    for k in ('maxloss', 'pmd', 'pdl'))
    if b['lo'] is None:
        return f'bdall {ml} {pmd} {pdl}'
    return f"bd {qlit(float(b['lo']))} {qlit(float(b['hi']))} {ml} {pmd} {pdl}"


def profiles_lit(profiles):
    return listlit([f"pf {zlit(p['id'])} {PTYPE[p['type']]} {listlit([band_lit(b) for b in p['bands']])}" for p in profiles])


def calls_lit(calls, ids):
    return listlit([f"cl {ids[c['from']]} {ids[c['to']]} {PTYPE[c['type']]} "
                    f"{'None' if c['id'] is None else '(Some ' + zlit(c['id']) + ')'}" for c in calls])


def refc_lit(rc):
    return 'norc' if not rc else f"(rc {qlit(db(rc['baud_rate'] / 1e9))} {qlit(db(rc['slot_width'] / 1e9))})"


def cross_lit(x, rec, ids):
    chans = [f"ch {qlit(rec['f'][i])} {qlit(db(rec['baud'][i] / 1e9))} {qlit(db(rec['slot'][i] / 1e9))} "
             f"{qlit(rec['off'][i])} {qlit(rec['pin'][i])} {qlit(rec['pmd_in'][i])} {qlit(rec['pdl_in'][i])}"
             for i in range(len(rec['f']))]
    return f"xg {ids[x['deg']]} {ids[x['from']]} {listlit(chans)}"


def all_names(case, obs, xs):
    names = ['__none__']
    for k in PDEG:
        names += list(case['per_degree'].get(k, {}))
    for c in obs.get('calls', []) + case.get('calls', []):
        names += [c['from'], c['to']]
    names += list(obs.get('ref_in', {})) + list(case.get('ref_in', {})) + obs.get('next_oms', [])
    names += obs.get('prev_oms', []) + obs.get('drops', []) + obs.get('adds', [])
    for i in case.get('per_degree_impairments', []):
        names += [i['from_degree'], i['to_degree']]
    for x in xs:
        names += [x['from'], x['deg']]
    return names


def term_A(case, obs):
    xs = case['crossings'][:len(obs['crossings'])]
    ids = deg_ids(all_names(case, obs, case['crossings']))
    pd = case['per_degree']
    return (f"runA {keys3_lit(case['policy'])} {qlit(case['pmd'])} {qlit(case['pdl'])} {dict_lit(pd.get(PDEG[0], {}), ids, float)} "
            f"{dict_lit(pd.get(PDEG[1], {}), ids, db)} {dict_lit(pd.get(PDEG[2], {}), ids, db)} "
            f"{profiles_lit(case['profiles'])} {calls_lit(case['calls'], ids)} {refc_lit(case['ref_carrier'])} "
            f"{dict_lit(case['ref_in'], ids, float)} "
            f"{listlit([cross_lit(x, r, ids) for x, r in zip(xs, obs['crossings'])])}"), ids


def policy_lit(pol):
    (k, v), = pol.items()
    return f"({['Power', 'Psd', 'Psw'][POL.index(k)]} {qlit(float(v) if k == POL[0] else db(v))})"


def feed_lit(f, ids):
    if f['kind'] == 'trx':
        return f"ftrx {ids[f['deg']]} {qlit(f['loss'])}"
    if f['kind'] == 'edfa':
        return f"fedfa {ids[f['deg']]} {qlit(f['dp'])} {qlit(f['voa'])} {qlit(f['loss'])}"
    return f"froadm {ids[f['deg']]} {policy_lit(f['policy'])} {qlit(f['loss'])}"


def term_L(case, obs):
    ids = deg_ids(all_names(case, obs, obs['xs']))
    pd = case['per_degree']
    rc = obs.get('ref_carrier') or {'baud_rate': 32e9, 'slot_width': 50e9}
    zl = lambda names: listlit([str(ids[d]) for d in names])
    pdis = listlit([f"pd3 {ids[i['from_degree']]} {ids[i['to_degree']]} {zlit(i['impairment_id'])}"
                    for i in case['per_degree_impairments']])
    return (f"runL {keys3_lit(case['eq_policy'])} {keys3_lit(case['policy'])} {qlit(case['pmd'])} {qlit(case['pdl'])} "
            f"{dict_lit(pd.get(PDEG[0], {}), ids, float)} {dict_lit(pd.get(PDEG[1], {}), ids, db)} "
            f"{dict_lit(pd.get(PDEG[2], {}), ids, db)} {zl(obs['next_oms'])} "
            f"{profiles_lit(case['profiles'])} {pdis} {zl(obs['prev_oms'])} {zl(obs['drops'])} {zl(obs['adds'])} "
            f"{qlit(float(case.get('pref', 0)))} {qlit(db(rc['baud_rate'] / 1e9))} {qlit(db(rc['slot_width'] / 1e9))} "
            f"{listlit([feed_lit(f, ids) for f in obs['feeds']])} "
            f"{listlit([cross_lit(x, r, ids) for x, r in zip(obs['xs'], obs['crossings'])])}"), ids


def fr(s):
    """a number rendered by Run/C06.v q_s: <hex numerator>/<hex denominator>"""
    a, b = s.split('/')
    return float(Fraction(int(a, 16), int(b, 16)))


def parse_cross(seg):
    if seg.startswith('E:'):
        return {'exc': seg[2:].split(':')[0]}
    a, b, c, d, e, f = seg.split('|')
    return {'out': [fr(v) for v in a.split(',') if v], 'loss': [fr(v) for v in b.split(',') if v],
            'ref_out': fr(c), 'ref_loss': fr(d),
            'pmd2': [fr(v) for v in e.split(',') if v], 'pdl2': [fr(v) for v in f.split(',') if v]}


def close(a, b):
    return len(a) == len(b) and all(abs(x - y) <= TOL for x, y in zip(a, b))


def diff_cross(rec, m):
    """None when implementation observation and model agree on one crossing, else a short description"""
    if 'exc' in rec or 'exc' in m:
        if rec.get('exc') != m.get('exc'):
            return f"implementation {rec.get('exc', 'returns')} vs model {m.get('exc', 'returns')}"
        return None
    if not close(rec['out'], m['out']):
        return 'per-channel output power'
    if not close(rec['loss_attr'], m['loss']):
        return 'loss_pch_db'
    if abs(rec['ref_out'] - m['ref_out']) > TOL or abs(rec['ref_loss'] - m['ref_loss']) > TOL:
        return 'ref_pch_out_dbm / ref_effective_loss'
    for key in ('pmd', 'pdl'):
        if len(rec[key + '_out']) != len(m[key + '2']) or any(abs(a * a - b) > 1e-9 * b for a, b in zip(rec[key + '_out'], m[key + '2'])):
            return f'{key} after the crossing (quadrature accumulation)'
    return None


def parse_tables(seg, ids):
    back = {v: k for k, v in ids.items()}
    parts = seg[2:].split('|')
    tabs = []
    for p in parts[:3] + [parts[5]]:
        tabs.append({back[int(e.split('=')[0])]: fr(e.split('=')[1]) for e in p.split(',') if e})
    calls = []
    for e in parts[4].split(','):
        if e:
            a, b, t, i = e.split(':')
            calls.append({'from': back[int(a)], 'to': back[int(b)], 'type': {'x': 'express', 'a': 'add', 'd': 'drop'}[t],
                          'id': None if i == 'N' else int(i)})
    warned = sorted(back[int(v)] for v in parts[7].strip('[]').split(',') if v)
    return tabs[:3], parts[3], calls, tabs[3], fr(parts[6]), warned


def compare(case, obs, line, ids):
    """returns (correspondence name, description, impl, model) or None"""
    segs = line.split(';')
    stage = obs['stage']
    if segs[0].startswith('R:'):
        mt = segs[0][2:].split(':')[0]
        if stage is None:
            return ('corr:Roadm.load', 'model rejects, implementation accepts', 'accepted', segs[0])
        if stage[1] != mt:
            return ('corr:Roadm.load', 'different rejection', f'{stage[0]}:{stage[1]}', segs[0])
        return None
    if stage is not None:
        return ('corr:Roadm.load', 'implementation rejects, model accepts', f'{stage[0]}:{stage[1]}: {stage[2]}', segs[0][:200])
    if case['kind'] == 'L':
        tabs, node, mcalls, mrin, msup, mwarn = parse_tables(segs[0], ids)
        convs = [float, db, db]
        for k in range(3):
            it = {d: convs[k](v) for d, v in obs['tables'][k].items()}
            if set(it) != set(tabs[k]) or any(abs(it[d] - tabs[k][d]) > TOL for d in it):
                return ('corr:network.set_roadm_per_degree_targets', f'{PDEG[k]} after design', it, tabs[k])
        kinds = ['pow', 'psd', 'psw']
        inode = next(((kinds[k], convs[k](v)) for k, v in enumerate(obs['node']) if v is not None), None)
        mnode = None if node == 'none' else (node.split('=')[0], fr(node.split('=')[1]))
        if (inode is None) != (mnode is None) or (inode and (inode[0] != mnode[0] or abs(inode[1] - mnode[1]) > TOL)):
            return ('corr:Roadm.load', 'node policy in force', inode, node)
        if mcalls != obs['calls']:
            return ('corr:network.set_roadm_internal_paths', 'set_roadm_paths calls', obs['calls'], mcalls)
        if set(mrin) != set(obs['ref_in']) or any(abs(mrin[d] - obs['ref_in'][d]) > TOL for d in mrin):
            return ('corr:network.set_roadm_input_powers', 'ref_pch_in_dbm', obs['ref_in'], mrin)
        if sorted(w[1] for w in obs['warnings']) != mwarn or any(abs(w[0] - msup) > TOL for w in obs['warnings']):
            return ('corr:network.set_roadm_input_powers', 'target_to_be_supported / warned ingress degrees',
                    obs['warnings'], [msup, mwarn])
        segs = segs[1:]
    if not obs['crossings']:
        return None
    if len(segs) != len(obs['crossings']):
        return ('corr:Roadm.propagate', 'number of crossings', len(obs['crossings']), len(segs))
    for k, (rec, seg) in enumerate(zip(obs['crossings'], segs)):
        d = diff_cross(rec, parse_cross(seg))
        if d:
            return ('corr:Roadm.propagate', f'crossing #{k}: {d}',
                    {kk: rec.get(kk) for kk in ('exc', 'msg', 'out', 'loss_attr', 'ref_out', 'ref_loss', 'pmd_out', 'pdl_out')}, seg[:400])
    return None


# ------------------------------------------------------------------ known findings
def is_null_policy(v):
    """explicit JSON null as policy value + every egress OMS with its own target: loaded with no policy in force"""
    c = v.get('case', {})
    return (v.get('key') == 'null_policy_accepted' and c.get('kind') == 'L'
            and (any(x is None for x in c['policy'].values()) or any(x is None for x in c['eq_policy'].values())))


# F12 (0 dBm node target rejected at design) is fixed in /repo (53faecc1): corpus/C06/f12_*.json are regressions that must pass
MATCHERS = {'F16-roadm-null-policy-accepted': is_null_policy}


# ------------------------------------------------------------------ run
def strip(c):
    return {k: v for k, v in c.items() if not k.startswith('_')}


def run(ctx):
    import random as rng_mod
    logging.disable(logging.CRITICAL)
    rng = ctx.rng
    # second tie: re-translate the ROADM code of /repo's source; the equivalence lemmas of Proofs/RoadmGen.v are then
    # re-checked by check_props against what the code says now
    from . import pygen_c06
    gen_ok, gen_msg = pygen_c06.regenerate()
    ctx.proof = common.check_props('C06')
    if not gen_ok:
        ctx.proof['ok'] = False
        ctx.proof['log'] = 'harness/pygen_c06.py: ' + gen_msg + '\n' + ctx.proof.get('log', '')
        ctx.proof['failed_file'] = 'theories/Gen/RoadmGen.v (translation of /repo source failed)'
    ctx.rule = ('element-level cases (random node policy incl. none / several / null, per-degree tables of all three kinds, '
                '0-5 impairment profiles with 1-3 frequency bands, registered add/drop/express paths, 1-4 crossings with '
                '1-12 (big: 20-60) carriers of mixed baud rate / slot width / offset / power in C and L band) and '
                'loader-level cases (equipment entry x element config key subsets, 1-3 egress OMS, design, 1-3 crossings) '
                'driven through gnpy and the Gallina model; a case is non-trivial when a crossing has carriers both '
                'above and below target, or the loader outcome is a rejection; distinct by content hash')
    cases = []
    if ctx.replay:
        rec = json.load(open(ctx.replay))
        cases = [rec.get('case', rec)]          # a replay record, or a bare case (corpus file)
    else:
        for f in sorted(glob.glob(os.path.join(common.VERIF, 'corpus', 'C06', '*.json'))):
            c = json.load(open(f))
            c['_corpus'] = os.path.basename(f)
            cases.append(c)
        na, nl, nbig = ctx.scale(300, 5000), ctx.scale(240, 4000), ctx.scale(4, 60)
        cases += [gen_case_A(rng) for _ in range(na)] + [gen_case_L(rng) for _ in range(nl)]
        cases += [gen_case_A(rng, big=True) for _ in range(nbig)] + [gen_case_L(rng, big=True) for _ in range(nbig)]
        cases += [gen_case_R(rng) for _ in range(ctx.scale(20, 300))]
    terms, meta = [], []
    for c in cases:
        pub = strip(c)
        if c['kind'] == 'R':
            obs = drive_R(c)
            ctx.count('R_cases')
            if obs['stage']:
                empty = [r['id'] for r in c['requests'] if r.get('spectrum') and obs.get('amp_band')
                         and not any(inside_band(x, obs['amp_band']) for x in r['spectrum'])]
                if obs['stage'][1] in ('ServiceError', 'DisjunctionError', 'ConfigurationError', 'EquipmentConfigError',
                                       'NetworkTopologyError', 'ParametersError'):
                    ctx.count('R_rejected_' + obs['stage'][1])         # the request / configuration was refused: nothing to judge
                elif empty and obs['stage'][1] == 'ValueError' and 'does not match amplifiers band' in obs['stage'][2]:
                    # decided from the supplied carriers and the amplifiers' band: a user spectrum without any carrier inside
                    # the band leaves nothing to propagate; the property says nothing about an empty comb
                    ctx.count('user_spectrum_empty_after_filtering_not_judged')
                else:
                    ctx.violation('request_flow_crash', f"{obs['stage'][1]}: {obs['stage'][2]}", pub)
                ctx.case(pub, False)
                continue
            vs = views_R(c, obs)
            for rec in obs['requests']:
                ctx.count('R_requests')
                ctx.count('R_request_' + ('auto_mode' if any(p['kind'] == 'auto' for p in rec['passes']) else 'imposed_mode'))
                ctx.count('R_request_blocking_' + str(rec['blocking']))
                ctx.count('R_passes_Z_to_A', sum(p['direction'] == 'Z->A' for p in rec['passes']))
            to_model = set(ctx.rng.sample(range(len(vs)), min(len(vs), ctx.scale(4, 10))))     # oracle: all; model: a sample
            for iv, (view, xd, rec, tag) in enumerate(vs):
                ctx.count('R_crossings_in_force')
                ctx.count('R_crossings_nonzero_mode_offset', int(rec['off'][0] != 0))
                if 'n_supplied' in rec:
                    ctx.count('R_crossings_user_spectrum')
                    ctx.count('R_crossings_user_spectrum_with_filtered_carriers', int(rec['n_supplied'] > len(rec['f'])))
                fails, judged = oracle_crossing(view, xd, rec, tag)
                ctx.count('crossings_judged_by_oracle' if judged else 'crossings_config_broken_not_judged')
                for key, desc in fails:
                    ctx.violation(key, desc, pub)
                if iv in to_model:
                    t, ids = term_A(view, {'stage': None, 'crossings': [rec]})
                    terms.append(t)
                    meta.append((view, {'stage': None, 'crossings': [rec]}, ids, pub, tag))
            ctx.case(pub, any(r['off'][0] != 0 for _, _, r, _ in vs))
            continue
        if c['kind'] == 'A':
            obs = drive_A(c)
            xs = c['crossings']
            view = c
            term, ids = term_A(c, obs)
            ctx.count('A_cases')
            if obs['stage']:
                ctx.count(f"A_rejected_{obs['stage'][1]}")
            for key, desc in oracle_A(c, obs):
                ctx.violation(key, desc, pub)
        else:
            obs = drive_L(c, rng_mod)
            xs = obs['xs']
            term, ids = term_L(c, obs)
            ctx.count('L_cases')
            ctx.count('L_cases_authored_as_workbook', int(bool(c.get('xls'))))
            if c.get('xls'):
                ctx.count('L_workbook_rows_with_target_and_impairment_ids',
                          sum(1 for r in c['xls']['rows'] if r['target'] is not None and r['from']))
            ctx.count('L_' + ('accepted' if obs['stage'] is None else f"rejected_{obs['stage'][0]}_{obs['stage'][1]}"))
            for key, desc in oracle_L(c, obs):
                ctx.violation(key, desc, pub)
            for f in obs['feeds']:
                ctx.count('L_feed_' + f['kind'])
            ctx.count('L_target_not_met_warnings', len(obs['warnings']))
            ctx.count('L_per_degree_impairments', len(c['per_degree_impairments']))
            view = None
            if obs['stage'] is None:
                view = dict(c, calls=configured_paths(c, obs), per_degree={PDEG[k]: dict(obs['tables'][k]) for k in range(3)},
                            policy={POL[k]: obs['node'][k] for k in range(3)}, ref_in=obs['ref_in'],
                            ref_carrier=obs['ref_carrier'])
                # the configuration in force must be the one the user wrote: judge crossings against the user's tables too
                for k in range(3):
                    for d, v in c['per_degree'].get(PDEG[k], {}).items():
                        view['per_degree'][PDEG[k]].setdefault(d, v)
        if c['kind'] == 'L' and view is not None and not oracle_L(c, obs):
            _, lp = count_pol(c['policy'])
            want = dict(c['policy']) if lp == 1 else dict(c['eq_policy'])
            for pr in obs.get('persist', []):
                ctx.count('L_persist_' + pr['route'])
                if 'exc' in pr:
                    degs = [d for k in PDEG for d in c['per_degree'].get(k, {})]
                    if len(degs) != len(set(degs)):
                        # a degree listed in two per-degree tables cannot be expressed in the YANG model behind both file
                        # routes (the degree is the list key there): saving / loading refuses it — not a loss of the policy
                        ctx.count('L_persist_refused_degree_with_two_targets')
                        continue
                    ctx.violation('persistence_failed', f"{pr['route']} save / load / design of an accepted network raised {pr['exc']}", pub)
                    continue
                # the ROADM as the user configured it: node policy + the user's per-degree overrides
                v0 = {'kind': 'A', 'policy': want, 'per_degree': c['per_degree'], 'pmd': c['pmd'], 'pdl': c['pdl'],
                      'profiles': c['profiles'], 'calls': configured_paths(c, obs), 'ref_carrier': obs['ref_carrier'],
                      'ref_in': pr['ref_in'], 'crossings': pr['xs']}
                for j, (x, rec) in enumerate(zip(pr['xs'], pr['crossings'])):
                    ctx.count('L_persisted_crossings')
                    fails, judged = oracle_crossing(v0, x, rec, f"after {pr['route']} save + load + design, crossing {x['from']}->{x['deg']}")
                    ctx.count('crossings_judged_by_oracle' if judged else 'crossings_config_broken_not_judged')
                    for key, desc in fails:
                        ctx.violation(key, desc, pub)
                pick = ctx.rng.sample(range(len(pr['xs'])), min(1, len(pr['xs'])))
                v1 = dict(v0, crossings=[pr['xs'][i] for i in pick])
                o1 = {'stage': None, 'crossings': [pr['crossings'][i] for i in pick]}
                t1, ids1 = term_A(v1, o1)
                terms.append(t1)
                meta.append((v1, o1, ids1, pub, f"after {pr['route']} save + load + design"))
        mixed = False
        for j, rec in enumerate(obs['crossings']):
            x = xs[j]
            ctx.count('crossings')
            ctx.count('carriers', len(rec['f']))
            typ = next((cc['type'] for cc in (view or c).get('calls', []) if cc['from'] == x['from'] and cc['to'] == x['deg']), 'unregistered')
            ctx.count('crossing_' + typ)
            if 'exc' in rec:
                ctx.count('crossing_exc_' + rec['exc'])
            else:
                above = sum(1 for a, b in zip(rec['pin'], rec['out']) if a - b > 1e-6)
                ctx.count('carriers_attenuated', above)
                mixed = mixed or 0 < above < len(rec['pin'])
            pol = policy_in_force(view or c, x['deg'])
            if pol:
                kinds = ['power', 'psd', 'psw']
                v = view or c
                perdeg = any(x['deg'] in c['per_degree'].get(PDEG[k], {}) for k in range(3))      # configured by the user
                ctx.count('policy_' + kinds[pol[0]] + ('_per_degree' if perdeg else '_node'))
                node = next((kinds[k] for k in range(3) if v['policy'].get(POL[k]) is not None), 'none')
                if perdeg and 'exc' not in rec:
                    ctx.count(f'override_node_{node}_degree_{kinds[pol[0]]}')
            fails, judged = oracle_crossing(view or c, x, rec, f"crossing #{j} {x['from']}->{x['deg']}")
            ctx.count('crossings_judged_by_oracle' if judged else 'crossings_config_broken_not_judged')
            for key, desc in fails:
                ctx.violation(key, desc, pub)
        ctx.case(pub, mixed or obs['stage'] is not None)
        terms.append(term)
        meta.append((c, obs, ids, pub, ''))
    tag = f'cases{os.getpid()}'          # private to this process: concurrent runs of this check do not collide
    per_file = max(12, len(terms) // ctx.scale(48, 300) + 1)
    # balance the shards: deal the terms, largest first, round-robin over the files
    nshard = -(-len(terms) // per_file) if terms else 1
    by_size = sorted(range(len(terms)), key=lambda i: -len(terms[i]))
    dealt = [i for k in range(nshard) for i in by_size[k::nshard]]
    # numbers that occur many times (baud rates, slot widths, band edges, usual offsets / pmd / pdl ...) are parsed once per
    # file: they become named constants of the generated files' prelude
    import re
    from collections import Counter
    lit = re.compile(r'\(fq (?:\(-\d+\)|\d+) (?:\(-\d+\)|\d+)\)')
    freq = Counter(m for t in terms for m in lit.findall(t))
    names = {tok: f'c06q{k}' for k, (tok, cnt) in enumerate(freq.most_common(400)) if cnt >= 6}
    prelude = '\n'.join(f'Definition {nm} : Q := {tok[1:-1]}.' for tok, nm in names.items())
    terms = [lit.sub(lambda m: names.get(m.group(0), m.group(0)), t) for t in terms]
    try:
        res = common.coq_eval('C06', 'Prelude Model.Roadm Run.C06', [terms[i] for i in dealt],
                              per_file=per_file, tag=tag, timeout=3000, prelude=prelude)
        lines = [None] * len(terms)
        for i, ln in zip(dealt, res):
            lines[i] = ln
    finally:
        wd = os.path.join(common.WORK, 'C06')
        for f in os.listdir(wd) if os.path.isdir(wd) else []:
            if f.startswith(tag + '_'):
                os.unlink(os.path.join(wd, f))
    for (c, obs, ids, pub, tag), line in zip(meta, lines):
        d = compare(c, obs, line, ids)
        if d:
            ctx.corr_break(d[0], (tag + ': ' if tag else '') + d[1], pub, impl=d[2], model=d[3])
    ctx.assumptions += [
        'translator tie: harness/pygen_c06.py (fail-closed Python-ast -> Gallina over Q, on harness/pygen.py: templates for '
        'Roadm.propagate / get_impairment / get_roadm_path / set_roadm_paths / to_json, set_roadm_per_degree_targets, '
        'set_roadm_internal_paths, RoadmParams, json_io.Roadm, find_equalisation, merge_equalization, convert_degree; '
        'translated: the per-carrier equalisation arithmetic, the target resolution chains, band test and defaults, the '
        'design-step tests / fills / look-up keys, the policy key tests and bounds; structural rules for '
        'SpectralInformation.__init__, select_channels and the mode adoption in compute_path_with_disjunction)',
        'dB values of PSD / PSW targets, baud rates, slot widths and channel powers are computed by the harness with '
        'math.log10 (10·log10(psd) + 10·log10(baud/1e9) for a PSD target) and fed to the model as exact rationals',
        'PSD / PSW values are > 0 (no dB value otherwise); frequency-range entries have both bounds or none',
        'loader level: inputs of the model are the configuration, the degree lists around the ROADM and what feeds each '
        'ingress degree (upstream transceiver / amplifier delta_p, out_voa / neighbour ROADM policy, accumulated '
        'fibre and fused losses); the set_roadm_paths calls, ref_pch_in_dbm, target_to_be_supported and the warned '
        'ingress degrees are model outputs compared with the implementation',
    ]
    return common.finish(ctx, MATCHERS)
