"""C01 — per-channel power always splits exactly into signal + ASE + NLI.

Tie (two levels, both evaluated against the Gallina model Verif.Model.SI by vm_compute over exact Q):
  (a) random histories of the public operations of gnpy.core.info on a real SpectralInformation
      (apply_attenuation_lin/db, apply_gain_lin/db, add_ase, add_nli, demuxed/muxed_spectral_information, +)
      compared with the model after every operation;
  (b) random designed networks: every element __call__ on the propagated path is wrapped (snapshot of the
      SpectralInformation before / after) and the primitive SpectralInformation methods are wrapped to log the
      update sequence each element really applies; the logged sequence must be an instance of the element
      kind's program (Model.SI.eprog_okb) and replaying it in the model from the "before" snapshot must give
      the "after" snapshot; the figures reported by the Transceivers are replayed through Model.SI.update_snr.
Oracle (on the implementation's own observations): shares in [0,1], sum = 1, power conserved by each
operation, reported 1/GSNR = 1/OSNR_ASE + 1/SNR_NLI.
The for-all part is Props/C01.v.  This module also hosts the machinery shared with C02 (harness/c02.py).
"""
import copy
import glob
import json
import math
import os
import time
import warnings

import numpy as np

from . import common
from .common import listlit

PROP = 'C01'
IMPORTS = 'Prelude Model.SI Run.C01'
REL = 1e-9          # model vs implementation, relative
ABS = 1e-13         # ... or absolute (shares live in [0,1])
SUM_TOL = 1e-12
MAXP = 0.01         # +10 dBm: scope of the property


# ------------------------------------------------------------------ literals / parsing
def fql(x):
    """exact value of a float as the Gallina term (fq mantissa exponent)"""
    x = float(x)
    if x == 0:
        return '(fq 0 0)'
    if not math.isfinite(x):
        raise ValueError(f'non-finite value {x} cannot enter the model')
    m, e = math.frexp(x)
    m = int(m * (1 << 53))
    e -= 53
    while m % 2 == 0:
        m //= 2
        e += 1
    return f'(fq {common.zlit(m)} {common.zlit(e)})'


def fqlist(v):
    return listlit([fql(x) for x in v])


def pq(s):
    m, k = s.split('e')
    return math.ldexp(float(int(m)), int(k))


def chlit(c):
    """c = (f, sw, br, p, s, a, n)"""
    return 'ch ' + ' '.join(fql(x) for x in c)


def parse_spec(s):
    """'f,p,s,a,n|...' -> list of 5-tuples of floats"""
    if s == '':
        return []
    return [tuple(pq(x) for x in c.split(',')) for c in s.split('|')]


def close(a, b, rel=REL, ab=ABS):
    return abs(a - b) <= max(ab, rel * max(abs(a), abs(b)))


def spec_diff(impl, model, rel=REL):
    """first difference between two channel lists [(f,p,s,a,n)] or None"""
    if len(impl) != len(model):
        return f'channel count {len(impl)} (gnpy) != {len(model)} (model)'
    names = ['frequency', 'pch', 'signal_ratio', 'ase_ratio', 'nli_ratio']
    for i, (x, y) in enumerate(zip(impl, model)):
        for nm, u, v in zip(names, x, y):
            ok = close(u, v, rel, 0.0) if nm in ('frequency', 'pch') else close(u, v, rel)
            if not ok:
                return f'channel #{i} {nm}: gnpy {u!r} model {v!r}'
    return None


# ------------------------------------------------------------------ observing a SpectralInformation
def snap(si):
    """full bookkeeping state of a SpectralInformation (copies)"""
    if si is None:
        return None
    return {'f': np.array(si.frequency, dtype=float), 'sw': np.array(si.slot_width, dtype=float),
            'br': np.array(si.baud_rate, dtype=float), 'p': np.array(si._pch, dtype=float),
            's': np.array(si._signal_ratio, dtype=float), 'a': np.array(si._ase_ratio, dtype=float),
            'n': np.array(si._nli_ratio, dtype=float)}


def snap_rows(sn, idx=None):
    if sn is None:
        return []
    rng_ = range(len(sn['f'])) if idx is None else idx
    return [(float(sn['f'][i]), float(sn['p'][i]), float(sn['s'][i]), float(sn['a'][i]), float(sn['n'][i]))
            for i in rng_]


def snap_chs(sn, idx=None):
    rng_ = range(len(sn['f'])) if idx is None else idx
    return [(float(sn['f'][i]), float(sn['sw'][i]), float(sn['br'][i]), float(sn['p'][i]), float(sn['s'][i]),
             float(sn['a'][i]), float(sn['n'][i])) for i in rng_]


# ------------------------------------------------------------------ every public view of the object
def _views(si):
    with np.errstate(all='ignore'):
        car = si.carriers
        return {'car_sig': np.array([c.signal for c in car], dtype=float), 'car_ase': np.array([c.ase for c in car], dtype=float),
                'car_nli': np.array([c.nli for c in car], dtype=float), 'car_f': np.array([c.frequency for c in car], dtype=float),
                'car_br': np.array([c.baud_rate for c in car], dtype=float), 'car_sw': np.array([c.slot_width for c in car], dtype=float),
                'car_no': np.array([c.channel_number for c in car], dtype=float),
                'signal': np.array(si.signal, dtype=float), 'ase': np.array(si.ase, dtype=float),
                'nli': np.array(si.nli, dtype=float), 'pch': np.array(si.pch, dtype=float),
                'ptot': np.array([si.ptot], dtype=float), 'ptot_dbm': np.array([si.ptot_dbm], dtype=float),
                'pch_dbm': np.array(si.pch_dbm, dtype=float), 'signal_dbm': np.array(si.signal_dbm, dtype=float),
                'ase_dbm': np.array(si.ase_dbm, dtype=float), 'nli_dbm': np.array(si.nli_dbm, dtype=float),
                'gsnr': np.array(si.gsnr, dtype=float), 'snr_lin': np.array(si.snr_lin, dtype=float),
                'snr_nli': np.array(si.snr_nli, dtype=float), 'gsnr_db': np.array(si.gsnr_db, dtype=float),
                'n': np.array([si.number_of_channels], dtype=float)}


def view_failures(si, where):
    """every public view of the object (the carriers list with its power tuples, signal / ase / nli / pch / ptot and
    their dBm forms, gsnr / snr_lin / snr_nli) read NOW, twice: reading must be idempotent and every view must agree
    with the bookkeeping state (total power and the three shares) the object has at this moment"""
    if si is None:
        return []
    out = []
    sn = snap(si)
    if not snap_finite(sn):
        return out
    v1, v2 = _views(si), _views(si)
    sn2 = snap(si)
    if not snap_equal(sn, sn2):
        out.append(('view_not_pure', f'{where}: reading the public properties changed the state: {snap_change(sn, sn2)}'))
    for k in v1:
        if v1[k].shape != v2[k].shape or not np.array_equal(v1[k], v2[k], equal_nan=True):
            out.append(('view_not_idempotent', f'{where}: two successive reads of {k} differ'))
    n = len(sn['p'])
    p, s, a, nl = sn['p'], sn['s'], sn['a'], sn['n']
    with np.errstate(all='ignore'):
        db = lambda x: 10 * np.log10(x) + 30      # noqa: E731   (W -> dBm, independent of gnpy.core.utils)
        expect = {'car_sig': s * p, 'car_ase': a * p, 'car_nli': nl * p, 'car_f': sn['f'], 'car_br': sn['br'],
                  'car_sw': sn['sw'], 'car_no': np.arange(1, n + 1, dtype=float),
                  'signal': s * p, 'ase': a * p, 'nli': nl * p, 'pch': p, 'ptot': np.array([np.sum(p)]),
                  'ptot_dbm': np.array([db(np.sum(p))]), 'pch_dbm': db(p), 'signal_dbm': db(s * p), 'ase_dbm': db(a * p),
                  'nli_dbm': db(nl * p), 'gsnr': s / (a + nl), 'snr_lin': s / a, 'snr_nli': s / nl,
                  'gsnr_db': 10 * np.log10(s / (a + nl)), 'n': np.array([float(n)])}
        for k, e in expect.items():
            g = v1[k]
            if g.shape != e.shape:
                out.append(('view_mismatch', f'{where}: {k} has {g.shape[0]} entries for {e.shape[0]} channels'))
                continue
            both_inf = np.isinf(g) & np.isinf(e) & (np.sign(g) == np.sign(e))
            both_nan = np.isnan(g) & np.isnan(e)
            tol = 1e-9 if k.endswith('_dbm') or k.endswith('_db') else 0.0
            ok = both_inf | both_nan | (np.abs(g - e) <= np.maximum(tol, 1e-12 * np.maximum(np.abs(g), np.abs(e))))
            if not ok.all():
                i = int(np.argmin(ok))
                out.append(('view_mismatch', f'{where}: {k}[{i}] reads {g[i]!r} but the state of the object (total power and '
                                             f'shares) gives {e[i]!r}'))
        tot = v1['car_sig'] + v1['car_ase'] + v1['car_nli']
        ok = np.abs(tot - p) <= 1e-12 * np.abs(p)
        if tot.shape == p.shape and not ok.all():
            i = int(np.argmin(ok))
            out.append(('view_power_split', f'{where}: carriers[{i}]: signal+ase+nli = {tot[i]!r} but pch = {p[i]!r}'))
    return out


# ------------------------------------------------------------------ C01 oracle on one state
def state_failures(sn, where):
    """the statement of C01 on one observed state: shares in [0,1], sum 1, power splits exactly"""
    out = []
    if sn is None or len(sn['f']) == 0:
        return out
    for nm, label in (('p', 'total power'), ('s', 'signal share'), ('a', 'ASE share'), ('n', 'NLI share')):
        bad = ~np.isfinite(sn[nm])
        if bad.any():
            i = int(np.argmax(bad))
            return [('nonfinite_state', f'{where}: {label} of channel #{i} is {sn[nm][i]!r}')]
    for nm in ('s', 'a', 'n'):
        v = sn[nm]
        bad = ~((v >= 0) & (v <= 1 + SUM_TOL))     # also catches nan
        if bad.any():
            i = int(np.argmax(bad))
            out.append(('share_range', f'{where}: {nm}-share of channel #{i} = {v[i]!r} outside [0,1]'))
    tot = sn['s'] + sn['a'] + sn['n']
    bad = ~(np.abs(tot - 1) <= SUM_TOL)
    if bad.any():
        i = int(np.argmax(bad))
        out.append(('share_sum', f'{where}: shares of channel #{i} sum to {tot[i]!r}'))
    bad = ~(sn['p'] > 0)
    if bad.any():
        i = int(np.argmax(bad))
        out.append(('power_positive', f'{where}: total power of channel #{i} = {sn["p"][i]!r}'))
    return out


def identity_failures(si, where):
    """1/GSNR = 1/OSNR_ASE + 1/SNR_NLI on the figures SpectralInformation itself reports"""
    out = []
    with np.errstate(divide='ignore', invalid='ignore'):
        g, o, nl = np.array(si.gsnr, dtype=float), np.array(si.snr_lin, dtype=float), np.array(si.snr_nli, dtype=float)
        ok_rows = np.array(si._signal_ratio) > 0
        lhs, rhs = 1 / g, 1 / o + 1 / nl
        bad = ok_rows & ~(np.abs(lhs - rhs) <= REL * np.maximum(np.abs(lhs), np.abs(rhs)))
    if bad.any():
        i = int(np.argmax(bad))
        out.append(('gsnr_identity', f'{where}: channel #{i} 1/gsnr={lhs[i]!r} but 1/snr_lin+1/snr_nli={rhs[i]!r}'))
    return out


def relclose(u, v, rel, ab=0.0):
    return np.abs(u - v) <= np.maximum(ab, rel * np.maximum(np.abs(u), np.abs(v)))


def accounting_failures(kind, arg, b, a, where):
    """exact accounting of one primitive update, from the snapshots before (b) and after (a)"""
    out = []

    def chk(key, ok, what):
        ok = np.asarray(ok)
        if not ok.all():
            i = int(np.argmin(ok))
            out.append((key, f'{where}: {what} (channel #{i})'))
    if len(b['f']) != len(a['f']):
        return [('acct_shape', f'{where}: channel count changed {len(b["f"])} -> {len(a["f"])}')]
    sb, ab_, nb = b['s'] * b['p'], b['a'] * b['p'], b['n'] * b['p']
    sa, aa, na = a['s'] * a['p'], a['a'] * a['p'], a['n'] * a['p']
    if kind in ('att', 'gain'):
        k = np.broadcast_to(np.asarray(arg, dtype=float), b['p'].shape)
        chk('acct_scale', relclose(a['p'], b['p'] * k, 1e-12), 'total power is not scaled by the factor')
        chk('acct_ratio_touched', (a['s'] == b['s']) & (a['a'] == b['a']) & (a['n'] == b['n']),
            'attenuation/gain changed a share')
    elif kind == 'ase':
        x = np.broadcast_to(np.asarray(arg, dtype=float), b['p'].shape)
        chk('acct_ase_total', relclose(a['p'], b['p'] + x, 1e-12), 'total power != previous + ASE')
        chk('acct_ase_signal', relclose(sa, sb, REL, 1e-30), 'signal power changed by add_ase')
        chk('acct_ase_nli', relclose(na, nb, REL, 1e-30), 'NLI power changed by add_ase')
        chk('acct_ase_ase', relclose(aa, ab_ + x, REL, 1e-30), 'ASE power != previous + ASE added')
    elif kind == 'nli':
        x = np.broadcast_to(np.asarray(arg, dtype=float), b['p'].shape)
        chk('acct_nli_total', a['p'] == b['p'], 'total power changed by add_nli')
        chk('acct_nli_signal', relclose(sa, sb - b['s'] * x, REL, 1e-30), 'signal power != previous - s*nli')
        chk('acct_nli_ase', relclose(aa, ab_ - b['a'] * x, REL, 1e-30), 'ASE power != previous - a*nli')
        chk('acct_nli_nli', relclose(na, nb + (1 - b['n']) * x, REL, 1e-30), 'NLI power != previous + (1-n)*nli')
    return out


def records(sn):
    return sorted(zip(*(sn[k].tolist() for k in ('f', 'sw', 'br', 'p', 's', 'a', 'n'))))


# ------------------------------------------------------------------ (a) histories on a SpectralInformation
SLOTS = [(37.5e9, 32e9), (50e9, 32e9), (50e9, 44e9), (62.5e9, 56e9), (75e9, 64e9), (100e9, 90e9), (150e9, 128e9),
         (50e9, 50e9)]


def gen_comb(rng, nmax, f0=None):
    """channels [f, sw, br, p] with mixed slot widths / baud rates / powers, non-overlapping"""
    n = rng.randint(1, nmax)
    f = f0 if f0 is not None else rng.choice([186.3e12, 191.3e12, 191.35e12, 193.1e12]) + rng.randint(0, 40) * 12.5e9
    uniform = rng.random() < 0.3
    sw0, br0 = rng.choice(SLOTS)
    flat = rng.random() < 0.3
    p0 = 1e-3 * 10 ** (rng.uniform(-30, 10) / 10)
    chs = []
    prev_half = 0.0
    for i in range(n):
        sw, br = (sw0, br0) if uniform else rng.choice(SLOTS)
        gap = 0.0 if rng.random() < 0.6 else rng.choice([6.25e9, 12.5e9, 50e9, 400e9, 2e12])
        if i:
            f = f + prev_half + sw / 2 + gap
        p = p0 if flat else 1e-3 * 10 ** (rng.uniform(-30, 10) / 10)
        chs.append([f, sw, br, p])
        prev_half = sw / 2
    return chs


def gen_hist(rng, nmax=30, maxops=20, malformed=False):
    chs = gen_comb(rng, nmax)
    if rng.random() < 0.3:
        rng.shuffle(chs)
    nops = rng.randint(1, maxops)
    ops = []
    # the number of channels can change (demux / add): vector arguments are sized by the driver ('n' = current)
    for _ in range(nops):
        r = rng.random()
        if r < 0.14:
            ops.append({'op': 'att_lin', 'proto': 10 ** (-rng.uniform(0, 35) / 10), 'vector': rng.random() < 0.7,
                        'mode': rng.random()})
        elif r < 0.30:
            ops.append({'op': 'att_db', 'proto': rng.choice([0.0, 0.5, rng.uniform(0, 30), rng.uniform(-3, 3)]),
                        'vector': rng.random() < 0.7, 'mode': rng.random()})
        elif r < 0.38:
            ops.append({'op': 'gain_lin', 'proto': 10 ** (rng.uniform(0, 35) / 10), 'vector': rng.random() < 0.7,
                        'mode': rng.random()})
        elif r < 0.50:
            ops.append({'op': 'gain_db', 'proto': rng.uniform(-2, 35), 'vector': rng.random() < 0.7, 'mode': rng.random()})
        elif r < 0.68:
            big = rng.random() < 0.1
            ops.append({'op': 'ase', 'rel': (lambda: 10 ** (-rng.uniform(-10 if big else 8, 60) / 10)), 'mode': rng.random(),
                        'zero': rng.random() < 0.05})
        elif r < 0.86:
            style = rng.random()
            ops.append({'op': 'nli', 'style': 'small' if style < 0.8 else ('large' if style < 0.95 else 'all'),
                        'mode': rng.random(), 'zero': rng.random() < 0.05})
        elif r < 0.89:
            ops.append({'op': 'demux'})
        elif r < 0.93:
            # one spectrum feeds two consumers: split it twice with the same band, go on with one copy ...
            ops.append({'op': 'fork', 'whole': rng.random() < 0.6})
        elif r < 0.95:
            # ... and later come back to the other one
            ops.append({'op': 'switch'})
        elif r < 0.97:
            ops.append({'op': 'remux', 'nb': rng.randint(1, 3), 'cover': rng.random()})
        else:
            ops.append({'op': 'add', 'where': rng.choice(['above', 'below', 'gap']), 'n': rng.randint(1, 4),
                        'noise': rng.random() < 0.7})
    bad, bad_at = None, rng.randint(0, max(0, nops - 1))
    if malformed:
        bad = rng.choice(['shape', 'shape', 'overlap_add', 'overlap_init', 'empty_mux', 'nli_gt_p', 'dup_band'])
        # make sure the operation at the injection point is one the defect applies to
        forced = {'shape': rng.choice([{'op': 'ase', 'rel': (lambda: 1e-4), 'mode': 0.0, 'zero': False},
                                       {'op': 'nli', 'style': 'small', 'mode': 0.0, 'zero': False},
                                       {'op': 'att_lin', 'proto': 0.5, 'vector': True, 'mode': 0.0}]),
                  'overlap_add': {'op': 'add', 'where': 'above', 'n': 2, 'noise': True},
                  'empty_mux': {'op': 'remux', 'nb': 1, 'cover': 1.0},
                  'dup_band': {'op': 'remux', 'nb': 2, 'cover': 0.0},
                  'nli_gt_p': {'op': 'nli', 'style': 'small', 'mode': 0.0, 'zero': False}}
        if bad in forced:
            ops[bad_at] = forced[bad]
    return {'kind': 'hist', 'chs': chs, 'ops': ops, 'bad': bad, 'bad_at': bad_at}


def _mk_si(chs, noise=None):
    from gnpy.core.info import create_arbitrary_spectral_information
    f = [c[0] for c in chs]
    si = create_arbitrary_spectral_information(frequency=f, pch=[c[3] for c in chs], baud_rate=[c[2] for c in chs],
                                               tx_osnr=40.0, tx_power=[c[3] for c in chs],
                                               slot_width=[c[1] for c in chs], roll_off=0.15)
    if noise:
        si.add_ase(np.array(noise[0]) * si.pch)
        si.add_nli(np.array(noise[1]) * si.pch)
    return si


def make_concrete(rng, case):
    """draw the concrete arguments of every operation against the evolving real object (so that vector sizes,
    relative noise levels and bands make sense); the result is a fully explicit, replayable case"""
    from gnpy.core.exceptions import SpectrumError
    try:
        si = _mk_si(case['chs'])
    except SpectrumError:
        return {'kind': 'hist', 'chs': case['chs'], 'ops': []}
    out = []
    sibs = []
    bad, bad_at = case.get('bad'), case.get('bad_at', 0)
    if bad == 'overlap_init' and len(case['chs']) > 1:
        chs = [list(c) for c in case['chs']]
        chs[1][0] = chs[0][0] + (chs[0][1] + chs[1][1]) / 4
        return {'kind': 'hist', 'chs': chs, 'ops': []}
    for k, o in enumerate(case['ops']):
        if si is None:
            break
        n = si.number_of_channels
        f, sw = np.array(si.frequency), np.array(si.slot_width)

        op = o['op']
        inject = bad if (bad and k == bad_at) else None
        if op in ('att_lin', 'att_db', 'gain_lin', 'gain_db'):
            v = o['proto']
            if o['vector']:
                # per channel values around the prototype (a tilted gain / per-channel equalisation), or all equal
                if op.endswith('_db'):
                    v = [v + rng.uniform(-2, 2) * (o['mode'] < 0.7) for _ in range(n)]
                else:
                    v = [v * 10 ** (rng.uniform(-0.2, 0.2) * (o['mode'] < 0.7)) for _ in range(n)]
            if inject == 'shape' and n > 1:
                v = ([v] * (n + 1)) if not isinstance(v, list) else v + [v[0]]
            c = {'op': op, 'v': v}
        elif op == 'ase':
            rel = o['rel']
            v = [0.0 if o['zero'] else float(p) * rel() for p in si.pch]
            if inject == 'shape' and n > 1:
                v = v + [v[0]]
            c = {'op': 'ase', 'v': v}
        elif op == 'nli':
            if o['style'] == 'small':
                v = [0.0 if o['zero'] else float(p) * 10 ** (-rng.uniform(12, 60) / 10) for p in si.pch]
            elif o['style'] == 'large':
                v = [float(p) * rng.uniform(0.05, 0.999) for p in si.pch]
            else:
                v = [float(p) for p in si.pch]
            if inject == 'nli_gt_p':
                v = [float(p) * rng.uniform(1.001, 3.0) for p in si.pch]
            if inject == 'shape' and n > 1:
                v = v + [v[0]]
            c = {'op': 'nli', 'v': v}
        elif op in ('demux', 'fork'):
            edges = sorted({float(x) for x in np.concatenate([f - sw / 2, f + sw / 2])})
            lo = rng.choice(edges) - rng.choice([0.0, 0.0, 1e9, -1e9])
            hi = rng.choice([e for e in edges if e >= lo] or [lo]) + rng.choice([0.0, 0.0, 1e9, -1e9])
            if rng.random() < 0.2 or (op == 'fork' and o['whole']):
                lo, hi = float(f[0] - sw[0]), float(f[-1] + sw[-1])
            c = {'op': 'demux', 'lo': lo, 'hi': hi}
            if op == 'fork':
                c['fork'] = True
        elif op == 'switch':
            c = {'op': 'switch'}
        elif op == 'remux':
            edges = sorted({float(x) for x in np.concatenate([f - sw / 2, f + sw / 2])})
            cuts = sorted(rng.sample(edges, min(len(edges), o['nb'] + 1)))
            if len(cuts) < 2 or o['cover'] < 0.5:
                cuts = [edges[0]] + cuts[1:-1] + [edges[-1]] if len(cuts) >= 2 else [edges[0], edges[-1]]
            bands = [[cuts[i], cuts[i + 1]] for i in range(len(cuts) - 1)]
            if inject == 'dup_band':
                bands = bands + [bands[0]]
            if inject == 'empty_mux':
                bands = [[edges[-1] + 1e12, edges[-1] + 2e12]]
            c = {'op': 'remux', 'bands': bands}
        else:   # add
            lo_edge, hi_edge = float(f[0] - sw[0] / 2), float(f[-1] + sw[-1] / 2)
            other = gen_comb(rng, o['n'], f0=191.0e12)
            width = (other[-1][0] + other[-1][1] / 2) - (other[0][0] - other[0][1] / 2)
            if o['where'] == 'above':
                shift = hi_edge + rng.choice([0.0, 12.5e9]) - (other[0][0] - other[0][1] / 2)
            elif o['where'] == 'below':
                shift = lo_edge - rng.choice([0.0, 12.5e9]) - (other[-1][0] + other[-1][1] / 2)
            else:
                gaps = [(float(f[i] + sw[i] / 2), float(f[i + 1] - sw[i + 1] / 2)) for i in range(n - 1)]
                gaps = [g for g in gaps if g[1] - g[0] >= width]
                if gaps:
                    g = rng.choice(gaps)
                    shift = g[0] - (other[0][0] - other[0][1] / 2)
                else:
                    shift = hi_edge - (other[0][0] - other[0][1] / 2)
            if inject == 'overlap_add':
                shift = float(f[0]) - other[0][0] + rng.choice([0.0, 1e9])
            other = [[c_[0] + shift, c_[1], c_[2], c_[3]] for c_ in other]
            noise = None
            if o['noise']:
                noise = [[10 ** (-rng.uniform(10, 40) / 10) for _ in other], [10 ** (-rng.uniform(10, 40) / 10) for _ in other]]
            c = {'op': 'add', 'other': other, 'noise': noise}
        out.append(c)
        # advance the real object so that the next operation is drawn against the right state
        try:
            si = apply_op(si, c, sibs)
        except Exception:
            break
    return {'kind': 'hist', 'chs': case['chs'], 'ops': out}


def apply_op(si, c, sibs=None):
    """one concrete operation on the real object, through the public API only.  sibs: stack of the spectra that were
    split off the same parent and are still waiting for their consumer (fork / switch)"""
    from gnpy.core.info import demuxed_spectral_information, muxed_spectral_information
    op = c['op']
    if op == 'switch':
        while sibs:
            s = sibs.pop()
            if s is not None:
                return s
        return si
    if op == 'demux' and c.get('fork') and sibs is not None:
        band = {'f_min': c['lo'], 'f_max': c['hi']}
        sibs.append(demuxed_spectral_information(si, band))
        return demuxed_spectral_information(si, band)
    if op in ('att_lin', 'att_db', 'gain_lin', 'gain_db'):
        v = np.array(c['v'], dtype=float) if isinstance(c['v'], list) else float(c['v'])
        {'att_lin': si.apply_attenuation_lin, 'att_db': si.apply_attenuation_db,
         'gain_lin': si.apply_gain_lin, 'gain_db': si.apply_gain_db}[op](v)
        return si
    if op == 'ase':
        si.add_ase(np.array(c['v'], dtype=float))
        return si
    if op == 'nli':
        si.add_nli(np.array(c['v'], dtype=float))
        return si
    if op == 'demux':
        return demuxed_spectral_information(si, {'f_min': c['lo'], 'f_max': c['hi']})
    if op == 'remux':
        pieces = [demuxed_spectral_information(si, {'f_min': lo, 'f_max': hi}) for lo, hi in c['bands']]
        return muxed_spectral_information([p for p in pieces if p is not None])
    if op == 'add':
        return si + _mk_si(c['other'], c['noise'])
    raise ValueError(op)


def lin_factor(op, v):
    """independent dB -> linear conversion of an attenuation / gain argument"""
    if op == 'att_lin' or op == 'gain_lin':
        return v
    if op == 'att_db':
        return math.pow(10.0, -v / 10.0)
    return math.pow(10.0, v / 10.0)


def snap_equal(x, y):
    if x is None or y is None:
        return x is None and y is None
    return all(x[k].shape == y[k].shape and np.array_equal(x[k], y[k], equal_nan=True) for k in x)


def snap_change(x, y):
    """first field / channel in which two snapshots of the same object differ"""
    for k, label in (('f', 'frequency'), ('sw', 'slot width'), ('br', 'baud rate'), ('p', 'total power'),
                     ('s', 'signal share'), ('a', 'ASE share'), ('n', 'NLI share')):
        if x[k].shape != y[k].shape:
            return f'channel count {len(x[k])} -> {len(y[k])}'
        ne = ~((x[k] == y[k]) | (np.isnan(x[k]) & np.isnan(y[k])))
        if ne.any():
            i = int(np.argmax(ne))
            return f'{label} of channel #{i}: {x[k][i]!r} -> {y[k][i]!r}'
    return 'changed'


class Live:
    """every SpectralInformation object seen so far with the state it legitimately has: an operation may only change
    the object it is applied to; whatever else changes (its input after a split, a sibling copy, an operand of a sum,
    an earlier result) is aliasing"""

    def __init__(self):
        self.objs = []      # [obj, snapshot, label]

    def set(self, obj, sn, label):
        if obj is None:
            return
        for rec in self.objs:
            if rec[0] is obj:
                rec[1] = sn
                return
        self.objs.append([obj, sn, label])

    def changed(self, except_obj=None):
        out = []
        for obj, sn, label in self.objs:
            if obj is except_obj:
                continue
            now = snap(obj)
            if not snap_equal(sn, now):
                out.append(f'{label}: {snap_change(sn, now)}')
        return out


def drive_hist(case):
    """run a concrete history on the real code; returns (init snapshot or 'E:..', steps)"""
    try:
        si = _mk_si(case['chs'])
    except Exception as e:
        return 'E:' + type(e).__name__, []
    init = snap(si)
    live = Live()
    live.set(si, init, 'the initial spectrum')
    sibs = []
    steps = []
    init_views = view_failures(si, 'initial spectrum')
    for k, c in enumerate(case['ops']):
        before = snap(si)
        rec = {'c': c, 'before': before}
        if c['op'] == 'switch':
            rec['nomodel'] = True
        other = None
        try:
            with np.errstate(all='ignore'):
                if c['op'] == 'add':
                    other = _mk_si(c['other'], c['noise'])
                    rec['other'] = snap(other)
                    live.set(other, rec['other'], f'the second operand of op #{k + 1} add')
                    si2 = si + other
                else:
                    nsib = len(sibs)
                    si2 = apply_op(si, c, sibs)
                    if len(sibs) > nsib:
                        live.set(sibs[-1], snap(sibs[-1]), f'the sibling copy made by op #{k + 1} (fork)')
        except Exception as e:
            rec['out'] = 'E:' + type(e).__name__
            rec['exc'] = f'{type(e).__name__}: {e}'
            steps.append(rec)
            break
        rec['out'] = 'ok'
        rec['after'] = snap(si2)
        rec['si'] = si2
        rec['views'] = (init_views if not steps else []) + view_failures(si2, f'after op #{k + 1} {c["op"]}')
        # aliasing: nothing but the object the operation was applied to / returned may have changed
        if c['op'] != 'switch':
            live.set(si2, rec['after'], f'the result of op #{k + 1} {c["op"]}')
        rec['alias'] = live.changed(except_obj=si2)
        for obj_rec in live.objs:       # report each corruption once
            obj_rec[1] = snap(obj_rec[0])
        steps.append(rec)
        si = si2
        if si is None:
            break
    return init, steps


def model_steps(steps):
    """the executed steps the model replays: up to and including the first step that leaves a non-finite state
    (which cannot enter the exact model), without the bookkeeping steps of the harness (switch)"""
    out = []
    for st in steps:
        if st.get('nomodel'):
            continue
        if not snap_finite(st['before']):
            break
        out.append(st)
        if st['out'] == 'ok' and not snap_finite(st['after']):
            break
    return out


def snap_finite(sn):
    return sn is None or all(bool(np.all(np.isfinite(sn[k]))) for k in ('f', 'sw', 'br', 'p', 's', 'a', 'n'))


def hop_lit(st, chl):
    """Gallina hop of one executed step; chl renders a channel 7-tuple"""
    c = st['c']
    n = len(st['before']['f'])
    op = c['op']
    if op in ('att_lin', 'att_db', 'gain_lin', 'gain_db'):
        v = c['v'] if isinstance(c['v'], list) else [c['v']] * n
        ctor = 'SAtt' if op.startswith('att') else 'SGain'
        return f'HS ({ctor} {fqlist([lin_factor(op, x) for x in v])})'
    if op == 'ase':
        return f'HS (SAse {fqlist(c["v"])})'
    if op == 'nli':
        return f'HS (SNli {fqlist(c["v"])})'
    if op == 'demux':
        return f'HS (SDemux {fql(c["lo"])} {fql(c["hi"])})'
    if op == 'remux':
        return 'HRemux ' + listlit([f'({fql(lo)}, {fql(hi)})' for lo, hi in c['bands']])
    o = st.get('other')
    if o is None:
        o = snap(_mk_si(c['other'], c['noise']))
    return 'HS (SAdd ' + listlit([chl(x) for x in snap_chs(o)]) + ')'


CHAIN_MAX = 40      # histories with at most this many channel-operations are also replayed as one chained run


def hist_term(case, init, steps):
    """the Gallina term replaying the history: chained from the observed initial state when small, otherwise
    every step from the state gnpy was in before it (exact numerals do not grow)"""
    if isinstance(init, str):
        chs = [(c[0], c[1], c[2], c[3], 1.0, 0.0, 0.0) for c in case['chs']]
        return 'res_s (mk_si ' + listlit([chlit(c) for c in chs]) + ')'
    steps = model_steps(steps)
    chained = (len(init['f']) * len(steps) <= CHAIN_MAX and not any(o['op'] == 'switch' for o in case['ops'])
               and all(snap_finite(st.get('after')) for st in steps))
    if chained:
        return ('run_hist ' + listlit([chlit(x) for x in snap_chs(init)]) + ' '
                + listlit([hop_lit(st, lambda x: 'ch ' + ' '.join(fql(y) for y in x)) for st in steps]))
    tab = {}

    def chl(x):
        key = (x[0], x[1], x[2])
        i = tab.setdefault(key, len(tab))
        return f'c {i} ' + ' '.join(fql(y) for y in x[3:])
    # the state after step k is the state before step k+1: bound once (s0, s1, ...)
    lets, items = [], []
    names = {}

    def state_name(sn):
        key = id(sn)
        if key not in names:
            names[key] = f's{len(names)}'
            lets.append(f'let {names[key]} := {listlit([chl(x) for x in snap_chs(sn)] if sn is not None else [])} in')
        return names[key]
    prev_after = None
    for st in steps:
        before = prev_after if prev_after is not None and snap_equal(prev_after, st['before']) else st['before']
        bname = state_name(before)
        if st['out'] == 'ok' and not snap_finite(st['after']):
            ex = 'None'         # a non-finite state cannot enter the model: outcome only (judged by the oracle)
        elif st['out'] == 'ok':
            ex = f'(Some {state_name(st["after"])})' if st['after'] is not None else '(Some [])'
            prev_after = st['after']
        else:
            ex = 'None'
        items.append(f'({bname}, {hop_lit(st, chl)}, {ex})')
    tb = listlit([f'({fql(k[0])}, {fql(k[1])}, {fql(k[2])})' for k in tab])
    return f'let c := tch {tb} in ' + ' '.join(lets) + f' run_steps {listlit(items)}'


def in_scope_step(st):
    """side conditions of the theorems (WfOps) evaluated on what was executed"""
    c, b = st['c'], st['before']
    op = c['op']
    if not snap_finite(b):
        return False
    if op in ('att_lin', 'gain_lin'):
        return bool(np.all(np.asarray(c['v'], dtype=float) > 0))
    if op == 'ase':
        return bool(np.all(np.asarray(c['v']) >= 0))
    if op == 'nli':
        v = np.asarray(c['v'], dtype=float)
        return len(v) == len(b['p']) and bool(np.all((v >= 0) & (v <= b['p'])))
    return True


def hist_oracle(case, init, steps):
    """C01 on the implementation's own observations of a history"""
    fails = []
    if isinstance(init, str):
        return fails
    fails += state_failures(init, 'initial state')
    scope = True
    for k, st in enumerate(steps):
        c = st['c']
        where = f'after op #{k + 1} {c["op"]}'
        scope = scope and in_scope_step(st)
        for d in st.get('alias', []):
            fails.append(('aliasing', f'{where} changed an object it was not applied to: {d}'))
        fails += st.get('views', [])
        if st['out'] != 'ok' or not scope or c['op'] == 'switch':
            continue
        a, b = st['after'], st['before']
        if a is None:
            continue
        fails += state_failures(a, where)
        if st.get('si') is not None:
            fails += identity_failures(st['si'], where)
        op = c['op']
        if op in ('att_lin', 'att_db', 'gain_lin', 'gain_db'):
            v = np.asarray(c['v'], dtype=float)
            fac = np.vectorize(lambda x: lin_factor(op, float(x)))(v)
            fails += accounting_failures('att' if op.startswith('att') else 'gain', fac, b, a, where)
        elif op in ('ase', 'nli'):
            fails += accounting_failures(op, c['v'], b, a, where)
        elif op == 'demux':
            keep = (b['f'] - b['sw'] / 2 >= c['lo']) & (b['f'] + b['sw'] / 2 <= c['hi'])
            exp = sorted(r for r, kp in zip(zip(*(b[x].tolist() for x in ('f', 'sw', 'br', 'p', 's', 'a', 'n'))), keep) if kp)
            if exp != records(a):
                fails.append(('demux_records', f'{where}: demux did not return exactly the in-band channel records'))
        elif op == 'remux':
            keep = np.zeros(len(b['f']), dtype=int)
            for lo, hi in c['bands']:
                keep += ((b['f'] - b['sw'] / 2 >= lo) & (b['f'] + b['sw'] / 2 <= hi)).astype(int)
            exp = sorted(r for r, kp in zip(zip(*(b[x].tolist() for x in ('f', 'sw', 'br', 'p', 's', 'a', 'n'))), keep)
                         for _ in range(kp))
            if exp != records(a) or np.any(np.diff(a['f']) <= 0):
                fails.append(('mux_records', f'{where}: split+merge created / lost / altered channel records'))
        elif op == 'add':
            o = st['other']
            if sorted(records(b) + records(o)) != records(a) or np.any(np.diff(a['f']) <= 0):
                fails.append(('mux_records', f'{where}: sum of two spectra created / lost / altered channel records'))
    return fails


def parse_verdict(body):
    """'E:Type:detail' | '=' | 'ok' | '!i,field,value' | rendered state"""
    if body.startswith('E:'):
        return 'E:' + body[2:].split(':')[0]
    if body in ('=', 'ok'):
        return body
    if body.startswith('!'):
        i, field, val = body[1:].split(',')
        return ('diff', int(i), field, val)
    return parse_spec(body)


def canon_hist_model(line):
    """model line -> list of per-step (wf flag, verdict)"""
    return [(part[0] == 'T', parse_verdict(part[1:])) for part in (line.split(';') if line != '' else [])]


def diff_text(v, rows):
    _, i, field, val = v
    if field == 'count':
        return f'channel count: gnpy {len(rows)} model {i}'
    names = ['frequency', 'pch', 'signal_ratio', 'ase_ratio', 'nli_ratio']
    got = rows[i][names.index(field)] if i < len(rows) else None
    return f'channel #{i} {field}: gnpy {got!r} model {pq(val)!r}'


def compare_hist(ctx, case, init, steps, line, corr='corr:SI.history'):
    """diff of one history; reports through ctx.corr_break; returns number of channel states compared"""
    jc = jcase(case)
    if isinstance(init, str):
        got = 'E:' + line[2:].split(':')[0] if line.startswith('E:') else 'ok'
        if got != init:
            ctx.corr_break(corr, 'constructor outcome differs', jc, impl=init, model=got)
        return 0
    model = canon_hist_model(line)
    steps = model_steps(steps)
    if len(model) != len(steps):
        ctx.corr_break(corr, f'{len(steps)} steps executed by gnpy, {len(model)} by the model', jc,
                       impl=[s['out'] for s in steps], model=[m[1] if isinstance(m[1], str) else 'ok' for m in model])
        return 0
    ncmp = 0
    for k, (st, (wf, m)) in enumerate(zip(steps, model)):
        op = st['c']['op']
        tie = False
        if op == 'nli' and st['out'] == 'ok':
            # NLI increment within 1e-9 of the channel power: the side condition x <= pch is at its threshold and
            # the chained exact run may judge it differently from the float state -- not judged, counted
            x, pw = np.asarray(st['c']['v'], dtype=float), st['before']['p']
            tie = len(x) == len(pw) and bool(np.any(np.abs(x - pw) <= 1e-9 * pw))
            if tie:
                ctx.count('hist_threshold_tie_not_judged')
        if op != 'add' and st['out'] == 'ok' and not tie and wf != in_scope_step(st):
            ctx.corr_break(corr, f'op #{k + 1}: side condition judged {in_scope_step(st)} by the harness, {wf} by the model',
                           jc, impl=in_scope_step(st), model=wf)
            break
        if st['out'] != 'ok' or (isinstance(m, str) and m.startswith('E:')):
            if m != st['out']:
                ctx.corr_break(corr + '.' + op, f'op #{k + 1} {op}: outcome differs', jc,
                               impl=st.get('exc', st['out']), model=m if isinstance(m, str) else 'ok')
            break
        rows = snap_rows(st['after'])
        ncmp += len(rows)
        if m == '=':
            continue
        if m == 'ok' and not snap_finite(st['after']):
            ctx.count('hist_nonfinite_state_not_replayed')
            break
        d = diff_text(m, rows) if isinstance(m, tuple) else spec_diff(rows, m)
        if d:
            ctx.corr_break(corr + '.' + op, f'op #{k + 1} {op}: {d}', jc, impl=rows[:3], model=str(m)[:300])
            break
    return ncmp


def jcase(case):
    return json.loads(json.dumps({k: v for k, v in case.items() if not k.startswith('_')}, default=float))


# ------------------------------------------------------------------ (b) paths through designed networks
_EQ = {}


def equipment(name, patch=None):
    """the shipped equipment library `name`, optionally with generated ROADM varieties merged in and the span power mode
    switched (patch = {'roadm_types': [library entries], 'power_mode': bool or None})"""
    from pathlib import Path
    import gnpy
    from gnpy.tools.json_io import load_equipments_and_configs
    key = name + '|' + json.dumps(patch, sort_keys=True) if patch else name
    if key not in _EQ:
        d = Path(gnpy.__file__).parent / 'example-data'
        fn = {'default': 'eqpt_config.json', 'multiband': 'eqpt_config_multiband.json'}[name]
        if not patch:
            _EQ[key] = load_equipments_and_configs(d / fn, [], [])
        else:
            import hashlib
            import tempfile
            tmp = Path(tempfile.gettempdir()) / ('verif_c01_eq_' + hashlib.sha1(key.encode()).hexdigest()[:16])
            tmp.mkdir(exist_ok=True)
            for f in d.iterdir():       # the library refers to side files (advanced amplifier configurations) by name
                if f.suffix == '.json' and not (tmp / f.name).exists():
                    try:
                        (tmp / f.name).symlink_to(f)
                    except OSError:
                        pass
            lib = json.load(open(d / fn))
            lib['Roadm'] = lib['Roadm'] + copy.deepcopy(patch.get('roadm_types') or [])
            if patch.get('power_mode') is not None:
                for sp in lib['Span']:
                    sp['power_mode'] = patch['power_mode']
            out = tmp / 'generated_eqpt.json'
            json.dump(lib, open(out, 'w'))
            _EQ[key] = load_equipments_and_configs(out, [], [])
    return _EQ[key]


def gen_roadm_type(rng, name):
    """a ROADM variety with a full impairment profile: express / add / drop blocks, one or two frequency ranges each,
    non-zero PMD / PDL / in-band crosstalk / max loss, OSNR and noise figure of the amplified blocks"""
    def ranges():
        if rng.random() < 0.6:
            return [(191.3e12, 196.1e12)]
        cut = rng.choice([193.0e12, 193.7e12, 194.45e12])
        return [(191.3e12, cut), (cut, 196.1e12)]

    def block(kind):
        out = []
        for lo, hi in ranges():
            b = {'frequency-range': {'lower-frequency': lo, 'upper-frequency': hi},
                 'roadm-pmd': rng.choice([0, 1e-12, 3e-12]), 'roadm-cd': 0, 'roadm-pdl': rng.choice([0, 0.2, 0.5]),
                 'roadm-inband-crosstalk': rng.choice([0, 0, 25, 32, 40, -35]),
                 'roadm-maxloss': round(rng.uniform(4, 18), 1)}
            if kind != 'express':
                b.update({'roadm-pmax': 2.5, 'roadm-osnr': rng.choice([33, 37, 41, 45]),
                          'roadm-noise-figure': rng.choice([15, 19, 23])})
            if kind == 'drop':
                b.update({'roadm-minloss': 5.0, 'roadm-typloss': 8.0, 'roadm-pmin': -13.5, 'roadm-ptyp': -12})
            out.append(b)
        return out
    imps = [{'roadm-path-impairments-id': 0, 'roadm-express-path': block('express')},
            {'roadm-path-impairments-id': 1, 'roadm-add-path': block('add')},
            {'roadm-path-impairments-id': 2, 'roadm-drop-path': block('drop')}]
    if rng.random() < 0.5:
        imps.append({'roadm-path-impairments-id': 3, 'roadm-add-path': block('add')})
    return {'type_variety': name, 'target_pch_out_db': rng.choice([-20, -18, -22]), 'add_drop_osnr': rng.choice([33, 38]),
            'pmd': rng.choice([0, 1e-12]), 'pdl': rng.choice([0, 0.3]),
            'restrictions': {'preamp_variety_list': [], 'booster_variety_list': []}, 'roadm-path-impairments': imps}


FIBERS = ['SSMF', 'SSMF', 'SSMF', 'NZDF', 'LOF']
AMPS_DEFAULT = ['std_medium_gain', 'std_low_gain', 'std_high_gain', 'std_fixed_gain', 'high_power', 'medium+low_gain',
                'medium+high_power', 'high_detail_model_example', 'operator_model_example', 'openroadm_ila_low_noise',
                'openroadm_ila_standard', 'openroadm_mw_mw_preamp', 'openroadm_mw_mw_booster', 'hybrid_4pumps_lowgain',
                'hybrid_4pumps_mediumgain', 'Juniper_BoosterHG', 'openroadm_mw_mw_preamp_typical_ver5',
                'openroadm_mw_mw_preamp_worstcase_ver5', '4pumps_raman']
PUMPS = [{'power': 0.224403, 'frequency': 205e12, 'propagation_direction': 'counterprop'},
         {'power': 0.231135, 'frequency': 201e12, 'propagation_direction': 'counterprop'}]
MULTI_AMPS = [('std_medium_gain_multiband', ['std_medium_gain_C', 'std_medium_gain_L']),
              ('std_low_gain_multiband', ['std_low_gain', 'std_low_gain_L'])]
BAND_C = {'f_min': 191.3e12, 'f_max': 195.1e12, 'spacing': 50e9}
BAND_L = {'f_min': 186.3e12, 'f_max': 190.1e12, 'spacing': 50e9}


def fiber_el(rng, uid, raman=False, short=False, lo=20, hi=130):
    length = round(rng.uniform(1, 15), 3) if short else round(rng.uniform(lo, hi), 3)
    params = {'length': length, 'length_units': 'km', 'loss_coef': rng.choice([0.2, 0.2, 0.22, 0.25]),
              'con_in': rng.choice([None, None, 0.0, 0.5, 1.0]), 'con_out': rng.choice([None, None, 0.0, 0.5, 1.0]),
              'att_in': rng.choice([0, 0, 0, 1.5])}
    el = {'uid': uid, 'type': 'RamanFiber' if raman else 'Fiber', 'type_variety': 'SSMF' if raman else rng.choice(FIBERS),
          'params': params}
    r = rng.random()
    if r < 0.15:
        # normal-dispersion fibres (beta2 > 0: "minus" NZDSF, DCF-like spans) and low positive dispersion
        params['dispersion'] = rng.choice([-8.0e-6, -2.5e-6, -4.0e-6, -1.7e-5, -1.0e-4, 4.0e-6])
    elif r < 0.25:
        # dispersion with a slope, zero crossing inside / near the propagated band (s/m/m and s/m/m/m)
        params['dispersion'] = rng.choice([-1.0e-6, -0.5e-6, 0.5e-6, 1.0e-6, 3.0e-6, -6.0e-6])
        params['dispersion_slope'] = rng.choice([58.0, 80.0, 45.0, -58.0])
    elif r < 0.35:
        # per-frequency dispersion table, both signs
        off = rng.choice([7.3e9, 3.1e9, -4.7e9])      # zero crossings off the channel grid
        fr = [x + off for x in (185.0e12, 188.5e12, 191.0e12, 193.0e12, 194.5e12, 197.0e12)]
        shape = rng.choice(['cross', 'neg', 'pos', 'zigzag'])
        val = {'cross': [-6e-6, -3.5e-6, -1.5e-6, 0.4e-6, 1.8e-6, 4e-6],
               'neg': [-9e-6, -8e-6, -7e-6, -6e-6, -5.5e-6, -4e-6],
               'pos': [1.2e-5, 1.4e-5, 1.55e-5, 1.67e-5, 1.75e-5, 1.9e-5],
               'zigzag': [3e-6, -2e-6, 2.5e-6, -1.5e-6, 2e-6, -3e-6]}[shape]
        k = rng.uniform(0.7, 1.3)
        params['dispersion_per_frequency'] = {'frequency': fr, 'value': [v * k for v in val]}
    if raman:
        params['length'] = round(rng.uniform(60, 110), 3)
        params['con_in'], params['con_out'] = 0.5, 0.5
        scale = rng.uniform(0.3, 1.0)
        scheme = rng.random()
        if scheme < 0.3:
            pumps = [dict(p, power=p['power'] * scale) for p in PUMPS[:rng.randint(1, 2)]]
        else:
            # wide-band pumping schemes: pumps above, below and inside the propagated comb (or only below it: the pump
            # of a longer-wavelength band), co- and counter-propagating
            below = [190.5e12, 189.0e12, 186.0e12, 191.0e12]
            anywhere = [205e12, 201e12, 198.2e12, 196.4e12] + below
            pumps = []
            for _ in range(rng.randint(1, 3)):
                fp = rng.choice(below) if scheme < 0.55 else \
                    rng.choice(anywhere + [191.4e12 + rng.randint(0, 70) * 50e9 + 23.7e9])
                pumps.append({'power': round(rng.uniform(0.05, 0.25), 4) * scale, 'frequency': fp,
                              'propagation_direction': rng.choice(['counterprop', 'counterprop', 'coprop'])})
        el['operational'] = {'temperature': rng.choice([283, 283, 298]), 'raman_pumps': pumps}
    return el


def gen_path_case(rng, flavour=None, thorough=False):
    """a small network (JSON), a source/destination, a launched spectrum and simulation parameters"""
    flavour = flavour or rng.choice(['mesh', 'mesh', 'line', 'line', 'multiband', 'raman'])
    eq = 'multiband' if flavour == 'multiband' else 'default'
    els, cx = [], []
    roadm_types = []
    raman_ok = flavour == 'raman'
    both = rng.random() < 0.7

    def amp_el(uid, force_dp=False):
        if eq == 'multiband':
            if not both:
                return None
            tv, amps = rng.choice(MULTI_AMPS)
            return {'uid': uid, 'type': 'Multiband_amplifier', 'type_variety': tv,
                    'amplifiers': [{'type_variety': a, 'operational': {'gain_target': None, 'delta_p': None, 'out_voa': None,
                                                                        'tilt_target': 0.0}} for a in amps]}
        tv = rng.choice(AMPS_DEFAULT)
        op = {'gain_target': None, 'tilt_target': rng.choice([0, 0, 0, -1.0, 1.5]), 'out_voa': rng.choice([None, 0, 1.0]),
              'delta_p': None}
        if rng.random() < 0.5:
            # (low, zero and negative gains too: a line amplifier used as a mere repeater / behind a short patch)
            op['gain_target'] = round(rng.uniform(10, 25), 2) if rng.random() < 0.65 else \
                rng.choice([-4.0, -3.0, -2.0, -1.0, -0.5, 0.0, 0.5, 1.5, 2.5, 4.0])
            op['delta_p'] = rng.choice([None, 0.0, -1.0, 1.0])
        if rng.random() < 0.25:
            op['in_voa'] = rng.choice([0.5, 1.0, 2.0])
        if force_dp:
            # gnpy's auto-design raises TypeError (span_loss -> estimate_raman_gain(power_dbm=None)) when an amplifier
            # with unspecified delta_p precedes a RamanFiber: such amplifiers get an explicit delta_p here
            op['delta_p'] = rng.choice([0.0, -1.0, 1.0])
            tv = rng.choice(['std_medium_gain', 'std_low_gain', 'std_high_gain', 'high_power', 'std_fixed_gain'])
        return {'uid': uid, 'type': 'Edfa', 'type_variety': tv, 'operational': op}

    def link(a, b, tag):
        """elements between two nodes a -> b"""
        nsp = rng.choice([1, 1, 2, 2, 3])
        prev = a
        dp_known = a.startswith('trx')      # what precedes the next fibre launches a known power
        multi = eq == 'multiband' and both
        if multi:
            # gnpy's auto-design of multiband OMS is only reliable when every amplifier site is given: booster,
            # in-line and pre-amplifier are explicit Multiband_amplifier elements (gains / powers still auto-designed)
            e = amp_el(f'booster {tag}')
            els.append(e)
            cx.append((prev, e['uid']))
            prev = e['uid']
        for k in range(nsp):
            fu = f'fiber {tag}_{k}'
            if eq == 'multiband':
                els.append(fiber_el(rng, fu, lo=45, hi=110))
            else:
                els.append(fiber_el(rng, fu, raman=raman_ok and dp_known and rng.random() < 0.75,
                                    short=rng.random() < 0.15))
            cx.append((prev, fu))
            prev = fu
            r = rng.random()
            last = k == nsp - 1
            dp_known = False
            if raman_ok and not last:
                e = amp_el(f'edfa {tag}_{k}', force_dp=True)
                els.append(e)
                cx.append((prev, e['uid']))
                prev = e['uid']
                dp_known = True
            elif multi:
                e = amp_el(f'edfa {tag}_{k}')
                els.append(e)
                cx.append((prev, e['uid']))
                prev = e['uid']
            elif r < 0.2 and not last:
                fz = f'fused {tag}_{k}'
                els.append({'uid': fz, 'type': 'Fused', 'params': {'loss': rng.choice([0, 0.5, 1, 2.5])}})
                cx.append((prev, fz))
                prev = fz
            elif r < 0.6:
                e = amp_el(f'edfa {tag}_{k}')
                if e:
                    els.append(e)
                    cx.append((prev, e['uid']))
                    prev = e['uid']
        cx.append((prev, b))
    if flavour in ('line', 'raman') and rng.random() < 0.6:
        # no ROADM at all: Transceiver - line - Transceiver (like raman_edfa_example_network.json)
        els += [{'uid': 'trx A', 'type': 'Transceiver'}, {'uid': 'trx B', 'type': 'Transceiver'}]
        link('trx A', 'trx B', 'AB')
        link('trx B', 'trx A', 'BA')
        names = ['A', 'B']
        src, dst = 'trx A', 'trx B'
    else:
        nro = rng.randint(2, 4) if flavour != 'line' else rng.randint(2, 3)
        names = [chr(65 + i) for i in range(nro)]
        edges = set()
        order = names[:]
        rng.shuffle(order)
        for i in range(1, nro):
            edges.add(tuple(sorted((order[i], rng.choice(order[:i])))))
        if flavour == 'mesh':
            for _ in range(rng.randint(0, 2)):
                edges.add(tuple(sorted(rng.sample(names, 2))))
        for x in names:
            ro = {'uid': f'roadm {x}', 'type': 'Roadm', 'params': {}}
            if rng.random() < 0.4:
                # (also egress targets close to the line power: the booster then works at low / zero / negative gain)
                ro['params']['target_pch_out_db'] = rng.choice([-20, -18, -22, -25, -3.0, -1.0, 0.5, 2.0])
            if eq == 'default' and rng.random() < 0.5:
                if rng.random() < 0.3:
                    ro['type_variety'] = 'detailed_impairments'
                else:
                    ro['type_variety'] = f'generated_roadm_{len(roadm_types)}'
                    roadm_types.append(gen_roadm_type(rng, ro['type_variety']))
            if eq == 'multiband':
                ro['params']['design_bands'] = [dict(BAND_C), dict(BAND_L)] if both else [dict(BAND_C)]
            els += [{'uid': f'trx {x}', 'type': 'Transceiver'}, ro]
            cx += [(f'trx {x}', f'roadm {x}'), (f'roadm {x}', f'trx {x}')]
        for (a, b) in sorted(edges):
            link(f'roadm {a}', f'roadm {b}', a + b)
            link(f'roadm {b}', f'roadm {a}', b + a)
        src, dst = (f'trx {x}' for x in rng.sample(names, 2))
        # per-degree bindings: a ROADM variety with a second add profile uses it towards some of its line degrees
        first_after = {}
        for a_, b_ in cx:
            if a_.startswith('roadm ') and not b_.startswith('trx '):
                first_after.setdefault(a_, []).append(b_)
        ids = {rt['type_variety']: [i['roadm-path-impairments-id'] for i in rt['roadm-path-impairments']] for rt in roadm_types}
        for e in els:
            if e['type'] == 'Roadm' and 3 in ids.get(e.get('type_variety'), []):
                binds = []
                for nxt in first_after.get(e['uid'], []):
                    if rng.random() < 0.6:
                        deg = nxt if not nxt.startswith('fiber ') else f'Edfa_booster_{e["uid"]}_to_{nxt}'
                        binds.append({'from_degree': 'trx ' + e['uid'][6:], 'to_degree': deg, 'impairment_id': 3})
                if binds:
                    e['params']['per_degree_impairments'] = binds
    topo = {'elements': els, 'connections': [{'from_node': a, 'to_node': b} for a, b in cx]}
    # NLI method first: the GGN methods are slow, they get tiny combs
    method = 'gn_model_analytic'
    if rng.random() < 0.2:
        method = rng.choice(['ggn_spectrally_separated', 'ggn_approx'])
    srs = flavour == 'raman' or rng.random() < 0.12       # Raman solver on (also for plain fibres)
    if not thorough and srs and method != 'gn_model_analytic':
        # GGN on top of the Raman solver takes 10-20 s per path: thorough tier only
        if flavour == 'raman':
            method = 'gn_model_analytic'
        else:
            srs = False
    tiny = method != 'gn_model_analytic' or srs
    if method != 'gn_model_analytic':
        # the GGN integration grid grows without bound as |beta2| -> 0 (tens of seconds per span): the fibres of a GGN case
        # keep a dispersion well away from zero (negative values included), no slope / table crossing zero
        for e in els:
            if e['type'] in ('Fiber', 'RamanFiber'):
                e['params'].pop('dispersion_slope', None)
                e['params'].pop('dispersion_per_frequency', None)
                if 'dispersion' in e['params'] and not 2.0e-6 <= abs(e['params']['dispersion']) <= 2.5e-5:
                    e['params'].pop('dispersion')       # (a very large |beta2| times a wide comb is as slow)
    # GGN methods: which channels are computed (the others are interpolated): all of them, a number of equally spaced
    # ones, or an explicit short list; when only some are computed the comb may be larger for the same run time
    ggn_mode = rng.choice(['all', 'list', 'list', 'number', 'number']) if method != 'gn_model_analytic' else None
    # launched spectrum
    spectrum = None
    if tiny or rng.random() < 0.6 or flavour == 'multiband':
        parts = []
        ggn = method != 'gn_model_analytic'
        bands = [(191.4e12, 195.0e12)] + ([(186.6e12, 190.0e12)] if eq == 'multiband' else [])
        loads = [rng.choice(['none', 'one', 'two', 'many', 'many']) for _ in bands]
        if eq != 'multiband' or all(x == 'none' for x in loads):
            loads = ['many' if x == 'none' else x for x in loads] if eq == 'multiband' else ['any'] * len(bands)
        for (lo, hi), load in zip(bands, loads):
            if load == 'none':
                continue                # an unlit band beside a lit one
            f = lo + rng.randint(0, 20) * 50e9
            sparse = ggn and ggn_mode != 'all'
            for k in range((3 if sparse else (rng.randint(2, 3) if thorough else 2)) if ggn
                           else (1 if tiny else rng.randint(1, 3))):
                sw, br = rng.choice(SLOTS[:5] if ggn else SLOTS[:7])
                if sparse:
                    nch = rng.randint(2, 4)         # groups of several carriers
                else:
                    nch = rng.randint(1, (4 if thorough else 3) if tiny else (6 if not thorough else 14))
                if load in ('one', 'two'):
                    nch = 1 if load == 'one' else 2         # a lone carrier / a pair in this band
                    if k > 0:
                        break
                f_min = f + sw / 2
                f_max = f_min + (nch - 1) * sw
                if f_max + sw / 2 > hi:
                    break
                parts.append({'f_min': f_min, 'f_max': f_max, 'slot_width': sw, 'baud_rate': br, 'roll_off': 0.15,
                              'delta_pdb': rng.choice([0, 0, 1, -1.5, 3]), 'tx_osnr': rng.choice([40, 45, 35, 100]),
                              'tx_power_dbm': rng.choice([0, 0, -3, 3, rng.uniform(-10, 10)])})
                if ggn or rng.random() < 0.25:
                    # strongly non-uniform powers: neighbouring groups of channels 6 dB apart (pre-emphasis), both in
                    # the ROADM equalisation offsets and at the transmitter
                    step = rng.choice([3.0, 2.0, 4.5, 5.0, 6.0, 8.0] if ggn else [3.0, 3.0, 2.0, 4.5]) \
                        * (1 if k % 2 == 0 else -1) * rng.choice([1, 1, -1])
                    if ggn and rng.random() < 0.5:
                        step = max(step, 0.0)       # one group well above a nominal neighbourhood
                    parts[-1]['delta_pdb'] = step
                    parts[-1]['tx_power_dbm'] = step
                f = f_max + sw / 2 + rng.choice([0, 0, 50e9, 300e9])
        spectrum = parts or None
    if spectrum is None and tiny:
        method = 'gn_model_analytic'
    # GGN methods: which channels are computed (the others are interpolated): all, a number of equally spaced ones, or
    # an explicit short list (1-based), also one that does not reach the edges of the spectrum
    computed, computed_nb = None, None
    if method != 'gn_model_analytic' and spectrum:
        ntot = sum(int(round((q['f_max'] - q['f_min']) / q['slot_width'])) + 1 for q in spectrum)
        if ggn_mode == 'list' and ntot >= 4 and rng.random() < 0.75:
            computed = sorted(rng.sample(range(2, ntot), rng.choice([2, 2, 3]) if ntot >= 5 else 2))
        elif ggn_mode == 'list' and ntot >= 3:
            computed = sorted(rng.sample(range(1, ntot + 1), rng.randint(2, min(4, ntot))))
        elif ggn_mode == 'number' and ntot >= 2:
            computed_nb = min(ntot, rng.choice([2, 3, 4, 4, 5, 6, 8]))
    sim = {'raman_params': {'flag': srs, 'result_spatial_resolution': 10e3,
                            'solver_spatial_resolution': rng.choice([50, 100, 200] if thorough else [200, 500])},
           'nli_params': {'method': method, 'dispersion_tolerance': 1, 'phase_shift_tolerance': 0.1,
                          'computed_channels': computed, 'computed_number_of_channels': computed_nb}}
    return {'kind': 'path', 'flavour': flavour, 'eq': eq, 'topo': topo, 'src': src, 'dst': dst, 'spectrum': spectrum,
            'sim': sim, 'power_dbm': rng.choice([None, None, 0, 2, -2, 5, 8]), 'updates': gen_updates(rng),
            'eq_patch': ({'roadm_types': roadm_types, 'power_mode': rng.choice([None, None, False])}
                         if eq == 'default' and (roadm_types or rng.random() < 0.2) else None)}


class Tracer:
    """wraps the primitive SpectralInformation updates, demux / mux and every element __call__ (run time only)"""
    PRIMS = ['apply_attenuation_lin', 'apply_gain_lin', 'add_ase', 'add_nli', 'apply_attenuation_db', 'apply_gain_db']

    def __init__(self):
        self.log = []          # primitive entries of the element call in progress
        self.calls = []        # finished top-level element calls
        self.updates = []      # Transceiver.update_snr calls
        self.depth = 0         # nesting of element calls
        self.pdepth = 0        # nesting of primitives (apply_attenuation_db -> apply_attenuation_lin)
        self.saved = []
        self.keep = []         # keeps every observed object alive so that id() stays unique
        self.mute = False      # update_snr calls of the harness' own reference receiver are not logged
        self.live = Live()     # aliasing registry over the element calls

    def __enter__(self):
        import gnpy.core.elements as E
        import gnpy.core.info as I
        tr = self
        SI = I.SpectralInformation

        def wrap_prim(name):
            orig = getattr(SI, name)

            def w(self_, arg):
                top = tr.pdepth == 0
                if top:
                    tr.keep.append(self_)
                    entry = {'op': name, 'obj': id(self_), 'arg': np.array(arg, dtype=float).copy(),
                             'n': len(self_._pch), 'f': np.array(self_.frequency, dtype=float)}
                    tr.log.append(entry)
                    entry['b'] = snap(self_)
                    entry['views'] = view_failures(self_, f'before update {name}')
                tr.pdepth += 1
                try:
                    return orig(self_, arg)
                finally:
                    tr.pdepth -= 1
                    if top:
                        entry['a'] = snap(self_)
                        entry['views'] += view_failures(self_, f'after update {name}')
            tr.saved.append((SI, name, orig))
            setattr(SI, name, w)
        for nm in self.PRIMS:
            wrap_prim(nm)

        # demux
        odemux = I.demuxed_spectral_information

        def demux_w(si, band):
            res = odemux(si, band)
            tr.keep += [si, res]
            tr.log.append({'op': 'demux', 'obj': id(si), 'lo': float(band['f_min']), 'hi': float(band['f_max']),
                           'res': None if res is None else id(res)})
            return res
        omux = I.muxed_spectral_information
        state = {'in': 0}

        def mux_w(lst):
            lst = list(lst)
            state['in'] += 1
            try:
                res = omux(lst)
            finally:
                state['in'] -= 1
            if state['in'] == 0:
                tr.keep += lst + [res]
                tr.log.append({'op': 'mux', 'objs': [id(x) for x in lst], 'res': id(res)})
            return res
        for mod in (I, E):
            tr.saved.append((mod, 'demuxed_spectral_information', getattr(mod, 'demuxed_spectral_information')))
            setattr(mod, 'demuxed_spectral_information', demux_w)
            tr.saved.append((mod, 'muxed_spectral_information', getattr(mod, 'muxed_spectral_information')))
            setattr(mod, 'muxed_spectral_information', mux_w)

        def wrap_call(cls):
            orig = cls.__dict__['__call__']

            def w(self_, spectral_info, *a, **kw):
                top = tr.depth == 0
                if top:
                    tr.log = []
                    before = snap(spectral_info)
                    tr.keep.append(spectral_info)
                    tr.live.set(spectral_info, before, f'the spectrum that entered {type(self_).__name__} {self_.uid}')
                    views = view_failures(spectral_info, 'at the input')
                tr.depth += 1
                try:
                    res = orig(self_, spectral_info, *a, **kw)
                finally:
                    tr.depth -= 1
                if top:
                    tr.keep.append(res)
                    after = snap(res)
                    tr.live.set(res, after, f'the spectrum that left {type(self_).__name__} {self_.uid}')
                    # an element may only change the object it returns: its input (when it returns another object) and
                    # every spectrum seen earlier on the path must be what they were
                    alias = tr.live.changed(except_obj=res)
                    for obj_rec in tr.live.objs:
                        obj_rec[1] = snap(obj_rec[0])
                    tr.calls.append({'el': self_, 'kind': type(self_).__name__, 'uid': self_.uid, 'in': id(spectral_info),
                                     'out': id(res), 'before': before, 'after': after, 'log': tr.log,
                                     'si_out': res, 'alias': alias,
                                     'views': views + view_failures(res, 'at the output')})
                    tr.log = []
                return res
            tr.saved.append((cls, '__call__', orig))
            cls.__call__ = w
        for cls in (E.Transceiver, E.Roadm, E.Fused, E.Fiber, E.Edfa, E.Multiband_amplifier):
            wrap_call(cls)
        oupd = E.Transceiver.update_snr

        def upd_w(self_, *args):
            res = oupd(self_, *args)
            if not tr.mute:
                tr.updates.append({'el': self_, 'fig': trx_figures(self_),
                                   'args': [None if s is None else np.array(s, dtype=float).copy() for s in args]})
            return res
        tr.saved.append((E.Transceiver, 'update_snr', oupd))
        E.Transceiver.update_snr = upd_w
        return self

    def __exit__(self, *exc):
        for obj, name, orig in reversed(self.saved):
            setattr(obj, name, orig)
        self.saved = []
        return False


FIGS = ['osnr_ase', 'osnr_nli', 'snr', 'osnr_ase_01nm', 'snr_01nm']


def trx_figures(el):
    """what a Transceiver reports at this moment (copies): the five figures, their raw values, the baud rates"""
    if getattr(el, 'snr', None) is None:
        return None
    fig = {nm: np.array(getattr(el, nm), dtype=float) for nm in FIGS}
    fig.update({'raw_' + nm: np.array(getattr(el, 'raw_' + nm), dtype=float) for nm in FIGS})
    fig['baud_rate'] = np.array(el.baud_rate, dtype=float)
    return fig


DEFAULT_UPDATES = [[38.0], [40.0, 35.0, {'pc': 1, 'lo': 30.0, 'hi': 45.0}], [None, 45.0]]


def update_args(spec, n):
    """concrete arguments of one update_snr call: None, a scalar dB value, or a per-channel array"""
    import random as _random
    out = []
    for s in spec:
        if s is None or isinstance(s, (int, float)):
            out.append(None if s is None else float(s))
        else:
            r = _random.Random(s['pc'])
            out.append(np.array([r.uniform(s['lo'], s['hi']) for _ in range(n)]))
    return out


def gen_updates(rng):
    """2-4 successive re-evaluations of the receiver: tx OSNR only, tx + add/drop OSNRs, per-channel arrays, None"""
    def one():
        r = rng.random()
        tx = rng.choice([35.0, 38.0, 40.0, 45.0, 100.0, round(rng.uniform(25, 50), 3)])
        if r < 0.3:
            return [tx]
        pc = {'pc': rng.randint(0, 10 ** 6), 'lo': 28.0, 'hi': 48.0}
        if r < 0.55:
            return [rng.choice([33.0, 35.0, 38.0, 41.0])] * rng.randint(1, 3) + [tx]
        if r < 0.8:
            return [pc, rng.choice([None, 36.0]), dict(pc, pc=pc['pc'] + 1)]
        return [None, rng.choice([None, 30.0, pc]), tx]
    return [one() for _ in range(rng.randint(2, 4))]


def drive_path(case):
    """build + design the network, propagate the request along the computed path under the tracer"""
    import logging
    from gnpy.core.parameters import SimParams
    from gnpy.tools.json_io import network_from_json, _spectrum_from_json
    from gnpy.tools.worker_utils import designed_network
    from gnpy.topology.request import compute_constrained_path, propagate
    logging.disable(logging.CRITICAL)
    eq = equipment(case['eq'], case.get('eq_patch'))
    saved = {"raman_params": SimParams._shared_dict['raman_params'].to_json(),
             "nli_params": SimParams._shared_dict['nli_params'].to_json()}
    SimParams.set_params(copy.deepcopy(case['sim']))
    try:
        net = network_from_json(copy.deepcopy(case['topo']), eq)
        spec = _spectrum_from_json(copy.deepcopy(case['spectrum'])) if case['spectrum'] else None
        with warnings.catch_warnings():
            warnings.simplefilter('ignore')
            net, req, ref = designed_network(eq, net, source=case['src'], destination=case['dst'], initial_spectrum=spec,
                                             args_power=case.get('power_dbm'))
        path = compute_constrained_path(net, req)
        if not path:
            return None
        path = copy.deepcopy(path)
        with Tracer() as tr:
            with np.errstate(all='ignore'), warnings.catch_warnings():
                warnings.simplefilter('ignore')
                si = propagate(path, req, eq)
                # the receiver is re-evaluated several times on this one propagation (as propagate_and_optimize_mode
                # does when it explores modes, or an API user with another Tx OSNR): every call is logged with the
                # figures it leaves, and repeated on a reference receiver that only ever saw this one call
                rx = path[-1]
                if getattr(rx, 'snr', None) is not None:
                    for spec in case.get('updates', DEFAULT_UPDATES):
                        args = update_args(spec, len(si.frequency))
                        rx.update_snr(*args)
                        tr.mute = True
                        try:
                            ref_rx = copy.deepcopy(rx)
                            ref_rx._calc_snr(si)
                            ref_rx.update_snr(*args)
                        finally:
                            tr.mute = False
                        tr.updates[-1]['fresh'] = trx_figures(ref_rx)
        return {'path': path, 'calls': tr.calls, 'updates': tr.updates, 'si': si, 'req': req}
    finally:
        SimParams.set_params(saved)


KIND = {'Transceiver': 'KTrx', 'Roadm': 'KRoadm', 'Fused': 'KFused', 'Fiber': 'KFiber', 'RamanFiber': 'KRaman',
        'Edfa': 'KEdfa', 'Multiband_amplifier': 'KMulti'}


def prim_sop(e, sel):
    """a logged primitive entry restricted to the selected channels -> (Gallina sop, python tuple)"""
    n = e['n']
    arg = np.broadcast_to(e['arg'], (n,)) if e['arg'].ndim <= 1 and (e['arg'].ndim == 0 or e['arg'].shape[0] in (1, n)) \
        else e['arg']
    keep = np.isin(e['f'], sel)
    if arg.shape != (n,):
        vals = [float(x) for x in np.ravel(arg)]       # ill-shaped: give it to the model as it is (shape error there too)
    else:
        vals = [float(x) for x in arg[keep]]
    op = e['op']
    if op == 'apply_attenuation_db':
        return 'SAtt', [math.pow(10.0, -v / 10.0) for v in vals]
    if op == 'apply_gain_db':
        return 'SGain', [math.pow(10.0, v / 10.0) for v in vals]
    return {'apply_attenuation_lin': 'SAtt', 'apply_gain_lin': 'SGain', 'add_ase': 'SAse', 'add_nli': 'SNli'}[op], vals


def sop_lit(ctor, vals):
    return f'{ctor} {fqlist(vals)}'


def elem_program(call, sel):
    """reconstruct, from the log of one element call (by object identity), the structured program the
    element applied; returns (Gallina eprog, structure problem or None, python summary)"""
    log, x, kind = call['log'], call['in'], call['kind']
    summ = [e['op'] for e in log]

    def flat(entries, obj):
        ops, prob = [], None
        for e in entries:
            if e['op'] in ('demux', 'mux'):
                ops.append(f'SDemux {fql(e.get("lo", 0.0))} {fql(e.get("hi", 0.0))}' if e['op'] == 'demux' else 'SAdd []')
                continue
            if e['obj'] != obj:
                prob = f'{e["op"]} applied to an object that is not the one being propagated'
            ops.append(sop_lit(*prim_sop(e, sel)))
        return ops, prob
    if kind == 'Edfa':
        if not log or log[0]['op'] != 'demux' or log[0]['obj'] != x:
            ops, prob = flat(log, x)
            return 'PFlat ' + listlit(ops), prob or 'Edfa.__call__ did not start by demuxing its input', summ
        y = log[0]['res']
        ops, prob = flat(log[1:], y)
        if call['out'] != y:
            prob = prob or 'Edfa.__call__ does not return the demuxed object it propagated'
        return f'PEdfa {fql(log[0]["lo"])} {fql(log[0]["hi"])} ' + listlit(ops), prob, summ
    if kind == 'Multiband_amplifier':
        amps, prob, i, outs = [], None, 0, []
        while i < len(log) and log[i]['op'] == 'demux' and log[i]['obj'] == x:
            lo, hi, y = log[i]['lo'], log[i]['hi'], log[i]['res']
            i += 1
            if y is None:
                amps.append(f'({fql(lo)}, {fql(hi)}, [])')
                continue
            if not (i < len(log) and log[i]['op'] == 'demux' and log[i]['obj'] == y):
                prob = prob or 'inner amplifier did not demux the band spectrum'
                break
            if (log[i]['lo'], log[i]['hi']) != (lo, hi):
                prob = prob or 'inner amplifier demuxed a different band'
            z = log[i]['res']
            i += 1
            ops = []
            while i < len(log) and log[i]['op'] not in ('demux', 'mux'):
                if log[i]['obj'] != z:
                    prob = prob or 'update applied to a foreign object inside the multiband amplifier'
                ops.append(sop_lit(*prim_sop(log[i], sel)))
                i += 1
            if not ops:
                prob = prob or 'an inner amplifier applied no update to a band that has channels'
            outs.append(z)
            amps.append(f'({fql(lo)}, {fql(hi)}, {listlit(ops)})')
        if not (i == len(log) - 1 and log[i]['op'] == 'mux'):
            prob = prob or 'Multiband_amplifier.__call__ did not end with one mux of its amplifiers outputs'
        elif log[i]['objs'] != outs or log[i]['res'] != call['out']:
            prob = prob or 'mux arguments / result are not the amplifiers outputs'
        return 'PMulti ' + listlit(amps), prob, summ
    ops, prob = flat(log, x)
    if call['out'] != x:
        prob = prob or f'{kind}.__call__ returns a different object'
    return 'PFlat ' + listlit(ops), prob, summ


def choose_sample(rng, call, k):
    """frequencies of up to k channels to replay in the model: survivors first, plus dropped ones"""
    fin, fout = call['before']['f'], (call['after']['f'] if call['after'] is not None else np.array([]))
    surv = [float(f) for f in fin if f in set(fout.tolist())]
    drop = [float(f) for f in fin if f not in set(fout.tolist())]
    sel = []
    if surv:
        sel += [surv[0], surv[-1]] if len(surv) > 1 else [surv[0]]
        rest = [f for f in surv if f not in sel]
        sel += rng.sample(rest, min(len(rest), max(0, k - len(sel))))
    sel += rng.sample(drop, min(len(drop), 2))
    return np.array(sorted(set(sel)))


def elem_term(rng, call, k):
    sel = choose_sample(rng, call, k)
    prog, prob, summ = elem_program(call, sel)
    b = call['before']
    idx = [i for i in range(len(b['f'])) if b['f'][i] in set(sel.tolist())]
    a = call['after']
    aidx = [i for i in range(len(a['f'])) if a['f'][i] in set(sel.tolist())] if a is not None else []
    exp = snap_rows(a, aidx) if a is not None else []
    term = (f'run_elem {KIND[call["kind"]]} ({prog}) ' + listlit([chlit(c) for c in snap_chs(b, idx)])
            + ' (Some ' + listlit([chlit(c) for c in snap_chs(a, aidx)] if a is not None else []) + ')')
    return term, exp, prob, summ


def check_elem_line(ctx, case, call, line, exp, prob, summ):
    """diff of one replayed element"""
    kind = call['kind']
    ident = {'element': call['uid'], 'kind': kind, 'ops': summ}
    jc = jcase(case)
    if prob:
        ctx.corr_break(f'corr:Elements.{kind}.structure', prob, jc, impl=ident, model=None)
        return
    flags, body = line.split('#', 1)
    if flags[0] != 'T':
        ctx.corr_break(f'corr:Elements.{kind}.program',
                       f'{call["uid"]}: the updates {summ} applied by the element are not an instance of the program '
                       f'of a {kind}', jc, impl=ident, model='eprog_okb = false')
        return
    v = parse_verdict(body)
    if isinstance(v, str) and v.startswith('E:'):
        ctx.corr_break(f'corr:Elements.{kind}.replay', f'{call["uid"]}: model raises {body}', jc, impl=ident, model=body)
        return
    if v != '=':
        ctx.corr_break(f'corr:Elements.{kind}.replay',
                       f'{call["uid"]}: replaying the logged updates {summ} from the snapshot before the element does '
                       f'not give the snapshot after it: {diff_text(v, exp)}', jc, impl=exp[:3], model=body)
    return flags[1] == 'T'


def trx_terms(rng, res, k):
    """terms replaying the reported figures of source and destination transceivers"""
    out = []
    calls = {id(c['el']): c for c in res['calls'] if c['kind'] == 'Transceiver'}
    for u in res['updates']:
        el, fig = u['el'], u['fig']
        c = calls.get(id(el))
        if c is None or fig is None:
            continue
        b = c['before']
        n = len(b['f'])
        idx = sorted(rng.sample(range(n), min(n, k if 'fresh' not in u else 2)))
        for i in idx:
            args = []
            for s in u['args']:
                if s is None:
                    args.append('None')
                else:
                    v = float(np.broadcast_to(s, (n,))[i])
                    args.append(f'(Some {fql(math.pow(10.0, -v / 10.0))})')
            rep = [float(fig[nm][i]) for nm in FIGS]
            raw = [float(fig['raw_' + nm][i]) for nm in FIGS]
            out.append((f'run_trx ({chlit(snap_chs(b, [i])[0])}) {listlit(args)}', el.uid, i, raw, rep))
    return out


def inv_lin(db):
    """1 / linear value of a dB figure, independent of gnpy.core.utils"""
    if db == float('inf'):
        return 0.0
    if db == float('-inf') or db != db:
        return float('inf')
    return math.pow(10.0, -db / 10.0)


def check_trx_line(ctx, case, line, uid, i, raw, rep):
    m_raw, m_rep = (tuple(pq(x) for x in part.split(',')) for part in line.split('/'))
    names = ['osnr_ase', 'osnr_nli', 'snr', 'osnr_ase_01nm', 'snr_01nm']
    for tag, impl, model in (('raw_', raw, m_raw), ('', rep, m_rep)):
        for nm, db, mv in zip(names, impl, model):
            iv = inv_lin(db)
            if not (math.isfinite(iv) and close(iv, mv, REL, 1e-300)):
                ctx.corr_break('corr:Transceiver.update_snr' if tag == '' else 'corr:Transceiver._calc_snr',
                               f'{uid} channel #{i}: reported {tag}{nm} = {db!r} dB, i.e. 1/lin = {iv!r}; model {mv!r}',
                               jcase(case), impl=iv, model=mv)
                return


def trx_identity_failures(res):
    """after EVERY update_snr call: reported figures obey 1/GSNR = 1/OSNR_ASE + 1/SNR_NLI (signal bandwidth and
    0.1 nm), the 0.1 nm figures are the signal-bandwidth ones rescaled by 12.5 GHz / baud rate, and the figures depend
    only on the raw figures and the arguments of that call (same as on a receiver that saw only this call)"""
    out = []
    ncall = {}
    for u in res['updates']:
        el, fig = u['el'], u['fig']
        if fig is None:
            continue
        ncall[id(el)] = ncall.get(id(el), 0) + 1
        where = f'{el.uid} after update_snr call #{ncall[id(el)]}'
        inv = np.vectorize(inv_lin, otypes=[float])
        with np.errstate(all='ignore'):
            g, o, nl, g01, o01 = (inv(fig[nm]) for nm in ('snr', 'osnr_ase', 'osnr_nli', 'snr_01nm', 'osnr_ase_01nm'))
            br = fig['baud_rate']
            bad = ~relclose(g, o + nl, REL)
            if bad.any():
                i = int(np.argmax(bad))
                out.append(('reported_identity', f'{where}, channel #{i}: 1/snr = {g[i]!r} but 1/osnr_ase + 1/osnr_nli = '
                            f'{o[i] + nl[i]!r}'))
            bad = ~relclose(g01, o01 + nl * 12.5e9 / br, REL)
            if bad.any():
                i = int(np.argmax(bad))
                out.append(('reported_identity_01nm', f'{where}, channel #{i}: 0.1 nm figures: 1/snr_01nm = {g01[i]!r} but '
                            f'1/osnr_ase_01nm + 1/osnr_nli(0.1nm) = {o01[i] + nl[i] * 12.5e9 / br[i]!r}'))
            for nm, x, x01 in (('osnr_ase', o, o01), ('snr', g, g01)):
                bad = ~relclose(x01, x * 12.5e9 / br, REL)
                if bad.any():
                    i = int(np.argmax(bad))
                    out.append(('reported_01nm_mismatch', f'{where}, channel #{i}: {nm}_01nm and {nm} are not the same '
                                f'quantity: 1/{nm}_01nm = {x01[i]!r}, 1/{nm} * 12.5GHz/baud = {x[i] * 12.5e9 / br[i]!r}'))
        fr = u.get('fresh')
        if fr is not None:
            for nm in FIGS:
                if not np.array_equal(fig[nm], fr[nm], equal_nan=True):
                    i = int(np.argmax(~((fig[nm] == fr[nm]) | (np.isnan(fig[nm]) & np.isnan(fr[nm])))))
                    out.append(('update_history_dependent',
                                f'{where}, channel #{i}: reported {nm} = {fig[nm][i]!r} dB, but a receiver that saw the same '
                                f'propagation and only this call reports {fr[nm][i]!r} dB'))
                    break
    return out


PRIM_KIND = {'apply_attenuation_lin': 'att', 'apply_attenuation_db': 'att', 'apply_gain_lin': 'gain', 'apply_gain_db': 'gain',
             'add_ase': 'ase', 'add_nli': 'nli'}


def prim_factor(e):
    """linear factor / noise power of a logged primitive, converted independently of gnpy.core.utils"""
    op, arg = e['op'], e['arg']
    if op == 'apply_attenuation_db':
        return np.power(10.0, -arg / 10.0)
    if op == 'apply_gain_db':
        return np.power(10.0, arg / 10.0)
    return arg


def declared_bands(el):
    """the bands an amplifier element declares it handles (its own, or those of its per-band amplifiers, in listing order)"""
    amps = getattr(el, 'amplifiers', None)
    if amps is not None:
        return [(float(a.params.bands[0]['f_min']), float(a.params.bands[0]['f_max'])) for a in amps.values()]
    bands = getattr(getattr(el, 'params', None), 'bands', None)
    if type(el).__name__ == 'Edfa' and bands:
        return [(float(bands[0]['f_min']), float(bands[0]['f_max']))]
    return None


def band_failures(el, b, a, where):
    """demux -> amplify -> mux loses nothing: every channel that lies in a declared band of the (multiband) amplifier
    comes out of it, whatever the number of bands, their listing order and the load of each band (0, 1, 2, many
    carriers); nothing outside the declared bands does.  a = None: the element raised instead of returning."""
    bands = declared_bands(el)
    if bands is None:
        return []
    inb = np.zeros(len(b['f']), dtype=bool)
    for lo, hi in bands:
        inb |= (b['f'] - b['sw'] / 2 >= lo) & (b['f'] + b['sw'] / 2 <= hi)
    fout = set(a['f'].tolist()) if a is not None else set()
    out = []
    lost = [float(f) for f, k in zip(b['f'], inb) if k and f not in fout]
    if lost:
        loads = [int(np.sum((b['f'] - b['sw'] / 2 >= lo) & (b['f'] + b['sw'] / 2 <= hi))) for lo, hi in bands]
        out.append(('channel_lost', f'{where}: {len(lost)} channel(s) lying in a declared band did not come out '
                                    f'(e.g. {lost[0] / 1e12:.4f} THz; carriers per declared band, in listing order: {loads}'
                                    + ('; the element raised' if a is None else '') + ')'))
    extra = [float(f) for f, k in zip(b['f'], inb) if not k and f in fout]
    if extra:
        out.append(('channel_out_of_band', f'{where}: a channel outside every declared band came out ({extra[0] / 1e12:.4f} THz)'))
    return out


BAND_PLAN = [('U', 182.0e12, 186.4e12), ('L', 186.5e12, 190.1e12), ('C', 191.2e12, 196.1e12), ('S', 196.2e12, 200.6e12)]


def gen_multi_case(rng):
    """a multiband amplifier declared with 2, 3 or 4 bands (S/C/L/U-like plans, any listing order) and a comb whose load
    per band is 0, 1, 2 or many carriers in every combination (empty band first / middle / last, single-carrier bands),
    sometimes with carriers in the gaps between the bands"""
    nb = rng.choice([2, 2, 3, 3, 4])
    plan = sorted(rng.sample(BAND_PLAN, nb), key=lambda x: x[1])
    bands = []
    for name, lo, hi in plan:
        lo2, hi2 = lo + rng.choice([0.0, 50e9, 0.3e12]), hi - rng.choice([0.0, 50e9, 0.4e12])
        bands.append([name, lo2, hi2, round(rng.uniform(12, 25), 2), rng.choice([0.0, 0.0, 1.0, 2.5])])
    rng.shuffle(bands)
    loads = [rng.choice(['none', 'one', 'two', 'many']) for _ in bands]
    if rng.random() < 0.9 and all(x == 'none' for x in loads):
        loads[rng.randrange(nb)] = rng.choice(['one', 'many'])
    chs = []
    for (name, lo, hi, _, _), load in zip(bands, loads):
        n = {'none': 0, 'one': 1, 'two': 2, 'many': rng.randint(3, 8)}[load]
        f = lo + rng.randint(1, 12) * 50e9
        for _ in range(n):
            sw, br = rng.choice(SLOTS[:6])
            f += sw / 2
            if f + sw / 2 > hi:
                break
            chs.append([f, sw, br, 1e-3 * 10 ** (rng.uniform(-25, 3) / 10)])
            f += sw / 2 + rng.choice([0.0, 0.0, 50e9])
    if rng.random() < 0.25:
        # a carrier that no amplifier takes (in a gap between two bands / outside the plan)
        chs.append([rng.choice([190.6e12, 181.0e12, 201.5e12]), 50e9, 32e9, 1e-4])
    chs.sort()
    noise = None
    if chs and rng.random() < 0.7:
        noise = [[10 ** (-rng.uniform(15, 45) / 10) for _ in chs], [10 ** (-rng.uniform(15, 45) / 10) for _ in chs]]
    return {'kind': 'multi', 'bands': bands, 'chs': chs, 'noise': noise}


_BASE_AMP = {}


def multi_element(case):
    """a real Multiband_amplifier whose per-band amplifiers are real Edfa objects declared on the generated bands, in the
    listing order of the case"""
    from gnpy.tools.json_io import network_from_json
    from gnpy.core.elements import Multiband_amplifier
    if 'm' not in _BASE_AMP:
        topo = {'elements': [{'uid': 'A', 'type': 'Transceiver'}, {'uid': 'B', 'type': 'Transceiver'},
                             {'uid': 'multiband amplifier', 'type': 'Multiband_amplifier',
                              'type_variety': 'std_medium_gain_multiband',
                              'amplifiers': [{'type_variety': v, 'operational': {'gain_target': 20.0, 'delta_p': 0,
                                                                                 'out_voa': 0.0, 'tilt_target': 0.0}}
                                             for v in ('std_medium_gain_C', 'std_medium_gain_L')]}],
                'connections': [{'from_node': 'A', 'to_node': 'multiband amplifier'},
                                {'from_node': 'multiband amplifier', 'to_node': 'B'}]}
        net = network_from_json(topo, equipment('multiband'))
        _BASE_AMP['m'] = [n for n in net.nodes() if isinstance(n, Multiband_amplifier)][0]
    m = copy.deepcopy(_BASE_AMP['m'])
    base = m.amplifiers['CBAND']
    amps = {}
    for name, lo, hi, g, voa in case['bands']:
        a = copy.deepcopy(base)
        a.uid = f'{name} band amplifier'
        a.params.f_min, a.params.f_max = lo, hi
        a.params.bands = [{'f_min': lo, 'f_max': hi}]
        a.effective_gain = g
        a.operational.gain_target = g
        a.out_voa = voa
        amps[name] = a
    m.amplifiers = amps
    return m


def drive_multi(case):
    """call the declared multiband amplifier on a real spectrum under the tracer"""
    import logging
    logging.disable(logging.CRITICAL)
    el = multi_element(case)
    si = _mk_si(case['chs'], case['noise'])
    before = snap(si)
    exc = None
    with Tracer() as tr:
        try:
            with np.errstate(all='ignore'), warnings.catch_warnings():
                warnings.simplefilter('ignore')
                out = el(si)
        except Exception as e:
            exc, out = e, None
    return {'calls': tr.calls, 'updates': [], 'si': out, 'el': el, 'before': before, 'exc': exc}


def alias_failures(call):
    return [('aliasing', f'{call["kind"]} {call["uid"]} changed a spectrum it does not return: {d}') for d in call.get('alias', [])]


def path_oracle_c01(res):
    """C01 on the per-element and per-update observations of a propagated path"""
    fails = []
    scope = True        # sticky: once the first-order NLI estimate exceeds the channel power (or is not a number: a channel
    #                     exactly at a fibre's zero-dispersion frequency makes the GN closed form 0/0) the rest is not judged
    for c in res['calls']:
        where = f'after {c["kind"]} {c["uid"]}'
        fails += alias_failures(c)
        fails += [(key, f'{c["kind"]} {c["uid"]} {d}') for key, d in c.get('views', [])]
        for k, e in enumerate(c['log']):
            fails += [(key, f'{c["kind"]} {c["uid"]} update #{k + 1} {d}') for key, d in e.get('views', [])]
            if e['op'] not in PRIM_KIND or 'a' not in e:
                continue
            w = f'{c["kind"]} {c["uid"]} update #{k + 1} {e["op"]}'
            if e['op'] == 'add_nli':
                # scope of the property: the NLI increment does not exceed the channel power (a negative increment
                # computed by gnpy itself is in scope: it is judged, not excused)
                x = np.broadcast_to(e['arg'], e['b']['p'].shape)
                scope = scope and bool(np.all((x <= e['b']['p']) | (x < 0)))
            if not scope:
                continue
            fails += state_failures(e['a'], 'after ' + w)
            if e['arg'].ndim == 0 or e['arg'].shape in ((1,), e['b']['p'].shape):
                fails += accounting_failures(PRIM_KIND[e['op']], prim_factor(e), e['b'], e['a'], w)
        a = c['after']
        if a is None or not scope:
            continue
        fails += state_failures(a, where)
        fails += identity_failures(c['si_out'], where)
        # power bookkeeping of the element as a whole: sig + ase + nli = total
        tot = a['s'] * a['p'] + a['a'] * a['p'] + a['n'] * a['p']
        bad = ~relclose(tot, a['p'], 1e-12)
        if bad.any():
            i = int(np.argmax(bad))
            fails.append(('power_split', f'{where}: signal+ASE+NLI power of channel #{i} = {tot[i]!r} != total {a["p"][i]!r}'))
        # band split / merge and channel filtering: what leaves the element are records of what entered it
        fin = set(c['before']['f'].tolist())
        if not set(a['f'].tolist()) <= fin or len(set(a['f'].tolist())) != len(a['f']):
            fails.append(('channel_records', f'{where}: channels created or duplicated by the element'))
        fails += band_failures(c['el'], c['before'], a, where)
    res['out_of_scope'] = not scope
    if scope:
        fails += trx_identity_failures(res)
    return fails


def nontrivial_path(res):
    kinds = {c['kind'] for c in res['calls']}
    return len(res['calls']) >= 4 and ({'Edfa', 'Multiband_amplifier'} & kinds) and ({'Fiber', 'RamanFiber'} & kinds)


# ------------------------------------------------------------------ run
def balanced_eval(prop, terms, tag, nshards=16, timeout=900):
    """coq_eval with the terms dealt over the shards by size (largest first, round robin)"""
    if not terms:
        return []
    order = sorted(range(len(terms)), key=lambda i: -len(terms[i]))
    nsh = min(nshards, len(terms))
    buckets = [order[k::nsh] for k in range(nsh)]
    per = max(len(b) for b in buckets)
    # coq_eval cuts contiguous slices of `per` terms: pad the short buckets with a trivial term
    flat, pos = [], {}
    for b in buckets:
        for i in b:
            pos[i] = len(flat)
            flat.append(terms[i])
        flat += ['""%string'] * (per - len(b))
    res = common.coq_eval(prop, IMPORTS, flat, per_file=per, tag=tag, timeout=timeout)
    return [res[pos[i]] for i in range(len(terms))]


def load_corpus(prop):
    cases = []
    for f in sorted(glob.glob(os.path.join(common.VERIF, 'corpus', prop, '*.json'))):
        c = json.load(open(f))
        c['_corpus'] = os.path.basename(f)
        cases.append(c)
    return cases


def build_cases(ctx, prop, n_hist, n_bad, nmax, maxops):
    rng = ctx.rng
    if ctx.replay:
        rec = json.load(open(ctx.replay))
        return [rec['case']]
    cases = load_corpus(prop)
    for k in range(n_hist):
        big = k % 10 == 0
        cases.append(make_concrete(rng, gen_hist(rng, nmax if big else max(4, nmax // 3), maxops if big else max(4, maxops // 2))))
    for _ in range(n_bad):
        cases.append(make_concrete(rng, gen_hist(rng, min(nmax, 8), 6, malformed=True)))
    for _ in range(max(20, n_hist // 3)):
        cases.append(gen_multi_case(rng))
    return cases


def process_path(ctx, case, path_oracle_fn, sample_k, terms, meta):
    """drive one path case; returns False when gnpy refuses the generated network"""
    rng = ctx.rng
    t0 = time.time()
    try:
        res = drive_path(case)
    except Exception as e:
        # a network the generator produced but gnpy cannot design, or a propagation gnpy itself aborts (e.g. the GGN
        # solvers on a one-channel comb): not a case of this property, counted; an exception raised by the harness'
        # own code is a bug of the harness and is not swallowed
        tb = e.__traceback__
        while tb.tb_next is not None:
            tb = tb.tb_next
        if os.path.dirname(os.path.abspath(tb.tb_frame.f_code.co_filename)) == os.path.dirname(os.path.abspath(__file__)):
            raise
        ctx.count('path_rejected_' + type(e).__name__)
        notes = ctx.extra.setdefault('rejected_examples', {})
        notes.setdefault(type(e).__name__, f'{case["flavour"]}: {str(e)[:160]}')
        return False
    finally:
        ctx.extra.setdefault('path_seconds', {}).setdefault(case['flavour'], []).append(round(time.time() - t0, 2))
        if time.time() - t0 > 8:
            ctx.extra.setdefault('slow_paths', []).append(
                {'s': round(time.time() - t0, 1), 'flavour': case['flavour'], 'sim': case['sim'], 'corpus': case.get('_corpus'),
                 'spectrum': case['spectrum'], 'dispersion': [{k: v for k, v in e['params'].items() if 'disp' in k}
                                                              for e in case['topo']['elements'] if e['type'] == 'Fiber'
                                                              and any('disp' in k for k in e['params'])]})
    if res is None:
        ctx.count('path_no_route')
        return False
    ctx.count('path_cases')
    ctx.count('path_flavour_' + case['flavour'])
    ctx.count('path_nli_' + case['sim']['nli_params']['method'])
    nlp = case['sim']['nli_params']
    if nlp['method'] != 'gn_model_analytic':
        ctx.count('path_ggn_computed_' + ('list' if nlp.get('computed_channels') else
                                          'number' if nlp.get('computed_number_of_channels') else 'all'))
    ctx.count('path_raman_flag_' + str(bool(case['sim']['raman_params']['flag'])))
    ctx.count('path_elements', len(res['calls']))
    ctx.count('path_channels', len(res['si'].frequency))
    for c in res['calls']:
        ctx.count('elem_' + c['kind'])
        if c['kind'] == 'Edfa':
            ctx.count('amp_model_' + str(c['el'].params.type_def))
        if c['kind'] == 'Multiband_amplifier':
            for amp in c['el'].amplifiers.values():
                ctx.count('amp_model_multiband_' + str(amp.params.type_def))
    small = {k: v for k, v in jcase(case).items() if k != 'topo'}
    small['n_elements'] = len(res['calls'])
    small['elements'] = ''.join(c['kind'][0] for c in res['calls'])
    ctx.case(small, bool(nontrivial_path(res)))
    for key, desc in path_oracle_fn(res):
        ctx.violation(key, desc, jcase(case))
    if res.get('out_of_scope'):
        ctx.count('path_out_of_scope_nli_above_channel_power_or_nan')
    for c in res['calls']:
        if not (snap_finite(c['before']) and snap_finite(c['after'])
                and all(bool(np.all(np.isfinite(e['arg']))) for e in c['log'] if 'arg' in e)):
            # a non-finite power / share (judged by the oracle when in scope) cannot enter the exact model
            ctx.count('elem_nonfinite_not_replayed')
            continue
        try:
            term, exp, prob, summ = elem_term(rng, c, sample_k)
        except Exception as e:
            ctx.count('elem_term_not_built_' + type(e).__name__)
            ctx.corr_break('corr:harness.term_construction', f'{c["kind"]} {c["uid"]}: {type(e).__name__}: {e}', jcase(case))
            continue
        terms.append(term)
        meta.append(('elem', case, c, exp, prob, summ))
    try:
        # (a path that left the scope -- NLI estimate above the channel power / not a number -- has shares outside [0,1]
        #  and figures that are not numbers: its receivers are not replayed)
        for (term, uid, i, raw, rep) in (trx_terms(rng, res, 3) if not res.get('out_of_scope') else []):
            terms.append(term)
            meta.append(('trx', case, uid, i, raw, rep))
    except Exception as e:
        ctx.count('trx_nonfinite_not_replayed' if isinstance(e, ValueError) else 'trx_term_not_built_' + type(e).__name__)
    ctx.count('update_snr_calls', len(res['updates']))
    return True


def process_multi(ctx, case, path_oracle_fn, terms, meta):
    """one declared multiband amplifier: oracle on its single call, model replay of all its channels"""
    rng = ctx.rng
    if not case['chs']:
        ctx.count('multi_empty_comb_skipped')
        return
    res = drive_multi(case)
    el, b = res['el'], res['before']
    loads = [int(np.sum((b['f'] - b['sw'] / 2 >= lo) & (b['f'] + b['sw'] / 2 <= hi))) for _, lo, hi, _, _ in case['bands']]
    ctx.count('multi_cases')
    ctx.count(f'multi_bands_{len(case["bands"])}')
    for x in loads:
        ctx.count('multi_band_load_' + ('0' if x == 0 else '1' if x == 1 else '2' if x == 2 else 'many'))
    if loads and loads[0] == 0 and any(loads):
        ctx.count('multi_empty_band_listed_first')
    ctx.case(jcase(case), sum(1 for x in loads if x) >= 2 or (0 in loads and any(loads)))
    jc = jcase(case)
    if res['exc'] is not None:
        ctx.count('multi_outcome_E:' + type(res['exc']).__name__)
        for key, desc in band_failures(el, b, None, f'Multiband_amplifier ({type(res["exc"]).__name__}: {res["exc"]})'):
            ctx.violation(key, desc, jc)
        amps = listlit([f'({fql(lo)}, {fql(hi)}, [])' for _, lo, hi, _, _ in case['bands']])
        terms.append(f'run_elem KMulti (PMulti {amps}) ' + listlit([chlit(c) for c in snap_chs(b)]) + ' None')
        meta.append(('multi_exc', case, 'E:' + type(res['exc']).__name__))
        return
    for key, desc in path_oracle_fn(res):
        ctx.violation(key, desc, jc)
    for c in res['calls']:
        try:
            term, exp, prob, summ = elem_term(rng, c, 64)
        except Exception as e:
            ctx.count('elem_term_not_built_' + type(e).__name__)
            ctx.corr_break('corr:harness.term_construction', f'{type(e).__name__}: {e}', jc)
            continue
        terms.append(term)
        meta.append(('elem', case, c, exp, prob, summ))


def run_all(ctx, prop, hist_oracle_fn, path_oracle_fn, sample_k, n_hist, n_bad, n_path):
    """shared driver of C01 and C02: fills ctx (violations, corr_breaks, counters)"""
    rng = ctx.rng
    t_start = time.time()
    cases = build_cases(ctx, prop, n_hist, n_bad, ctx.scale(30, 60), ctx.scale(20, 40))
    terms, meta = [], []
    for case in cases:
        if case['kind'] == 'hist':
            init, steps = drive_hist(case)
            ops = [s['c']['op'] for s in steps]
            for o in ops:
                ctx.count('hist_op_' + o)
            for s in steps:
                if s['out'] != 'ok':
                    ctx.count('hist_outcome_' + s['out'])
            if isinstance(init, str):
                ctx.count('hist_outcome_init_' + init)
            ctx.count('hist_cases')
            ctx.count('hist_channels', 0 if isinstance(init, str) else len(init['f']))
            if any(not in_scope_step(s) for s in steps):
                ctx.count('hist_out_of_scope')
            ctx.case(jcase(case), len(set(ops)) >= 3)
            for key, desc in hist_oracle_fn(case, init, steps):
                ctx.violation(key, desc, jcase(case))
            try:
                term = hist_term(case, init, steps)
            except Exception as e:      # never an exception out of the machinery: reported as a broken tie
                ctx.count('hist_term_not_built_' + type(e).__name__)
                ctx.corr_break('corr:harness.term_construction', f'{type(e).__name__}: {e}', jcase(case))
                continue
            terms.append(term)
            meta.append(('hist', case, init, steps))
        elif case['kind'] == 'multi':
            process_multi(ctx, case, path_oracle_fn, terms, meta)
        else:
            process_path(ctx, case, path_oracle_fn, sample_k, terms, meta)
    if not ctx.replay:
        # generated paths: a fixed number of accepted networks per flavour (gnpy refuses some generated designs)
        quota = {'mesh': n_path * 3 // 8, 'line': n_path * 2 // 8, 'multiband': n_path * 2 // 8}
        quota['raman'] = max(1, n_path - sum(quota.values()))
        for flavour, q in quota.items():
            got, tries = 0, 0
            while got < q and tries < 4 * q + 8:
                tries += 1
                if process_path(ctx, gen_path_case(rng, flavour, ctx.thorough), path_oracle_fn, sample_k, terms, meta):
                    got += 1
    t_drive = time.time()
    lines = balanced_eval(prop, terms, 'cases', nshards=ctx.scale(16, 96), timeout=ctx.scale(900, 5400))
    ctx.extra['timing_s'] = {'proofs': round(t_start - ctx.t0, 1), 'gnpy_side': round(t_drive - t_start, 1),
                             'coq_eval': round(time.time() - t_drive, 1), 'terms': len(terms),
                             'term_chars': sum(len(x) for x in terms)}
    nstates = 0
    for m, line in zip(meta, lines):
        if m[0] == 'hist':
            nstates += compare_hist(ctx, m[1], m[2], m[3], line)
        elif m[0] == 'multi_exc':
            body = line.split('#', 1)[1]
            got = parse_verdict(body) if body.startswith('E:') else 'ok'
            if got != m[2]:
                ctx.corr_break('corr:Elements.Multiband_amplifier.outcome',
                               f'declared multiband amplifier: gnpy {m[2]}, model {got}', jcase(m[1]), impl=m[2], model=got)
        elif m[0] == 'elem':
            ok = check_elem_line(ctx, m[1], m[2], line, m[3], m[4], m[5])
            ctx.count('elem_replayed')
            if ok is False:
                ctx.count('elem_side_condition_false')
        else:
            check_trx_line(ctx, m[1], line, *m[2:])
            ctx.count('trx_channels_replayed')
    ctx.count('hist_channel_states_compared', nstates)
    ctx.assumptions += [
        'dB arguments (apply_attenuation_db / apply_gain_db, reported dB figures) are converted to linear by the harness '
        'with math.pow, independently of gnpy.core.utils; values of NLI / ASE computed by the solvers and amplifier '
        'models enter the model as logged (their correctness is C03 / C04)',
        'bulk histories are replayed step by step from the state gnpy was in before each operation (small ones also as '
        'one chained run); element replays use a sample of the channels of each snapshot (updates are per channel); '
        'the oracle looks at every channel; the 1e-9 comparison of the bulk runs is done by Run/C01.v (qclose)',
        'numpy broadcasting of scalar arguments is expanded by the harness',
    ]


def run(ctx):
    # second tie: re-translate the share / power updates, the derived figures and the selection tests of
    # gnpy/core/info.py from /repo's source and re-match the rest against templates; the equivalence lemmas of
    # Proofs/SIGen.v are then re-checked by check_props against what the code says now
    from . import pygen_c01
    gen_ok, gen_msg = pygen_c01.regenerate()
    ctx.proof = common.check_props(PROP)
    if not gen_ok:
        ctx.proof['ok'] = False
        ctx.proof['log'] = 'harness/pygen_c01.py: ' + gen_msg + '\n' + ctx.proof.get('log', '')
        ctx.proof['failed_file'] = 'theories/Gen/SIGen.v (translation of /repo source failed)'
    ctx.assumptions.append(
        'translator tie: harness/pygen_c01.py (fail-closed Python-ast -> Gallina: add_nli, add_ase, apply_attenuation_lin/db, '
        'apply_gain_lin/db, signal/ase/nli/snr_lin/snr_nli/gsnr, is_in_band and the two validity tests of the constructor are '
        'translated into per-channel functions over Q, numpy element-wise arithmetic read as the arithmetic of one channel, '
        'db2lin abstract; the constructor (argsort + indexing of every array), pch getter/setter, select_channels, __add__, '
        'demuxed/muxed_spectral_information, the dB views, Transceiver._calc_snr/update_snr and utils.snr_sum are matched '
        'statement by statement against templates; Multiband_amplifier.__call__ / Edfa.__call__ (templates of pygen_c07), '
        'Roadm / Edfa (+ noise_profile) / Fiber / RamanFiber .propagate (whole-body templates of pygen_c06 / c04 / c03), '
        'Fused.propagate, Transceiver.__call__ and the __call__ wrappers are template-matched and the primitives each body '
        'applies are extracted into g_program_<kind>) is trusted')
    ctx.rule = ('(a) random histories (1-20 operations: attenuation/gain in linear and dB form, scalar and per-channel, '
                'add_ase, add_nli incl. NLI = channel power, demux, split+merge, sum with a second spectrum; 1-30 channels of '
                'mixed slot width / baud rate / power, -30..+10 dBm) on a real SpectralInformation vs the model after every '
                'operation, plus a malformed stream (shape mismatch, overlapping spectra, empty mux, NLI above channel power); '
                '(b) random designed networks (meshes, ROADM-less lines, multiband, Raman; every amplifier model of the '
                'shipped library; mixed-rate launched spectra) traced element by element; a history is non-trivial with >= 3 '
                'operation kinds, a path with >= 4 elements incl. fibre and amplifier; distinct by content hash')
    run_all(ctx, PROP, hist_oracle, path_oracle_c01, 6, ctx.scale(200, 3000), ctx.scale(40, 300), ctx.scale(20, 200))
    return common.finish(ctx, {})
