"""C08 — auto-design turns any well-formed topology into a complete line system.

Tie: random ROADM meshes (degree 1-4, span lengths 1 m - 2000 km, fused junctions, user amplifiers with
full / partial / no settings, Raman spans, random Span configurations) are loaded and designed by the real
`network_from_json` + `designed_network`.  Every line (ROADM/transceiver to ROADM/transceiver) is extracted as
a chain from the DiGraph before and after design; failing extraction (branching inside a line, dangling
element, duplicate uid) is itself the "stays a set of one-in/one-out chains" check.
  * correspondence: the Gallina model `Verif.Model.Chain.design_line` is run on the chain observed before design
    and compared with the chain observed after design (kinds, names, lengths, loss coefficients, connector /
    padding values, or the exception type);
  * oracle: the proved validator `Chain.line_ok` (Props/C08.v: reflection theorems) is evaluated inside Coq on the
    chain the implementation produced, plus Python-side checks that need the whole graph (reachability, global
    uid uniqueness, split totals).
The for-all part is Props/C08.v.
"""
import copy
import glob
import json
import logging
import os
from fractions import Fraction

from . import common
from .common import zlit, listlit, qlit, strlit

PROP = 'C08'
QPRE = 'From Coq Require Import QArith.\nOpen Scope Z_scope.'
AMP_VARIETIES = ['std_low_gain', 'std_medium_gain', 'std_high_gain', 'high_power', 'std_fixed_gain']
_EQ_CACHE = {}


# ------------------------------------------------------------------ equipment
def example_dir():
    import gnpy
    return os.path.join(os.path.dirname(gnpy.__file__), 'example-data')


def build_equipment(span, si=None, roadm=None, multiband=False):
    """example equipment library (eqpt_config.json, or eqpt_config_multiband.json which also has Multiband_amplifier
    models) with the Span (and optionally SI / default Roadm) entries overridden"""
    from gnpy.tools.json_io import load_json, _equipment_from_json
    from gnpy.tools.default_edfa_config import DEFAULT_EXTRA_CONFIG
    from pathlib import Path
    key = json.dumps([span, si, roadm, multiband], sort_keys=True)
    if key not in _EQ_CACHE:
        bkey = 'base_mb' if multiband else 'base'
        if bkey not in _EQ_CACHE:
            # the multiband library of gnpy's own tests (tests/data): it has Multiband_amplifier models allowed for design
            _EQ_CACHE[bkey] = load_json(Path(example_dir()).parent.parent / 'tests' / 'data' / 'eqpt_config_multiband.json'
                                        if multiband else Path(example_dir()) / 'eqpt_config.json')
        ej = copy.deepcopy(_EQ_CACHE[bkey])
        ej['Span'][0].update(span)
        if si:
            ej['SI'][0].update(si)
        if roadm:
            ej['Roadm'][0].update(roadm)
        if len(_EQ_CACHE) > 400:
            keep = {k: v for k, v in _EQ_CACHE.items() if k in ('base', 'base_mb')}
            _EQ_CACHE.clear()
            _EQ_CACHE.update(keep)
        extra = DEFAULT_EXTRA_CONFIG
        if multiband:
            name = 'std_medium_gain_advanced_config.json'
            extra = dict(DEFAULT_EXTRA_CONFIG, **{name: load_json(Path(example_dir()).parent.parent / 'tests' / 'data' / name)})
        _EQ_CACHE[key] = _equipment_from_json(ej, extra)
    return _EQ_CACHE[key]


# ------------------------------------------------------------------ generators
def gen_span(rng, risky=False):
    """Span configuration; `risky` also draws the configurations known to break calculate_new_length"""
    span = {}
    span['max_length'] = rng.choice([150, 150, 150, 120, 100, 90, 80, 60, 200, 135.5])
    span['padding'] = rng.choice([10, 10, 10, 8, 11, 0, 12.5, 5, 16])
    span['EOL'] = rng.choice([0, 0, 0, 0.5, 1.5])
    span['con_in'] = rng.choice([0, 0, 0.25, 0.5])
    span['con_out'] = rng.choice([0, 0, 0.25, 0.5])
    span['power_mode'] = rng.random() < 0.75
    span['delta_power_range_db'] = rng.choice([[-2, 3, 0.5], [-2, 3, 0.5], [0, 0, 0.5], [-1, 1, 0.1], [-6, 0, 1]])
    # valid stream: min_length = max(padding / 0.2 km, 50 km) must not exceed max_length (finding F16 otherwise)
    while int(span['padding'] / 0.2 * 1e3) > max_metres(span):
        span['padding'] = rng.choice([10, 8, 11, 0, 5])
    if risky:
        if rng.random() < 0.5:
            span['max_length'] = rng.choice([40, 45, 30])
        else:
            span['padding'] = rng.choice([40, 35, 31])
            span['max_length'] = rng.choice([150, 120, 100])
    return span


def max_km(span):
    """Span.max_length in km, whatever unit the configuration uses"""
    return span['max_length'] / 1000.0 if span.get('length_units', 'km') == 'm' else span['max_length']


def max_metres(span):
    """int(convert_length(max_length, length_units)) recomputed here: the configured unit decides"""
    return int(float(span['max_length'])) if span.get('length_units', 'km') == 'm' else int(span['max_length'] * 1000.0)


def gen_length(rng, max_km):
    r = rng.random()
    if r < 0.45:
        v = rng.uniform(20, 120)
    elif r < 0.60:
        v = rng.uniform(max_km, 3 * max_km)
    elif r < 0.70:
        v = rng.uniform(400, 2000)
    elif r < 0.80:
        v = rng.choice([0.001, 0.002, 0.05, 0.5, 1, 2.5, 5, rng.uniform(0.001, 10)])
    elif r < 0.90:
        k = rng.choice([1, 1, 2, 3])
        v = k * max_km + rng.choice([0, 0, 0.001, -0.001, 1, -1, 0.5])
    else:
        v = rng.choice([50, 90, 180, 45, 100, 135, 270, 89.999, 90.001, 179.999])
    return round(max(v, 0.001), 3)


def gen_fiber(rng, uid, max_km, raman=False, allow_lumped=True):
    f = {'k': 'R' if raman else 'F', 'uid': uid, 'len': gen_length(rng, max_km),
         'lc': rng.choice([0.2, 0.2, 0.2, 0.22, 0.19, 0.25, 0.3, 0.185]),
         'variety': 'SSMF' if raman else rng.choice(['SSMF', 'SSMF', 'NZDF', 'LOF'])}
    f['con_in'] = rng.choice([None, None, 0.5, 0.25, 1.0, 0])
    f['con_out'] = rng.choice([None, None, 0.5, 0.25, 1.0, 0])
    if rng.random() < 0.15:
        f['att_in'] = rng.choice([0, 1, 2.5, 0.5])
    if rng.random() < 0.12:
        # a parameter the export only carries when it is user-defined (library value 1.265e-15)
        f['pmd_coef'] = rng.choice([3.0e-15, 0.8e-15, 2.0e-15])
    if raman:
        f['len'] = round(rng.uniform(40, min(110, max_km - 1)), 3)
        if f['con_out'] is None:
            f['con_out'] = 0.5        # RamanFiber cannot be built without con_out
        if f['con_in'] is None and rng.random() < 0.5:
            f['con_in'] = 0.5
    elif allow_lumped and (f['len'] < max_km or allow_lumped == 'split') and rng.random() < (0.05 if allow_lumped is True else 0.6):
        n = rng.randint(1, 2)
        f['lumped'] = [{'position': round(rng.uniform(0.05, 0.95) * f['len'], 3), 'loss': rng.choice([0.5, 1.5, 1])}
                       for _ in range(n)]
        f['lumped'] = [x for x in f['lumped'] if 0 < x['position'] < f['len']]
        if not f['lumped']:
            del f['lumped']
    return f


def gen_amp(rng, uid, power_mode, before_raman=False):
    a = {'k': 'A', 'uid': uid}
    r = rng.random()
    if r < 0.35:
        a['variety'] = rng.choice(AMP_VARIETIES)
    elif r < 0.5:
        a['variety'] = ''
    op = {}
    r = rng.random()
    if r < 0.3:                       # full settings
        op = {'gain_target': rng.choice([15, 18.5, 20, 22, 12.25, 25, 0]), 'delta_p': rng.choice([0, 1, -1, 2.5, None]),
              'tilt_target': rng.choice([0, 0, -0.5, 1.123456]), 'out_voa': rng.choice([0, 1, 2.5, None])}
    elif r < 0.65:                    # partial
        for k, vals in (('gain_target', [16, 19.75, 21, None, 0]), ('delta_p', [0, 1.5, -2, None]),
                        ('tilt_target', [0, -1]), ('out_voa', [0, 0.5, 3, None])):
            if rng.random() < 0.45:
                op[k] = rng.choice(vals)
    if rng.random() < 0.12:
        op['in_voa'] = rng.choice([0, 0.5, 1, 2])      # input VOA, with or without the other settings
    if before_raman:
        op['delta_p'] = rng.choice([0, 1, -1])
    if op or rng.random() < 0.2:
        a['op'] = op
    return a


def gen_line(rng, tag, span, feat):
    """one direction of a link: a chain of fibres / fused / user amplifiers"""
    max_km = span['max_length']          # still in km here: the unit is chosen at the end of gen_case
    els, k = [], [0]
    lum = feat.get('lumped', True)

    def uid(kind):
        k[0] += 1
        return f'{kind} {tag}_{k[0]}'
    nspan = rng.choice([1, 1, 1, 2, 2, 3, 4])
    if rng.random() < feat['user_amp']:
        els.append(gen_amp(rng, uid('amp'), span['power_mode']))        # user booster
    for s in range(nspan):
        shape = rng.random()
        raman = rng.random() < feat['raman']
        if raman:
            # a Raman span behind whatever comes before: ROADM (inserted booster), fibre (inserted inline amplifier),
            # fused, or a user amplifier with or without operator delta_p
            if rng.random() < 0.4:
                els.append(gen_amp(rng, uid('amp'), span['power_mode'], before_raman=rng.random() < 0.5))
            els.append(gen_fiber(rng, uid('raman'), max_km, raman=True))
        elif shape < 0.07:
            # a short span of several fibres spliced by Fused nodes (below the padding), user att_in on any of them
            nf = rng.choice([2, 2, 3])
            for q in range(nf):
                f = gen_fiber(rng, uid('fiber'), max_km, allow_lumped=False)
                f['len'] = round(rng.choice([0.5, 2, 5, 8, 12, rng.uniform(0.1, 15)]), 3)
                if rng.random() < (0.6 if q == 0 else 0.3):
                    f['att_in'] = rng.choice([1, 2.5, 0.5, 3])
                else:
                    f.pop('att_in', None)
                els.append(f)
                if q < nf - 1:
                    els.append({'k': 'U', 'uid': uid('fused'), 'loss': rng.choice([1, 0.5, 0])})
        elif shape < 0.70 - feat['fused']:
            els.append(gen_fiber(rng, uid('fiber'), max_km, allow_lumped=lum))
        elif shape < 0.80:
            els.append(gen_fiber(rng, uid('fiber'), max_km, allow_lumped=lum))
            els.append({'k': 'U', 'uid': uid('fused'), 'loss': rng.choice([1, 0.5, 0, 2])})
            els.append(gen_fiber(rng, uid('fiber'), max_km, allow_lumped=lum))
        elif shape < 0.87:
            els.append({'k': 'U', 'uid': uid('fused'), 'loss': rng.choice([1, 0.5, 0])})
            els.append(gen_fiber(rng, uid('fiber'), max_km, allow_lumped=lum))
        elif shape < 0.94:
            els.append(gen_fiber(rng, uid('fiber'), max_km, allow_lumped=lum))
            els.append({'k': 'U', 'uid': uid('fused'), 'loss': rng.choice([1, 0.5, 0])})
        else:
            els.append(gen_fiber(rng, uid('fiber'), max_km, allow_lumped=lum))
            els.append({'k': 'U', 'uid': uid('fused'), 'loss': 1})
            els.append({'k': 'U', 'uid': uid('fused'), 'loss': 0.5})
            els.append(gen_fiber(rng, uid('fiber'), max_km, allow_lumped=lum))
        last = s == nspan - 1
        if rng.random() < feat['user_amp'] * (0.7 if last else 1):
            els.append(gen_amp(rng, uid('amp'), span['power_mode']))
    return els


def gen_case(rng, kind='valid'):
    """kind: valid | raman_auto (Raman span behind an automatic amplifier / inside a fused run: regression stream for
    the repaired finding F15) | risky_span (min_length
    above max_length) | lumped_split (lumped losses on fibres that get split)"""
    span = gen_span(rng, risky=(kind == 'risky_span'))
    feat = {'user_amp': rng.choice([0, 0.15, 0.3, 0.6]), 'raman': rng.choice([0, 0, 0, 0.08]),
            'fused': rng.choice([0, 0, 0.1]), 'lumped': 'split' if kind == 'lumped_split' else True}
    n = rng.choice([2, 2, 3, 3, 4, 5])
    names = [chr(65 + i) for i in range(n)]
    deg = {x: 0 for x in names}
    edges = []
    order = names[:]
    rng.shuffle(order)
    for i in range(1, n):
        cands = [b for b in order[:i] if deg[b] < 4]
        b = rng.choice(cands)
        edges.append((order[i], b))
        deg[order[i]] += 1
        deg[b] += 1
    for _ in range(rng.choice([0, 0, 1, 2, 3])):
        a, b = rng.sample(names, 2)
        if deg[a] < 4 and deg[b] < 4 and (a, b) not in edges and (b, a) not in edges:
            edges.append((a, b))
            deg[a] += 1
            deg[b] += 1
    lines = []
    for (a, b) in edges:
        for (s, t) in ((a, b), (b, a)):
            lines.append({'src': f'roadm {s}', 'dst': f'roadm {t}', 'els': gen_line(rng, f'{s}{t}', span, feat)})
    roadms = {}
    for x in names:
        r = {}
        if rng.random() < 0.25:
            r['variety'] = 'roadm_type_1'
        if rng.random() < 0.2:
            r['target_pch_out_db'] = rng.choice([-20, -18, -21.5, -17])
        roadms[f'roadm {x}'] = r
    case = {'kind': kind, 'span': span, 'roadms': roadms, 'lines': lines, 'shuffle': rng.choice([None, None, rng.randint(1, 10 ** 6)])}
    # SI band: inside the amplifier band, or with an edge exactly on the amplifiers' f_min / f_max
    case['si'] = {'f_min': rng.choice([191.3e12, 191.3e12, 191.3e12, 191.275e12, 191.35e12]),
                  'f_max': rng.choice([195.1e12, 195.1e12, 195.1e12, 196.125e12, 196.1e12])}
    # ROADM equalisation: node level power / PSD / power per slot width, and per-degree overrides of any type
    # (the degree is named after the first element of the line, a user amplifier)
    for r in sorted(roadms):
        if rng.random() < 0.3:
            spec = roadms[r]
            spec.pop('target_pch_out_db', None)
            prm = spec.setdefault('params', {})
            t = rng.choice(['pch', 'psd', 'psw'])
            if t == 'pch':
                prm['target_pch_out_db'] = rng.choice([-20, -18.5, -21])
            elif t == 'psd':
                prm['target_psd_out_mWperGHz'] = rng.choice([3.125e-4, 2.5e-4, 4e-4])
            else:
                prm['target_out_mWperSlotWidth'] = rng.choice([2.0e-4, 1.6e-4, 2.5e-4])
            for ln in [l for l in lines if l['src'] == r]:
                if rng.random() < 0.6:
                    if not ln['els'] or ln['els'][0]['k'] != 'A':
                        ln['els'].insert(0, {'k': 'A', 'uid': f'amp deg {r[-1]}{ln["dst"][-1]}'})
                    deg = ln['els'][0]['uid']
                    t2 = rng.choice(['pch', 'psd', 'psw'])
                    if t2 == 'pch':
                        prm.setdefault('per_degree_pch_out_db', {})[deg] = rng.choice([-19, -21.5, -17])
                    elif t2 == 'psd':
                        prm.setdefault('per_degree_psd_out_mWperGHz', {})[deg] = rng.choice([3.9e-4, 2.0e-4])
                    else:
                        prm.setdefault('per_degree_psd_out_mWperSlotWidth', {})[deg] = rng.choice([2.4e-4, 1.2e-4])
    if kind == 'raman_auto':
        # put a Raman span behind an automatically designed amplifier on one line
        ln = rng.choice(lines)
        f = gen_fiber(rng, 'raman x', span['max_length'], raman=True)
        if rng.random() < 0.5:
            ln['els'] = [f] + [e for e in ln['els'] if e['k'] != 'R'][:rng.randint(0, 2)]
        else:
            ln['els'] = [gen_amp(rng, 'amp x', span['power_mode'], before_raman=True), f,
                         {'k': 'U', 'uid': 'fused x', 'loss': 1}, gen_fiber(rng, 'fiber x', span['max_length'], allow_lumped=False)]
    if kind == 'raman_long':
        ln = rng.choice(lines)
        f = gen_fiber(rng, 'raman x', span['max_length'], raman=True)
        f['len'] = round(span['max_length'] * rng.choice([1, 1.3, 2.2]), 3)
        ln['els'] = [gen_amp(rng, 'amp x', span['power_mode'], before_raman=True), f]
    if kind == 'roadm_zero_target':
        rz = roadms[rng.choice(sorted(roadms))]
        rz.pop('params', None)
        rz['target_pch_out_db'] = 0
    if rng.random() < 0.2:
        # external transponders on a line end: a transceiver reached through fibre without a ROADM of its own,
        # bidirectional, source only (no incoming link) or sink only (no outgoing link)
        case['extra_trx'] = []
        for tname, mode in zip(('trx Z', 'trx Y'), rng.sample(['both', 'source', 'sink', 'both'], 2)[:rng.choice([1, 1, 2])]):
            x = rng.choice(names)
            tag = tname[-1]

            def ext_line(label):
                els = [gen_fiber(rng, f'fiber {label}{tag}1', span['max_length'], allow_lumped=False)]
                r = rng.random()
                if r < 0.3:
                    els.append(gen_fiber(rng, f'fiber {label}{tag}2', span['max_length'], allow_lumped=False))
                elif r < 0.45:
                    els += [{'k': 'U', 'uid': f'fused {label}{tag}', 'loss': 0.5},
                            gen_fiber(rng, f'fiber {label}{tag}2', span['max_length'], allow_lumped=False)]
                return els
            if mode in ('both', 'sink'):
                lines.append({'src': f'roadm {x}', 'dst': tname, 'els': ext_line('to')})
            if mode in ('both', 'source'):
                lines.append({'src': tname, 'dst': f'roadm {x}', 'els': ext_line('from')})
            case['extra_trx'].append(tname)
    # units: Span.max_length in metres for a quarter of the configurations, fibres' own length in metres now and then
    if rng.random() < 0.25:
        span['max_length'] = span['max_length'] * 1000
        span['length_units'] = 'm'
    for ln in lines:
        for e in ln['els']:
            if e['k'] in 'FR' and rng.random() < 0.15:
                e['units'] = 'm'
    return case


def place_user_amps(rng, case, keep):
    """operator amplifiers wherever auto-design would insert one (ROADM -> fibre, fibre -> fibre, fibre -> ROADM), each
    placed with probability `keep` (1: a fully amplified topology)"""
    pm = case['span']['power_mode']
    for ln in case['lines']:
        els, out = ln['els'], []
        tag = ln['src'][-1] + ln['dst'][-1]
        k = 0
        for i, e in enumerate(els):
            prev = els[i - 1] if i else None
            need = e['k'] in 'FR' and ((prev is None and ln['src'].startswith('roadm')) or (prev is not None and prev['k'] in 'FR'))
            if need and rng.random() < keep:
                k += 1
                out.append(gen_amp(rng, f'uamp {tag}{k}', pm))
            out.append(e)
        if els and els[-1]['k'] in 'FR' and ln['dst'].startswith('roadm') and rng.random() < keep:
            out.append(gen_amp(rng, f'uamp {tag}p', pm))
        ln['els'] = out


def gen_entry_case(rng):
    """the entry point worker_utils.designed_network with its option no_insert_edfas on and off, on fully operator-amplified
    topologies and on partial ones, fibres with and without their own connector losses, short spans that need padding"""
    case = gen_case(rng, 'valid')
    case['kind'] = 'entry_point'
    sp = case['span']
    for ln in case['lines']:
        for e in ln['els']:
            if e['k'] in 'FR' and rng.random() < 0.35:
                # a short span: below the padding with the usual connectors
                e['len'] = rng.choice([5, 12.5, 20, 30, 35])
                e.pop('units', None)
                e.pop('lumped', None)
            if e['k'] in 'FR' and rng.random() < 0.3:
                e['con_in'], e['con_out'] = rng.choice([(0.5, 0.5), (0, 0), (0.25, 1), (None, 0.5)])
    place_user_amps(rng, case, rng.choice([1, 1, 0.8, 0.5]))
    case['options'] = {'no_insert_edfas': rng.random() < 0.7}
    return case


CBAND = {'f_min': 191.3e12, 'f_max': 195.1e12, 'spacing': 50e9}
LBAND = {'f_min': 186.3e12, 'f_max': 190.1e12, 'spacing': 50e9}


def gen_multiband_case(rng):
    """C+L line systems on the multiband library whose bands are only implicit: operator-placed Multiband_amplifier
    elements (with a type_variety) at some in-line sites of every line, ROADMs without multi-band design_bands (none, or
    the C band only), operator booster / preamp now and then; the bands of a degree are then derived from the amplifiers
    of its OMS and the inserted boosters / preamps / in-line amplifiers have to be Multiband_amplifiers too"""
    span = {'max_length': rng.choice([150, 120]), 'padding': rng.choice([10, 10, 8]), 'EOL': 0, 'con_in': rng.choice([0, 0.5]),
            'con_out': rng.choice([0, 0.5]), 'power_mode': True, 'delta_power_range_db': [-2, 3, 0.5]}
    n = rng.choice([2, 2, 3])
    names = [chr(65 + i) for i in range(n)]
    roadms, lines = {}, []
    for x in names:
        r = {}
        if rng.random() < 0.3:
            r['params'] = {'design_bands': [copy.deepcopy(CBAND)]}
        roadms[f'roadm {x}'] = r
    for a, b in zip(names, names[1:]):
        for s, t in ((a, b), (b, a)):
            tag = s + t
            nf = rng.choice([2, 2, 3])
            sites = list(range(nf - 1))
            user = set(rng.sample(sites, rng.randint(1, len(sites))))      # at least one Multiband_amplifier per line

            def amp(uid):
                return {'k': 'A', 'uid': uid, 'multi': True, 'variety': 'std_medium_gain_multiband'}
            els = [amp(f'booster {tag}')] if rng.random() < 0.2 else []
            for k in range(nf):
                els.append({'k': 'F', 'uid': f'fiber {tag}{k}', 'len': round(rng.choice([rng.uniform(50, 90), 60, 80]), 3),
                            'lc': 0.2, 'variety': 'SSMF', 'con_in': None, 'con_out': None, 'att_in': 0})
                if k in user:
                    els.append(amp(f'ila {tag}{k}'))
            if rng.random() < 0.2:
                els.append(amp(f'preamp {tag}'))
            lines.append({'src': f'roadm {s}', 'dst': f'roadm {t}', 'els': els})
    return {'kind': 'multiband', 'equipment': 'multiband', 'span': span, 'roadms': roadms, 'lines': lines, 'shuffle': None,
            'si': None}


def el_json(e):
    if e['k'] in 'FR':
        if e.get('units') == 'm':
            p = {'length': round(e['len'] * 1000.0, 6), 'length_units': 'm'}
        else:
            p = {'length': e['len'], 'length_units': 'km'}
        p.update({'loss_coef': e['lc'], 'con_in': e['con_in'], 'con_out': e['con_out']})
        if 'att_in' in e:
            p['att_in'] = e['att_in']
        if 'pmd_coef' in e:
            p['pmd_coef'] = e['pmd_coef']
        if 'lumped' in e:
            p['lumped_losses'] = e['lumped']
        j = {'uid': e['uid'], 'type': 'RamanFiber' if e['k'] == 'R' else 'Fiber', 'type_variety': e['variety'], 'params': p}
        if e['k'] == 'R':
            j['operational'] = {'temperature': 283, 'raman_pumps': [
                {'power': 0.2, 'frequency': 205e12, 'propagation_direction': 'counterprop'},
                {'power': 0.2, 'frequency': 201e12, 'propagation_direction': 'counterprop'}]}
        return j
    if e['k'] == 'U':
        return {'uid': e['uid'], 'type': 'Fused', 'params': {'loss': e['loss']}}
    j = {'uid': e['uid'], 'type': 'Multiband_amplifier' if e.get('multi') else 'Edfa'}
    if 'variety' in e:
        j['type_variety'] = e['variety']
    if e.get('multi'):
        if 'amplifiers' in e:
            j['amplifiers'] = copy.deepcopy(e['amplifiers'])
        return j
    if 'op' in e:
        j['operational'] = dict(e['op'])
    return j


def topology_json(case):
    import random
    els, cx = [], []
    roadms = list(case['roadms'])
    for r in roadms:
        t = 'trx ' + r.split(' ', 1)[1]
        els.append({'uid': t, 'type': 'Transceiver'})
        rj = {'uid': r, 'type': 'Roadm'}
        spec = case['roadms'][r]
        if 'variety' in spec:
            rj['type_variety'] = spec['variety']
        if 'target_pch_out_db' in spec:
            rj['params'] = {'target_pch_out_db': spec['target_pch_out_db']}
        if 'params' in spec:
            rj.setdefault('params', {}).update(spec['params'])
        els.append(rj)
        cx += [(t, r), (r, t)]
    for t in case.get('extra_trx', []):
        els.append({'uid': t, 'type': 'Transceiver'})
    for ln in case['lines']:
        prev = ln['src']
        for e in ln['els']:
            els.append(el_json(e))
            cx.append((prev, e['uid']))
            prev = e['uid']
        cx.append((prev, ln['dst']))
    if case.get('shuffle'):
        random.Random(case['shuffle']).shuffle(els)
    for e in els:
        e.setdefault('metadata', {'location': {'latitude': 0, 'longitude': 0, 'city': None, 'region': ''}})
    return {'elements': els, 'connections': [{'from_node': a, 'to_node': b} for a, b in cx]}


# ------------------------------------------------------------------ observation of the implementation
def fnum(x):
    """plain python number (or None) out of a numpy scalar / 0-d array"""
    if x is None:
        return None
    try:
        return float(x)
    except TypeError:
        return None


def obs_el(n):
    from gnpy.core import elements as E
    if isinstance(n, E.Fiber):
        lc = n.params.loss_coef
        lcv = float(lc) if getattr(lc, 'size', 1) == 1 else None
        return {'k': 'R' if isinstance(n, E.RamanFiber) else 'F', 'uid': n.uid, 'len': float(n.params.length), 'lc': lcv,
                'con_in': fnum(n.params.con_in), 'con_out': fnum(n.params.con_out), 'att_in': fnum(n.params.att_in),
                'lumped': [[float(x['position']), float(x['loss'])] for x in n.params.lumped_losses],
                'loss': None if n.params.con_in is None or n.params.con_out is None else float(n.loss),
                'variety': getattr(n, 'type_variety', None),
                'rgain': fnum(getattr(n, 'estimated_gain', None))}
    if isinstance(n, E.Fused):
        return {'k': 'U', 'uid': n.uid, 'loss': float(n.loss)}
    if isinstance(n, E.Edfa):
        return {'k': 'A', 'uid': n.uid, 'multi': False, 'variety': n.params.type_variety, 'gain': fnum(n.effective_gain),
                'dp': fnum(n.delta_p), 'voa': fnum(n.out_voa), 'in_voa': fnum(n.in_voa), 'tilt': fnum(n.tilt_target),
                'op_dp': fnum(n.operational.delta_p), 'op_gain': fnum(n.operational.gain_target),
                'op_voa': fnum(n.operational.out_voa), 'op_tilt': fnum(n.operational.tilt_target)}
    if isinstance(n, E.Multiband_amplifier):
        return {'k': 'A', 'uid': n.uid, 'multi': True, 'variety': n.params.type_variety,
                'amps': [{'variety': a.params.type_variety, 'gain': fnum(a.effective_gain), 'dp': fnum(a.delta_p),
                          'voa': fnum(a.out_voa)} for a in n.amplifiers.values()]}
    return {'k': '?', 'uid': n.uid, 'type': type(n).__name__}


def extract_lines(net):
    """Decompose the DiGraph into lines between ROADMs / transceivers.  Returns (lines, problems): every
    non-endpoint node must lie on exactly one line, with exactly one predecessor and one successor."""
    from gnpy.core import elements as E
    ends = (E.Roadm, E.Transceiver)
    problems, lines, seen = [], [], set()
    uids = [n.uid for n in net.nodes()]
    if len(set(uids)) != len(uids):
        dup = sorted({u for u in uids if uids.count(u) > 1})
        problems.append(f'duplicate uid {dup}')
    for s in net.nodes():
        if not isinstance(s, ends):
            continue
        for first in net.successors(s):
            cur, els, ok = first, [], True
            while not isinstance(cur, ends):
                if id(cur) in seen:
                    problems.append(f'{cur.uid} lies on two lines or on a loop')
                    ok = False
                    break
                seen.add(id(cur))
                els.append(cur)
                succ = list(net.successors(cur))
                pred = list(net.predecessors(cur))
                if len(succ) != 1 or len(pred) != 1:
                    problems.append(f'{cur.uid} has {len(pred)} predecessors and {len(succ)} successors')
                    ok = False
                    break
                cur = succ[0]
            if ok:
                lines.append({'src': s.uid, 'src_kind': 'R' if isinstance(s, E.Roadm) else 'T',
                              'dst': cur.uid, 'dst_kind': 'R' if isinstance(cur, E.Roadm) else 'T',
                              'src_bands': len(getattr(s, 'design_bands', []) or []),
                              'els': [obs_el(n) for n in els], 'first': first.uid})
    for n in net.nodes():
        if not isinstance(n, ends) and id(n) not in seen:
            problems.append(f'{n.uid} is not on any line')
    return lines, problems


def reach(net):
    """reachability between ROADM/transceiver uids"""
    import networkx as nx
    from gnpy.core import elements as E
    ends = [n for n in net.nodes() if isinstance(n, (E.Roadm, E.Transceiver))]
    out = set()
    for s in ends:
        desc = nx.descendants(net, s)
        for t in ends:
            if t in desc:
                out.add((s.uid, t.uid))
    return out


def drive(case):
    """load + design with the real code; returns dict(before, after, exc, ...)"""
    from gnpy.tools.json_io import network_from_json
    from gnpy.tools.worker_utils import designed_network
    from gnpy.core import elements as E
    eq = build_equipment(case['span'], case.get('si'), multiband=case.get('equipment') == 'multiband')
    rec = {}
    tj = topology_json(case)
    try:
        net = network_from_json(copy.deepcopy(tj), eq)
    except Exception as e:
        rec['load_exc'] = f'{type(e).__name__}: {e}'
        return rec
    rec['before'], rec['before_problems'] = extract_lines(net)
    rec['reach_before'] = reach(net)
    node_order = [n.uid for n in net.nodes()]
    rec['roadm_order'] = [n.uid for n in net.nodes() if isinstance(n, E.Roadm)]
    try:
        with RefEstimates() as ref:
            # the entry point of the tools (gnpy-transmission-example, gnpy-path-request) with its options
            designed_network(eq, net, **case.get('options', {}))
        rec['ref_gain'] = ref.seen
    except Exception as e:
        rec['exc'] = f'{type(e).__name__}: {e}'
        rec['exc_type'] = type(e).__name__
        return rec
    rec['after'], rec['after_problems'] = extract_lines(net)
    rec['reach_after'] = reach(net)
    rec['power_mode'] = eq['Span']['default'].power_mode
    rec['library'] = sorted(eq['Edfa'].keys())
    return rec


# ------------------------------------------------------------------ model side
def cfg_of(span):
    """inputs of the model that the harness computes on its own (so a changed constant in gnpy is a diff)"""
    max_m = max_metres(span)
    pad_len = int(span['padding'] / 0.2 * 1e3)
    return {'max': max_m, 'padlen': pad_len, 'pad': span['padding'], 'con_in': span['con_in'],
            'con_out': span['con_out'], 'eol': span['EOL']}


def oq(x):
    return 'None' if x is None else f'(Some {qlit(x)})'


def el_term(e):
    if e['k'] in 'FR':
        lum = listlit([f'({qlit(p)}, {qlit(l)})' for p, l in e['lumped']])
        return (f'fb {strlit(e["uid"])} {"true" if e["k"] == "R" else "false"} {qlit(e["len"])} {qlit(e["lc"])} '
                f'{oq(e["con_in"])} {oq(e["con_out"])} {qlit(e["att_in"])} {lum}')
    if e['k'] == 'U':
        return f'fu {strlit(e["uid"])} {qlit(e["loss"])}'
    if e['k'] == 'A':
        if e.get('multi'):
            return f'am {strlit(e["uid"])} true {strlit(e["variety"] or "")} None None None'
        return (f'am {strlit(e["uid"])} false {strlit(e["variety"] or "")} {oq(e["gain"])} {oq(e["dp"])} {oq(e["voa"])}')
    raise ValueError(e)


def line_term(ln, dst_first):
    return (f'ln {"Roadm" if ln["src_kind"] == "R" else "Trx"} {strlit(ln["src"])} {zlit(ln["src_bands"])} '
            f'{"Roadm" if ln["dst_kind"] == "R" else "Trx"} {strlit(ln["dst"])} {"true" if dst_first else "false"} '
            f'{listlit([el_term(e) for e in ln["els"]])}')


def cfg_term(c, rg=()):
    """rg: (RamanFiber uid, gain returned by the first estimate_raman_gain call = round(estimated_gain, 2)): an input"""
    rgl = listlit([f'({strlit(u)}%string, {qlit(g)})' for u, g in rg])
    return (f'cf {zlit(c["max"])} {zlit(c["padlen"])} {qlit(c["pad"])} {qlit(c["con_in"])} {qlit(c["con_out"])} '
            f'{qlit(c["eol"])} {rgl}')


class RefEstimates:
    """records, per RamanFiber uid, what estimate_raman_gain returned when it was asked without a span input power
    (nothing cached): `pad` = the estimates made inside add_fiber_padding (the model's input c_rg), `walk` = those made
    later by target_power during the amplifier walk (the fibre then carries its padded att_in, which the estimate sees:
    the model's input rgn).  `seen` = pad, kept for the callers that only need c_rg."""

    def __enter__(self):
        import gnpy.core.network as N
        from gnpy.core import elements as E
        self.N, self.orig, self.orig_pad = N, N.estimate_raman_gain, N.add_fiber_padding
        self.pad, self.walk, self.stage = {}, {}, 'walk'
        self.seen = self.pad

        def estimate_raman_gain(node, equipment, power_dbm):
            fresh = isinstance(node, E.RamanFiber) and power_dbm is None and not hasattr(node, 'estimated_gain')
            g = self.orig(node, equipment, power_dbm)
            if fresh:
                (self.pad if self.stage == 'pad' else self.walk)[node.uid] = float(g)
            return g

        def add_fiber_padding(*a, **k):
            self.stage = 'pad'
            try:
                return self.orig_pad(*a, **k)
            finally:
                self.stage = 'walk'
        N.estimate_raman_gain = estimate_raman_gain
        N.add_fiber_padding = add_fiber_padding
        return self

    def __exit__(self, *a):
        self.N.estimate_raman_gain = self.orig
        self.N.add_fiber_padding = self.orig_pad
        return False


def parse_q(s):
    if s == 'N':
        return None
    a, b = s.split('/')
    return Fraction(int(a), int(b))


def parse_model_line(s):
    """model rendering of one designed line -> ('E', type) | list of element tuples"""
    if s.startswith('E:'):
        return ('E', s[2:].split(':')[0])
    out = []
    if s == '':
        return out
    for part in s.split('|'):
        f = part.split('~')
        if f[0] in 'FR':
            out.append((f[0], f[1], parse_q(f[2]), parse_q(f[3]), parse_q(f[4]), parse_q(f[5]), parse_q(f[6]),
                        parse_q(f[7])))
        elif f[0] == 'U':
            out.append(('U', f[1], parse_q(f[2])))
        else:
            out.append(('A', f[1], f[2], f[3]))       # name, multi T/F, auto T/F
    return out


def close(a, b, tol=1e-9):
    if a is None or b is None:
        return a is None and b is None
    a, b = float(a), float(b)
    return abs(a - b) <= tol * max(1.0, abs(a), abs(b))


def impl_line_tuple(ln, before_names):
    out = []
    for e in ln['els']:
        if e['k'] in 'FR':
            out.append((e['k'], e['uid'], e['len'], e['lc'], e['con_in'], e['con_out'], e['att_in'],
                        sum(l for _, l in e['lumped'])))
        elif e['k'] == 'U':
            out.append(('U', e['uid'], e['loss']))
        else:
            out.append(('A', e['uid'], 'T' if e.get('multi') else 'F', 'F' if e['uid'] in before_names else 'T'))
    return out


def diff_line(model, impl):
    """first difference between the model's and the implementation's designed line, or None"""
    if len(model) != len(impl):
        return f'length {len(model)} (model) vs {len(impl)} (impl): {[m[:2] for m in model]} vs {[i[:2] for i in impl]}'
    for k, (m, i) in enumerate(zip(model, impl)):
        if m[0] != i[0] or m[1] != i[1]:
            return f'element {k}: model {m[:2]} impl {i[:2]}'
        if m[0] in 'FR':
            for name, a, b in zip(('length', 'loss_coef', 'con_in', 'con_out', 'att_in', 'lumped'), m[2:], i[2:]):
                if not close(a, b):
                    return f'element {k} ({m[1]}) {name}: model {None if a is None else float(a)} impl {b}'
        elif m[0] == 'U':
            if not close(m[2], i[2]):
                return f'element {k} ({m[1]}) loss: model {float(m[2])} impl {i[2]}'
        else:
            if m[2:] != i[2:]:
                return f'element {k} ({m[1]}) kind/auto: model {m[2:]} impl {i[2:]}'
    return None


def near_threshold(case, before):
    """tie rule: a case is not judged when an exact value used in a comparison of calculate_new_length lies within
    1e-9 (relative) of its threshold without being equal to it (float vs exact arithmetic may then disagree)"""
    c = cfg_of(case['span'])
    mn = max(c['padlen'], 50000)
    mx = c['max']
    tg = max(mn, min(mx, 90000))

    def tie(x, th):
        return x != th and abs(x - th) <= Fraction(1, 10 ** 9) * max(1, abs(th))
    for ln in before:
        for e in ln['els']:
            if e['k'] in 'FR':
                L = Fraction(e['len'])
                if tie(L, mx):
                    return True
                if L >= mx and tg > 0 and L // tg >= 1:
                    n2 = L // tg
                    l1, l2 = L / (n2 + 1), L / n2
                    if any(tie(v, th) for v in (l1, l2) for th in (mn, mx)):
                        return True
                    if tie(l2 - tg, tg - l1) or tie(L / tg, round(L / tg)):
                        return True
    return False


# ------------------------------------------------------------------ oracle on the implementation's observations
def split_base(uid):
    """'x_(k/n)' -> ('x', k, n) or None"""
    if uid.endswith(')') and '_(' in uid:
        base, _, rest = uid.rpartition('_(')
        try:
            k, n = rest[:-1].split('/')
            return base, int(k), int(n)
        except ValueError:
            return None
    return None


def no_insert(case):
    return bool(case.get('options', {}).get('no_insert_edfas'))


def oracle_python(case, rec):
    """graph-level clauses: chains, unique names, reachability, split totals (length, loss, lumped)"""
    fails = []
    for p in rec['after_problems']:
        fails.append(('not_chains', p, {}))
    if rec['reach_before'] != rec['reach_after']:
        d = sorted(rec['reach_before'] ^ rec['reach_after'])[:3]
        fails.append(('reachability_changed', f'pairs {d}', {}))
    b_by_key = {(ln['src'], ln['first']): ln for ln in rec['before']}
    max_m = max_metres(case['span'])
    cfg = cfg_of(case['span'])
    min_above_max = max(cfg['padlen'], 50000) > cfg['max']

    def det(uid, b, parts):
        d = {'uid': uid, 'min_above_max': min_above_max}
        if b is not None and parts:
            d.update(n_parts=len(parts), lumped_before=sum(l for _, l in b['lumped']),
                     lumped_after=sum(l for p in parts for _, l in p['lumped']), was_raman=b['k'] == 'R')
        return d
    before_fibres = {e['uid']: e for ln in rec['before'] for e in ln['els'] if e['k'] in 'FR'}
    after_fibres = {}
    for ln in rec['after']:
        for e in ln['els']:
            if e['k'] in 'FR':
                after_fibres[e['uid']] = e
    next_is_fused = {}
    for ln in rec['after']:
        for i, e in enumerate(ln['els']):
            next_is_fused[e['uid']] = i + 1 < len(ln['els']) and ln['els'][i + 1]['k'] == 'U'
    groups = {}
    for uid, e in after_fibres.items():
        sb = split_base(uid)
        if uid in before_fibres or sb is None or sb[0] not in before_fibres:
            groups.setdefault(uid, []).append(e)
        else:
            groups.setdefault(sb[0], []).append(e)
    for uid, b in before_fibres.items():
        parts = groups.get(uid)
        if not parts:
            fails.append(('fibre_lost', f'{uid} has no counterpart after design', det(uid, b, parts)))
            continue
        tl = sum(p['len'] for p in parts)
        if not close(tl, b['len']):
            fails.append(('split_length', f'{uid}: {b["len"]} m became {len(parts)} spans totalling {tl} m', det(uid, b, parts)))
        if b['lc'] is not None and not close(sum(p['len'] * p['lc'] for p in parts), b['len'] * b['lc']):
            fails.append(('split_loss', f'{uid}: length*loss_coef not preserved', det(uid, b, parts)))
        if len({round(p['len'], 6) for p in parts}) != 1:
            fails.append(('split_unequal', f'{uid}: spans {[p["len"] for p in parts]}', det(uid, b, parts)))
        for p in parts:
            # (with no_insert_edfas nothing is split: the length bound is a guarantee of the insertion step)
            if b['len'] >= max_m and p['len'] > max_m * (1 + 1e-12) and not no_insert(case):
                fails.append(('span_above_max', f'{p["uid"]}: {p["len"]} m > max_length {max_m} m', det(uid, b, parts)))
        if b['len'] < max_m and len(parts) != 1:
            fails.append(('split_below_max', f'{uid}: {b["len"]} m < max_length was split in {len(parts)}', det(uid, b, parts)))
        lb = sum(l for _, l in b['lumped'])
        la = sum(l for p in parts for _, l in p['lumped'])
        if not close(lb, la):
            fails.append(('split_lumped', f'{uid}: lumped losses {lb} dB before, {la} dB after the split into {len(parts)}', det(uid, b, parts)))
        # connector losses as supplied: a given value is kept, a missing one gets the Span default; EOL on top of
        # con_out unless a Fused follows
        for p in parts:
            exp_in = b['con_in'] if b['con_in'] is not None else case['span']['con_in']
            exp_out = (b['con_out'] if b['con_out'] is not None else case['span']['con_out']) + \
                (0 if next_is_fused.get(p['uid']) else case['span']['EOL'])
            if not close(p['con_in'], exp_in) or not close(p['con_out'], exp_out):
                fails.append(('connector_value', f'{p["uid"]}: con_in/con_out {p["con_in"]}/{p["con_out"]}, expected '
                              f'{exp_in}/{exp_out} from the input {b["con_in"]}/{b["con_out"]} and the Span defaults', det(uid, b, parts)))
                break
        if len(parts) > 1 and b['k'] == 'R':
            fails.append(('split_raman_lost', f'{uid}: Raman fibre replaced by {len(parts)} plain Fiber spans', det(uid, b, parts)))
    return fails


def validator_term(rec, ln, before_names):
    """one observed designed line for Run.C08.check_line (presence flags and losses only: cheap literals)"""
    els = []
    B = {True: 'true', False: 'false'}
    for e in ln['els']:
        if e['k'] in 'FR':
            loss = e['loss'] if e['loss'] is not None else 0.0
            els.append(f'fbv {strlit(e["uid"])} {B[e["k"] == "R"]} {qlit(loss)} {B[e["con_in"] is not None]} {B[e["con_out"] is not None]}')
        elif e['k'] == 'U':
            els.append(el_term(e))
        else:
            auto = B[e['uid'] not in before_names]
            if e.get('multi'):
                # a multiband amplifier is judged per band here and enters the validator as one amplifier
                ok = all(a['variety'] in rec['library'] and a['gain'] is not None and a['voa'] is not None
                         and (a['dp'] is not None or not rec['power_mode']) for a in e['amps']) and bool(e['amps'])
                els.append(f'amb {strlit(e["uid"])} true {auto} {strlit(e["variety"] or "")} {B[ok]} {B[ok]} {B[ok]}')
            else:
                els.append(f'amb {strlit(e["uid"])} false {auto} {strlit(e["variety"] or "")} {B[e["gain"] is not None]} '
                           f'{B[e["dp"] is not None]} {B[e["voa"] is not None]}')
    return (f'({"Roadm" if ln["src_kind"] == "R" else "Trx"}, {"Roadm" if ln["dst_kind"] == "R" else "Trx"}, {listlit(els)})')


def validator_case_term(rec, before_names, pad, lib='LIB', no_ins=False):
    lines = listlit([validator_term(rec, ln, before_names) for ln in rec['after']])
    return (f'check_net_opt {"true" if no_ins else "false"} {lib} {"true" if rec["power_mode"] else "false"} '
            f'{qlit(pad - 1e-9)} {lines}')


# ------------------------------------------------------------------ known findings (narrow predicates)
def m_f9(v):
    """split_fiber copies lumped_losses into every sub-span, or raises when a position exceeds the sub-span"""
    d = v.get('detail', {})
    if v['key'] == 'split_lumped':
        return d.get('n_parts', 0) > 1 and d.get('lumped_before', 0) > 0 and \
            close(d.get('lumped_after'), d['n_parts'] * d['lumped_before'])
    return v['key'] == 'design_raises' and d.get('exc_type') == 'NetworkTopologyError' and \
        d.get('lumped_beyond_subspan') is True and 'Lumped loss positions' in d.get('exc', '')


def m_f16(v):
    """max(padding/0.2 km, 50 km) > max_length: ZeroDivisionError or spans above max_length"""
    d = v.get('detail', {})
    if v['key'] == 'span_above_max':
        return d.get('min_above_max') is True
    return v['key'] == 'design_raises' and d.get('exc_type') == 'ZeroDivisionError' and d.get('min_above_max') is True \
        and d.get('fibre_at_or_above_max') is True


def m_f17(v):
    d = v.get('detail', {})
    return v['key'] == 'padding' and d.get('fused_at_span_end_or_start') is True


def m_f18(v):
    d = v.get('detail', {})
    return v['key'] == 'split_raman_lost' and d.get('was_raman') is True and d.get('n_parts', 0) > 1


# exception types the chain model can produce (anything else, e.g. ROADM equalisation errors, is outside the model)
MODEL_EXCEPTIONS = ('ZeroDivisionError', 'NetworkTopologyError')

MATCHERS = {
    'F9-split-lumped': m_f9,
    'F16-min-length-above-max-length': m_f16,
    'F17-padding-skipped-at-fused': m_f17,
    'F18-raman-split-to-fiber': m_f18,
}


def classify_exception(case, rec):
    """facts about a design-time exception that the matchers use (computed from the input, not from the message)"""
    d = {'exc_type': rec['exc_type'], 'exc': rec['exc'][:300]}
    c = cfg_of(case['span'])
    mn = max(c['padlen'], 50000)
    d['min_above_max'] = mn > c['max']
    d['roadm_target_zero'] = any(r.get('target_pch_out_db') == 0 for r in case['roadms'].values())
    fibres = [e for ln in rec['before'] for e in ln['els'] if e['k'] in 'FR']
    d['fibre_at_or_above_max'] = any(e['len'] >= c['max'] for e in fibres)
    # (a) an amplifier without operator delta_p (user or to-be-inserted) in front of a span that contains a Raman fibre:
    #     target_power -> span_loss -> estimate_raman_gain(power None)
    # (b) a Raman fibre inside a fused run that ends with a plain fibre: add_fiber_padding -> span_loss(power None)
    hit_a = hit_b = False
    for ln in rec['before']:
        els = ln['els']
        for i, e in enumerate(els):
            if e['k'] != 'R':
                continue
            j = i - 1
            while j >= 0 and (els[j]['k'] == 'U' or (els[j]['k'] in 'FR' and j + 1 < len(els) and (els[j + 1]['k'] == 'U' or els[j]['k'] == 'U'))):
                j -= 1
            if j < 0:
                hit_a = hit_a or ln['src_kind'] == 'R'                 # booster will be inserted (or the ROADM itself)
            elif els[j]['k'] == 'A':
                hit_a = hit_a or els[j].get('op_dp') is None
            else:
                hit_a = True                                            # fibre-fibre junction: inline amplifier will be inserted
            k = i + 1
            while k < len(els) and els[k]['k'] == 'U':
                k += 1
            if k < len(els) and k > i + 1 and els[k]['k'] == 'F':
                hit_b = True
    hit = hit_a or hit_b
    d['raman_in_fused_run'] = hit_b
    d['raman_gain_without_power'] = hit
    mxl = c['max']
    tg = max(mn, min(mxl, 90000))
    lb = False
    for e in fibres:
        if e['lumped'] and e['len'] >= mxl and tg > 0 and e['len'] // tg >= 1:
            lb = True
    d['lumped_beyond_subspan'] = lb
    # entry point with no_insert_edfas; a fibre directly following a ROADM (no operator booster) used to break
    # set_fiber_input_power (finding F25, repaired in /repo by 9f8f6e2f: regression corpus f25_no_insert_fibre_after_roadm)
    d['no_insert'] = no_insert(case)
    d['fibre_directly_after_roadm'] = any(ln['src_kind'] == 'R' and ln['els'] and ln['els'][0]['k'] in 'FR' for ln in rec['before'])
    return d


# ------------------------------------------------------------------ run
def strip(case):
    return {k: v for k, v in case.items() if not k.startswith('_')}


def run(ctx):
    logging.disable(logging.CRITICAL)
    rng = ctx.rng
    # second tie: re-translate the decision-carrying code of /repo (harness/pygen_c08.py); the equivalence lemmas of
    # Proofs/ChainGen.v are then re-checked by check_props against what the code says now
    from . import pygen_c08
    gen_ok, gen_msg = pygen_c08.regenerate()
    ctx.proof = common.check_props(PROP)
    if not gen_ok:
        ctx.proof['ok'] = False
        ctx.proof['log'] = 'harness/pygen_c08.py: ' + gen_msg + '\n' + ctx.proof.get('log', '')
        ctx.proof['failed_file'] = 'theories/Gen/ChainGen.v (translation of /repo source failed)'
    ctx.rule = ('random ROADM meshes (2-5 ROADMs, degree 1-4, 1-4 spans per direction, fibre lengths 1 m - 2000 km and at '
                'the split thresholds, fused junctions at every position, user amplifiers with full/partial/no settings, '
                'Raman spans, random Span configurations incl. EOL, padding, connector defaults, power/gain mode, shuffled '
                'element order) loaded and designed by gnpy; every line compared with Chain.design_line and judged by '
                'the proved validator Chain.line_ok; a case is non-trivial when design inserted at least one amplifier '
                'and at least one fibre was split, padded or fused; distinct by content hash')
    cases = []
    for f in sorted(glob.glob(os.path.join(common.VERIF, 'corpus', PROP, '*.json'))):
        c = json.load(open(f))
        c['_corpus'] = os.path.basename(f)
        cases.append(c)
    if ctx.replay:
        cases = [json.load(open(ctx.replay))['case']]
    else:
        n = ctx.scale(200, 4000)
        cases += [gen_case(rng) for _ in range(n)]
        cases += [gen_case(rng, 'raman_auto') for _ in range(ctx.scale(4, 40))]
        cases += [gen_case(rng, 'risky_span') for _ in range(ctx.scale(6, 60))]
        cases += [gen_case(rng, 'lumped_split') for _ in range(ctx.scale(6, 60))]
        cases += [gen_case(rng, 'raman_long') for _ in range(ctx.scale(2, 20))]
        cases += [gen_case(rng, 'roadm_zero_target') for _ in range(ctx.scale(2, 20))]
        cases += [gen_entry_case(rng) for _ in range(ctx.scale(24, 300))]
        cases += [gen_multiband_case(rng) for _ in range(ctx.scale(10, 120))]
    terms, meta = [], []
    vterms, vmeta, libs = [], [], {}
    import time
    t0 = time.time()
    for case in cases:
        rec = drive(case)
        sc = strip(case)
        ctx.count('kind_' + case.get('kind', 'valid'))
        if 'load_exc' in rec:
            ctx.count('load_exception')
            ctx.violation('load_raises', rec['load_exc'], sc,
                          detail={'exc_type': rec['load_exc'].split(':')[0], 'exc': rec['load_exc'][:300],
                                  'roadm_target_zero': any(r.get('target_pch_out_db') == 0 for r in case['roadms'].values())})
            continue
        for p in rec['before_problems']:
            ctx.count('generator_not_chain')
        if rec['before_problems']:
            continue
        before_names = {e['uid'] for ln in rec['before'] for e in ln['els']}
        nfib = sum(1 for ln in rec['before'] for e in ln['els'] if e['k'] in 'FR')
        ctx.count('lines', len(rec['before']))
        ctx.count('fibres', nfib)
        ctx.count('fused', sum(1 for ln in rec['before'] for e in ln['els'] if e['k'] == 'U'))
        ctx.count('user_amps', sum(1 for ln in rec['before'] for e in ln['els'] if e['k'] == 'A'))
        ctx.count('raman_fibres', sum(1 for ln in rec['before'] for e in ln['els'] if e['k'] == 'R'))
        if any(e['lc'] is None for ln in rec['before'] for e in ln['els'] if e['k'] in 'FR'):
            ctx.count('skipped_per_frequency_loss')
            continue
        tie = near_threshold(case, rec['before'])
        if tie:
            ctx.count('skipped_threshold_tie')
        order = rec['roadm_order']
        cfg = cfg_of(case['span'])

        def dst_first(ln):
            if ln['src_kind'] != 'R' or ln['dst_kind'] != 'R':
                return True
            return order.index(ln['dst']) <= order.index(ln['src'])
        if 'exc' in rec:
            ctx.count('design_exception_' + rec['exc_type'])
            ctx.case(sc, False)
            ctx.violation('design_raises', f'designed_network raised {rec["exc"][:200]}', sc,
                          detail=classify_exception(case, rec))
            det = classify_exception(case, rec)
            in_model = rec['exc_type'] in MODEL_EXCEPTIONS
            if not in_model:
                ctx.count('exception_outside_chain_model')
            if not tie and in_model:
                terms.append(f'run_case_opt {"true" if no_insert(case) else "false"} ({cfg_term(cfg)}) '
                             f'{listlit([line_term(ln, dst_first(ln)) for ln in rec["before"]])}')
                meta.append((sc, rec, None))
            continue
        # --- oracle, Python part
        for key, desc, det in oracle_python(case, rec):
            ctx.violation(key, desc, sc, detail=det)
        n_ins = sum(1 for ln in rec['after'] for e in ln['els'] if e['k'] == 'A' and e['uid'] not in before_names)
        n_split = sum(1 for ln in rec['after'] for e in ln['els'] if e['k'] in 'FR' and e['uid'] not in before_names)
        n_pad = sum(1 for ln in rec['after'] for e in ln['els'] if e['k'] in 'FR' and e['att_in'] and e['uid'] in before_names
                    and e['att_in'] > 0)
        ctx.count('inserted_amps', n_ins)
        ctx.count('split_spans', n_split)
        ctx.count('padded_fibres', n_pad)
        ctx.case(sc, (n_ins > 0 or no_insert(case)) and (n_split > 0 or n_pad > 0 or any(e['k'] == 'U' for ln in rec['before'] for e in ln['els'])))
        # --- oracle, Coq part (proved validator on the implementation's designed lines)
        lib = libs.setdefault(tuple(rec['library']), f'LIB{len(libs)}')
        vterms.append(validator_case_term(rec, before_names, case['span']['padding'], lib, no_insert(case)))
        vmeta.append((sc, rec['after']))
        # --- correspondence
        if not tie:
            terms.append(f'run_case_opt {"true" if no_insert(case) else "false"} ({cfg_term(cfg, sorted(rec['ref_gain'].items()))}) '
                         f'{listlit([line_term(ln, dst_first(ln)) for ln in rec["before"]])}')
            meta.append((sc, rec, before_names))
    ctx.extra['t_drive'] = round(time.time() - t0, 1)
    t0 = time.time()
    out = common.coq_eval(PROP, 'Prelude Model.Chain Run.C08', terms, per_file=12, tag='cases', prelude=QPRE)
    for (sc, rec, before_names), line in zip(meta, out):
        mlines = [parse_model_line(s) for s in line.split(';')] if line != '' else []
        if before_names is None:
            # the implementation raised: the model must raise the same exception type on some line
            errs = [m[1] for m in mlines if isinstance(m, tuple) and m and m[0] == 'E']
            if rec['exc_type'] not in errs:
                ctx.corr_break('corr:Chain.design_line', f'implementation raised {rec["exc_type"]}, model did not',
                               sc, impl=rec['exc'][:200], model=line[:300])
            continue
        by_key = {(ln['src'], ln['first']): ln for ln in rec['before']}
        # lines keep their source and their order of extraction is by (source, successor) -> match on content
        after_by_src = {}
        for ln in rec['after']:
            after_by_src.setdefault((ln['src'], ln['dst']), []).append(ln)
        for bl, m in zip(rec['before'], mlines):
            if isinstance(m, tuple) and m and m[0] == 'E':
                ctx.corr_break('corr:Chain.design_line', f'model raises {m[1]} on line {bl["src"]}->{bl["dst"]}, implementation designed it',
                               sc, impl='designed', model=m[1])
                continue
            cands = after_by_src.get((bl['src'], bl['dst']), [])
            keep = {e['uid'] for e in bl['els']}
            cand = [a for a in cands if (keep & {e['uid'] for e in a['els']}) or
                    any((split_base(e['uid']) or ('',))[0] in keep for e in a['els']) or (not keep and len(a['els']) <= 1)]
            if not cand:
                ctx.corr_break('corr:Chain.design_line', f'no designed line found for {bl["src"]}->{bl["dst"]}', sc)
                continue
            d = diff_line(m, impl_line_tuple(cand[0], before_names))
            if d:
                ctx.corr_break('corr:Chain.design_line', f'line {bl["src"]}->{bl["dst"]}: {d}', sc,
                               impl=[e['uid'] for e in cand[0]['els']], model=[x[1] for x in m])
    ctx.extra['t_model'] = round(time.time() - t0, 1)
    t0 = time.time()
    lib_def = '\n'.join(f'Definition {name} : list string := ' + listlit([strlit(x) + '%string' for x in lib]) + '.'
                        for lib, name in libs.items())
    vout = common.coq_eval(PROP, 'Prelude Model.Chain Run.C08', vterms, per_file=20, tag='valid', prelude=QPRE + '\n' + lib_def)
    for (sc, after), verdicts in zip(vmeta, vout):
        for ln, verdict in zip(after, verdicts.split(';')):
            if verdict == 'ok':
                continue
            for item in verdict.split(','):
                key, _, where = item.partition('@')
                det = {}
                if key == 'padding':
                    idx = int(where) if where.isdigit() else -1
                    det['fused_at_span_end_or_start'] = span_has_fused_edge(ln['els'], idx)
                ctx.violation(key, f'line {ln["src"]}->{ln["dst"]}: validator clause {key} fails at element {where} '
                              f'({[e["uid"] for e in ln["els"]][:12]})', sc, detail=det)
    ctx.extra['t_validator'] = round(time.time() - t0, 1)
    ctx.assumptions += [
        'translator tie: harness/pygen_c08.py (fail-closed Python-ast -> Gallina, on harness/pygen.py; translated: calculate_new_length (every expression), min / target span length, split_fiber (single-span test, span uid), the isinstance tests / band decision / uid of add_roadm_booster, add_roadm_preamp, add_inline_amplifier, add_connector_loss (defaults, EOL test), add_fiber_padding (template and translator of pygen_c09); templates only for add_missing_elements_in_network, add_missing_fiber_attributes, get_next_node, get_previous_node, get_oms_edge_list(_from_egress), check_oms_single_type)',
        'lines are compared one by one: the model is per line (source, chain, destination, which end is designed first); '
        'that gnpy treats lines independently is what the comparison of every line of every network checks',
        'amplifier gain / delta_p / VOA values are only validated for presence here (their values are C09)',
        'per-frequency loss coefficients are not generated; multiband amplifiers enter the validator as one amplifier',
    ]
    return common.finish(ctx, MATCHERS)


def span_has_fused_edge(els, idx):
    """the fibre/fused run containing element idx starts or ends with a Fused element"""
    if idx < 0 or idx >= len(els):
        return False
    lo = idx
    while lo > 0 and els[lo - 1]['k'] in 'FRU':
        lo -= 1
    hi = idx
    while hi + 1 < len(els) and els[hi + 1]['k'] in 'FRU':
        hi += 1
    return els[lo]['k'] == 'U' or els[hi]['k'] == 'U'
