"""C19 — the reported response states exactly what was computed for each request.

Tie (DESIGN §4(b), verified validator + functional correspondence):
random ROADM meshes x random equipment variants (margins, penalties, thresholds) x random request batches (fixed / free
mode, fixed / free / multi-slot N,M, bidirectional, duplicates to be aggregated, synchronisation vectors, unsatisfiable
routes, unfeasible modes, spectrum conflicts) are driven through the real `planning()` (requests_aggregation,
compute_path_with_disjunction, pth_assign_spectrum, ResultElement), `results_to_json` and `jsontocsv`.
What was *computed* is observed at the stage boundaries (the lists returned by compute_path_with_disjunction, the
request objects after pth_assign_spectrum, the mode returned by propagate_and_optimize_mode, the receiver arrays at
the return of every propagate call); what is *reported* is the response document and the CSV text.  Then
  * oracle (verified): `response_ok obs resp` (Coq, proved <-> Spec) and the strict `response_exact` (proved <-> Spec and
    Shape: no extra key, no extra metric entry) judge every response; further statements of the
    property that need the whole batch (every id once, aggregated requests identical, bandwidth summed, bidirectional
    requests carry both directions, CSV pass flag) are evaluated on the same observations here,
  * correspondence: the generator model `pathresult`, the CSV model `csv_row` and the model `requests_aggregation`
    are compared with the real outputs (exact values; tolerance 1e-9 where gnpy does float arithmetic),
  * a direct stream drives ResultElement / jsontocsv on planning outcomes whose outcome fields were rewritten to every
    blocking reason and to inconsistent states (labels on a blocked request, missing labels, missing reverse path).
  * an aggregation stream drives the real requests_aggregation / compare_reqs alone on request-like objects and real
    Disjunction objects (twins, near-twins differing in one compared field, synchronisation groups of equal and of
    different shapes, repeated ids) and compares requests and groups with the model; the aggregation clauses of the
    property are evaluated on the real result (agg_oracle).
A response whose exact mean lies within 1e-9 of a rounding tie is not judged (counted).
"""
import copy
import csv
import glob
import io
import json
import logging
import math
import os
from decimal import Decimal
from fractions import Fraction

from . import common
from .common import zlit, listlit, qlit


def strlit(s):
    return common.strlit(s) + '%string'

ALL_REASONS = ['NO_PATH', 'NO_PATH_WITH_CONSTRAINT', 'NO_FEASIBLE_BAUDRATE_WITH_SPACING', 'NO_COMPUTED_SNR',
               'NO_FEASIBLE_MODE', 'MODE_NOT_FEASIBLE', 'NO_SPECTRUM', 'NOT_ENOUGH_RESERVED_SPECTRUM']
NOPATH = ALL_REASONS[:4]
KEY_FIELDS = ['source', 'destination', 'bidir', 'tsp', 'tsp_mode', 'baud_rate', 'nodes_list', 'loose_list', 'spacing', 'power',
              'nb_channel', 'f_min', 'f_max', 'format', 'OSNR', 'roll_off', 'tx_power']
METRICS = ['SNR-bandwidth', 'SNR-0.1nm', 'OSNR-bandwidth', 'OSNR-0.1nm', 'lowest_SNR-0.1nm', 'biggest_SNR-0.1nm',
           'PDL_penalty', 'CD_penalty', 'PMD_penalty', 'reference_power', 'path_bandwidth']


# ------------------------------------------------------------------ equipment variants
_VAR = []


def eqpt_variants():
    if not _VAR:
        _VAR.extend(_eqpt_variants())
    return _VAR


def _eqpt_variants():
    """a fixed family of equipment libraries: margins that are / are not exactly representable, penalties on some modes
    (so that the three penalty metrics are numbers, 'Infinity' or 'not evaluated'), raised thresholds (blocking)"""
    base = json.load(open(os.path.join(common.REPO, 'gnpy', 'example-data', 'eqpt_config.json')))
    pen_a = [{'chromatic_dispersion': 4e3, 'penalty_value': 0}, {'chromatic_dispersion': 40e3, 'penalty_value': 0.5},
             {'pmd': 10, 'penalty_value': 0}, {'pmd': 30, 'penalty_value': 0.5},
             {'pdl': 1, 'penalty_value': 0.5}, {'pdl': 2, 'penalty_value': 1}]
    pen_b = [{'chromatic_dispersion': 100, 'penalty_value': 0}, {'chromatic_dispersion': 2000, 'penalty_value': 0.3},
             {'pmd': 1, 'penalty_value': 0.1}, {'pmd': 300, 'penalty_value': 0.7}]     # CD leaves the range quickly -> inf
    pen_c = [{'pdl': 0.2, 'penalty_value': 0.25}, {'pdl': 6, 'penalty_value': 1.75}]
    pen_d = [{'chromatic_dispersion': 0, 'penalty_value': 0}, {'chromatic_dispersion': 40e3, 'penalty_value': 40},
             {'pmd': 0, 'penalty_value': 0}, {'pmd': 100, 'penalty_value': 10}]   # steep: differs from channel to channel
    specs = [
        dict(margin=2, pens={}, shift=0),
        dict(margin=1.37, pens={('Voyager', 'mode 1'): pen_d, ('Voyager', 'mode 3'): pen_c,
                                ('vendorA_trx-type1', 'mode 1'): pen_d}, shift=0),
        dict(margin=0, pens={('Voyager', 'mode 1'): pen_b, ('vendorA_trx-type1', 'mode 1'): pen_a}, shift=3, tx=1.5),
        dict(margin=2.5, pens={('Voyager', 'mode 4'): pen_a, ('Voyager', 'mode 2'): pen_a}, shift=6, tx=None),
        dict(margin=0.5, pens={('Voyager', 'mode 1'): pen_c, ('Voyager', 'mode 3'): pen_b,
                               ('vendorA_trx-type1', 'mode 2'): pen_c}, shift=9),
    ]
    out = []
    for sp in specs:
        e = copy.deepcopy(base)
        e['SI'][0]['sys_margins'] = sp['margin']
        # transceiver output power: as shipped (= span input power), a different value, or not defined
        if 'tx' in sp:
            if sp['tx'] is None:
                e['SI'][0].pop('tx_power_dbm', None)
            else:
                e['SI'][0]['tx_power_dbm'] = sp['tx']
        for t in e['Transceiver']:
            for m in t['mode']:
                p = sp['pens'].get((t['type_variety'], m['format']))
                if p:
                    m['penalties'] = copy.deepcopy(p)
                m['OSNR'] = m['OSNR'] + sp['shift']
                if t['type_variety'] == 'vendorA_trx-type1':
                    m['cost'] = 3 if m['format'] == 'mode 2' else 2
        out.append(e)
    return out


_EQ = {}


def equipment(k):
    if k not in _EQ:
        from gnpy.tools.json_io import _equipment_from_json
        from gnpy.tools.default_edfa_config import DEFAULT_EXTRA_CONFIG
        _EQ[k] = _equipment_from_json(copy.deepcopy(eqpt_variants()[k]), DEFAULT_EXTRA_CONFIG)
    return _EQ[k]


def modes_of(k):
    """{type: [(format, min_spacing, bit_rate)]} straight from the variant's JSON"""
    return {t['type_variety']: [(m['format'], m['min_spacing'], m['bit_rate']) for m in t['mode']]
            for t in eqpt_variants()[k]['Transceiver']}


# ------------------------------------------------------------------ topology generator
def site(i):
    return chr(65 + i)


def gen_topo(rng):
    n = rng.choice([2, 3, 3, 4, 4, 5, 6])
    names = [site(i) for i in range(n)]
    order = names[:]
    rng.shuffle(order)
    pairs = set()
    for i in range(1, n):
        pairs.add(tuple(sorted((order[i], rng.choice(order[:i])))))
    extra = rng.randint(0, 3)
    tries = 0
    while len(pairs) < n - 1 + extra and tries < 50:
        a, b = rng.sample(names, 2)
        pairs.add(tuple(sorted((a, b))))
        tries += 1
    if rng.random() < 0.15 and len(pairs) > 1:
        pairs.discard(rng.choice(sorted(pairs)))               # possibly disconnected: NO_PATH
    long_haul = rng.random() < 0.3
    lines = []
    for (a, b) in sorted(pairs):
        def spans():
            k = rng.choice([1, 1, 2, 2, 3]) + (rng.choice([2, 4, 6]) if long_haul else 0)
            return [round(rng.uniform(60, 130) if long_haul else rng.uniform(5, 110), 3) for _ in range(k)]
        lines.append({'a': a, 'b': b, 'ab': spans(), 'ba': spans()})
    return {'n': n, 'lines': lines}


def topo_json(topo):
    els, cx = [], []
    for i in range(topo['n']):
        x = site(i)
        els += [{'uid': f'trx {x}', 'type': 'Transceiver'}, {'uid': f'roadm {x}', 'type': 'Roadm'}]
        cx += [(f'trx {x}', f'roadm {x}'), (f'roadm {x}', f'trx {x}')]
    for ln in topo['lines']:
        for (s, t, sp) in ((ln['a'], ln['b'], ln['ab']), (ln['b'], ln['a'], ln['ba'])):
            prev = f'roadm {s}'
            for k, length in enumerate(sp):
                fu = f'fiber {s}{t}_{k}'
                els.append({'uid': fu, 'type': 'Fiber', 'type_variety': 'SSMF',
                            'params': {'length': length, 'length_units': 'km', 'loss_coef': 0.2,
                                       'con_in': None, 'con_out': None}})
                cx.append((prev, fu))
                prev = fu
            cx.append((prev, f'roadm {t}'))
    return {'elements': els, 'connections': [{'from_node': a, 'to_node': b} for a, b in cx]}


def build(topo, k):
    from gnpy.tools.json_io import network_from_json
    from gnpy.tools.worker_utils import designed_network
    eq = equipment(k)
    net = network_from_json(copy.deepcopy(topo_json(topo)), eq)
    net, _, _ = designed_network(eq, net)
    return net


# ------------------------------------------------------------------ request batches
def mk_request(rid, s, t, ttype, mode, spacing, nch, power, bw, slots, bidir, inc=None, tx_power=None):
    r = {'request-id': str(rid), 'source': f'trx {s}', 'destination': f'trx {t}', 'src-tp-id': f'trx {s}',
         'dst-tp-id': f'trx {t}', 'bidirectional': bidir,
         'path-constraints': {'te-bandwidth': {'technology': 'flexi-grid', 'trx_type': ttype, 'trx_mode': mode,
                                               'effective-freq-slot': slots, 'spacing': spacing,
                                               'max-nb-of-channel': nch, 'output-power': power,
                                               'path_bandwidth': bw}}}
    if tx_power is not None:
        r['path-constraints']['te-bandwidth']['tx_power'] = tx_power
    if inc:
        r['explicit-route-objects'] = {'route-object-include-exclude': [
            {'explicit-route-usage': 'route-include-ero', 'index': i,
             'num-unnum-hop': {'node-id': n, 'link-tp-id': 'link-tp-id is not used', 'hop-type': h}}
            for i, (n, h) in enumerate(inc)]}
    return r


NEAR_TWIN_DIMS = ['source', 'destination', 'bidirectional', 'trx_type', 'trx_mode', 'include-node', 'hop-type',
                  'spacing', 'output-power', 'max-nb-of-channel', 'tx_power']
# differences of the request document that harmonisation of the route list removes: such requests ARE identical
SAME_AFTER_HARMONISATION = ['own-destination', 'own-source', 'own-ends', 'unknown-loose-hop']


def get_include(r):
    try:
        hops = sorted(r['explicit-route-objects']['route-object-include-exclude'], key=lambda h: h['index'])
    except KeyError:
        return []
    return [(h['num-unnum-hop']['node-id'], h['num-unnum-hop']['hop-type']) for h in hops]


def set_include(r, inc):
    r['explicit-route-objects'] = {'route-object-include-exclude': [
        {'explicit-route-usage': 'route-include-ero', 'index': i,
         'num-unnum-hop': {'node-id': n, 'link-tp-id': 'link-tp-id is not used', 'hop-type': h}}
        for i, (n, h) in enumerate(inc)]}


def near_twin(rng, dim, r0, r, names, modes):
    """make r (a deep copy of r0) differ from r0 in exactly the dimension `dim` of the request document, keeping both
    loadable (spacing >= min spacing of the mode ...).  'include-node' / 'hop-type' give both the same kind of include
    list first (r0 is modified too, before it is loaded).  Falls back to a true twin when the change is impossible."""
    te0, te = r0['path-constraints']['te-bandwidth'], r['path-constraints']['te-bandwidth']
    s, t = r0['source'][4:], r0['destination'][4:]
    if dim == 'source' or dim == 'destination':
        other = [u for u in names if u not in (s, t)]
        if other:
            u = rng.choice(other)
            key, tp = ('source', 'src-tp-id') if dim == 'source' else ('destination', 'dst-tp-id')
            r[key] = r[tp] = f'trx {u}'
    elif dim == 'bidirectional':
        r['bidirectional'] = not r0['bidirectional']
    elif dim == 'trx_type':
        o = 'vendorA_trx-type1' if te0['trx_type'] == 'Voyager' else 'Voyager'
        if te0['trx_mode'] is None or any(m[0] == te0['trx_mode'] and m[1] <= te0['spacing'] for m in modes[o]):
            te['trx_type'] = o
            te['effective-freq-slot'] = [{'N': None, 'M': None}]
    elif dim == 'trx_mode':
        cands = [m[0] for m in modes[te0['trx_type']] if m[0] != te0['trx_mode'] and m[1] <= te0['spacing']]
        if cands and te0['trx_mode'] is not None:
            te['trx_mode'] = rng.choice(cands)
            te['effective-freq-slot'] = [{'N': None, 'M': None}]
    elif dim in ('include-node', 'hop-type'):
        # both include a ROADM that every route crosses, so both stay routable
        set_include(r0, [(f'roadm {t}', 'STRICT')])
        if dim == 'hop-type':
            set_include(r, [(f'roadm {t}', 'LOOSE')])
        else:
            set_include(r, [(f'roadm {s}', 'STRICT')])
    elif dim == 'spacing':
        te['spacing'] = te0['spacing'] + 12.5e9
    elif dim == 'output-power':
        te['output-power'] = 1.7e-3 if te0['output-power'] != 1.7e-3 else 0.8e-3
    elif dim == 'max-nb-of-channel':
        te['max-nb-of-channel'] = 9 if te0['max-nb-of-channel'] != 9 else 10
    elif dim == 'tx_power':
        te['tx_power'] = 1.1e-3 if te0.get('tx_power') != 1.1e-3 else 0.9e-3
    elif dim in SAME_AFTER_HARMONISATION:
        # the same demand written differently: its own end transceivers at the ends of the include list, a node that
        # does not exist as LOOSE hop
        inc = get_include(r0)
        ht = rng.choice(['STRICT', 'LOOSE'])
        if dim in ('own-source', 'own-ends'):
            inc = [(r0['source'], ht)] + inc
        if dim in ('own-destination', 'own-ends'):
            inc = inc + [(r0['destination'], ht)]
        if dim == 'unknown-loose-hop':
            k = rng.randint(0, len(inc))
            inc = inc[:k] + [(rng.choice(['roadm Nowhere', 'no such node', 'fiber ZZ_9']), 'LOOSE')] + inc[k:]
        set_include(r, inc)


def gen_batch(rng, topo, k):
    names = [site(i) for i in range(topo['n'])]
    modes = modes_of(k)
    nreq = rng.randint(1, 7)
    reqs = []
    for i in range(nreq):
        if reqs and rng.random() < 0.3:
            # a twin of an earlier request (other id, bandwidth, slots), or a near-twin that differs from it in exactly
            # one of the things a request can state (NEAR_TWIN_DIMS): only the true twin may be aggregated
            fixed = [q for q in reqs if q['path-constraints']['te-bandwidth']['trx_mode'] is not None]
            r0 = rng.choice(fixed or reqs)
            r = copy.deepcopy(r0)
            r['request-id'] = str(i)
            te = r['path-constraints']['te-bandwidth']
            if rng.random() < 0.5:
                te['path_bandwidth'] = rng.choice([100e9, 200e9, 150e9, 400e9, 50.3e9, 100.4e9, 2.5e9])
            dim = rng.choice(NEAR_TWIN_DIMS + ['twin'] * 3 + SAME_AFTER_HARMONISATION)
            near_twin(rng, dim, r0, r, names, modes)
            reqs.append(r)
            continue
        s, t = rng.sample(names, 2)
        ttype = rng.choice(['Voyager', 'Voyager', 'vendorA_trx-type1'])
        mode = rng.choice([m[0] for m in modes[ttype]] + [None, None])
        if mode is not None:
            _, minsp, br = next(m for m in modes[ttype] if m[0] == mode)
            spacing = rng.choice([x for x in (37.5e9, 50e9, 62.5e9, 75e9, 87.5e9, 100e9) if x >= minsp])
        else:
            spacing = rng.choice([25e9, 37.5e9, 50e9, 62.5e9, 75e9, 75e9, 100e9])     # 25 GHz: no baud rate fits
            cands = [m for m in modes[ttype] if m[1] <= spacing]
            br = max([m[2] for m in cands], default=100e9)
        nch = rng.choice([None] + [3, 5, 8, 8, 12, 16, 20] * 2)
        power = rng.choice([None, None, 1e-3, 2e-3, 0.5e-3, 0.0005011872336272725, 1.3e-3, 5.888436553555889e-05, 1.2345e-4])
        nb = rng.choice([1, 1, 1, 2, 2, 3, 5])
        # whole and fractional numbers of Gbit/s, below / at / above a multiple of the bit rate
        bw = rng.choice([br * nb, br * nb, br * nb - 50e9 if br * nb > 50e9 else br * nb, 37.5e9 * nb,
                         br * nb + 0.4e9, 50.3e9 * nb, 2.5e9, br * nb - 0.25e9])
        pcm = math.ceil(spacing / 12.5e9)
        need = math.ceil(bw / br)
        x = rng.random()
        if x < 0.45:
            slots = [{'N': None, 'M': None}]
        elif x < 0.7:
            slots = [{'N': rng.choice([None, 8 * rng.randint(-20, 20)]) if mode is None else 8 * rng.randint(-20, 20),
                      'M': pcm * need}]
        elif x < 0.9:
            # multi-slot: enough room in total, fixed or free centres
            parts = []
            left = need
            n0 = 8 * rng.randint(-25, 10)
            while left > 0:
                c = rng.randint(1, left)
                parts.append({'N': n0 + pcm * c if rng.random() < 0.7 or mode is not None else None, 'M': pcm * c})
                n0 += 2 * pcm * c + rng.choice([0, 4, 8])
                left -= c
            if all(p['N'] is None for p in parts) and len(parts) > 1:
                parts[0]['N'] = 8 * rng.randint(-25, 10)
            slots = parts
        else:
            # deliberately short M: rejected at load time when the mode is fixed, blocked later when it is free
            slots = [{'N': None if mode is None else 8 * rng.randint(-20, 20),
                      'M': pcm * max(1, need - (1 if mode is None or rng.random() < 0.2 else 0))}]
        inc = None
        y = rng.random()
        if y < 0.12:
            other = [u for u in names if u not in (s, t)]
            if other:
                inc = [(f'roadm {rng.choice(other)}', rng.choice(['STRICT', 'STRICT', 'LOOSE']))]
        tx_power = rng.choice([None, None, None, 1.1e-3, 0.7e-3, 2e-3])
        reqs.append(mk_request(i, s, t, ttype, mode, spacing, nch, power, bw, slots, rng.random() < 0.35, inc, tx_power))
    sync = []
    if len(reqs) >= 2 and rng.random() < 0.12:
        a, b = rng.sample(range(len(reqs)), 2)
        sync.append({'synchronization-id': 'x', 'svec': {'relaxable': False, 'disjointness': 'node link',
                                                         'request-id-number': [str(a), str(b)]}})
        if len(reqs) >= 3 and rng.random() < 0.4:
            c = rng.choice([i for i in range(len(reqs)) if i not in (a, b)])
            sync.append({'synchronization-id': 'y', 'svec': {'relaxable': False, 'disjointness': 'node link',
                                                             'request-id-number': [str(b), str(c)]}})
    data = {'path-request': reqs}
    if sync:
        data['synchronization'] = sync
    return data


def gen_case(rng):
    k = rng.randrange(len(eqpt_variants()))
    topo = gen_topo(rng)
    return {'eq': k, 'topo': topo, 'services': gen_batch(rng, topo, k), 'direct_seed': rng.randrange(1 << 30)}


# ------------------------------------------------------------------ implementation driver
def figures(el):
    """what the receiver holds (copies)"""
    def arr(a):
        return [float(x) for x in a]
    pens = {}
    for name in ('pdl', 'chromatic_dispersion', 'pmd'):
        pens[name] = arr(el.penalties[name]) if name in el.penalties else None
    return {'snr': arr(el.snr), 'snr01': arr(el.snr_01nm), 'osnr': arr(el.osnr_ase), 'osnr01': arr(el.osnr_ase_01nm),
            'pdl': pens['pdl'], 'cd': pens['chromatic_dispersion'], 'pmd': pens['pmd']}


def rq_snapshot(r):
    d = {f: copy.deepcopy(getattr(r, f, None)) for f in KEY_FIELDS}
    d.update(id=r.request_id, bw=r.path_bandwidth, N=copy.deepcopy(getattr(r, 'N', None)),
             M=copy.deepcopy(getattr(r, 'M', None)), bidir=r.bidir)
    return d


def agg_on_ref(ag, ref):
    """the aggregation result of planning(), to be compared with the model run on the harmonised requests"""
    if ag is None or ref is None:
        return ag
    return dict(ag, **{'in': ref['in'], 'din': ref['din'], 'in_seen': ag['in']})


def drive(case):
    """planning + response + CSV on the real code; everything observed at the stage boundaries"""
    import gnpy.tools.worker_utils as wu
    import gnpy.topology.request as rqm
    from gnpy.core.elements import Transceiver
    from gnpy.tools.json_io import results_to_json
    k = case['eq']
    eq = equipment(k)
    net = build(case['topo'], k)
    rec = {'agg': None, 'cpwd': None, 'assigned': None, 'modes': {}, 'props': []}
    # the requests as the property speaks of them: loaded and with their route lists harmonised (own end transceivers
    # and unusable LOOSE hops dropped), and the de-duplicated synchronisation groups -- computed here from the service
    # document, whatever order planning() runs its steps in
    ref = None
    try:
        from gnpy.tools.json_io import requests_from_json, disjunctions_from_json
        ref_rqs = rqm.correct_json_route_list(net, requests_from_json(copy.deepcopy(case['services']), eq))
        ref_dsj = rqm.deduplicate_disjunctions(disjunctions_from_json(copy.deepcopy(case['services'])))
        ref = {'in': [rq_snapshot(r) for r in ref_rqs], 'din': [list(d.disjunctions_req) for d in ref_dsj]}
    except Exception:
        ref = None
    o_agg, o_cpwd, o_pas = wu.requests_aggregation, wu.compute_path_with_disjunction, wu.pth_assign_spectrum
    o_prop, o_opt = rqm.propagate, rqm.propagate_and_optimize_mode

    def w_agg(rqs, dsj):
        before = [rq_snapshot(r) for r in rqs]
        dbefore = [list(d.disjunctions_req) for d in dsj]
        out = o_agg(rqs, dsj)
        rec['agg'] = {'in': before, 'din': dbefore, 'out': [rq_snapshot(r) for r in out[0]],
                      'dout': [list(d.disjunctions_req) for d in out[1]]}
        return out

    def w_cpwd(*a, **kw):
        out = o_cpwd(*a, **kw)
        rec['cpwd'] = out
        return out

    def w_pas(pths, rqs, *a, **kw):
        out = o_pas(pths, rqs, *a, **kw)
        rec['assigned'] = [(r.request_id, copy.deepcopy(getattr(r, 'N', None)), copy.deepcopy(getattr(r, 'M', None)),
                            getattr(r, 'blocking_reason', None)) for r in rqs]
        return out

    def w_prop(path, req, equipment_):
        out = o_prop(path, req, equipment_)
        rec['props'].append((req.request_id, path[0].uid, path[-1].uid, figures(path[-1])))
        return out

    def w_opt(path, req, equipment_):
        out = o_opt(path, req, equipment_)
        pth, mode = out
        rec['modes'][req.request_id] = None if mode is None else mode['format']
        if pth and pth[-1].snr is not None and mode is not None:
            rec['props'].append((req.request_id, pth[0].uid, pth[-1].uid, figures(pth[-1])))
        return out
    wu.requests_aggregation, wu.compute_path_with_disjunction, wu.pth_assign_spectrum = w_agg, w_cpwd, w_pas
    rqm.propagate, rqm.propagate_and_optimize_mode = w_prop, w_opt
    try:
        try:
            _, ppaths, rppaths, rqs, dsjn, result = wu.planning(net, eq, copy.deepcopy(case['services']))
        except Exception as e:      # the batch is refused (ServiceError, DisjunctionError ...): nothing is reported
            return {'exception': f'{type(e).__name__}: {e}'[:300], 'agg': agg_on_ref(rec['agg'], ref)}
    finally:
        wu.requests_aggregation, wu.compute_path_with_disjunction, wu.pth_assign_spectrum = o_agg, o_cpwd, o_pas
        rqm.propagate, rqm.propagate_and_optimize_mode = o_prop, o_opt
    fwd_paths, _, rev_paths = rec['cpwd']
    obs = []
    for i, rq in enumerate(rqs):
        _, n_as, m_as, br_as = rec['assigned'][i]
        pth, rpth = fwd_paths[i], rev_paths[i]
        o = {'id': rq.request_id, 'block': getattr(rq, 'blocking_reason', None), 'bidir': rq.bidir, 'tsp': rq.tsp,
             'mode': rq.tsp_mode, 'N': n_as, 'M': m_as,
             'path': [[el.uid, isinstance(el, Transceiver)] for el in pth],
             'fwd': figures(pth[-1]) if pth and getattr(pth[-1], 'snr', None) is not None else None,
             'rev': figures(rpth[-1]) if rpth and getattr(rpth[-1], 'snr', None) is not None else None,
             'power': rq.power, 'bw': rq.path_bandwidth, 'tx_power': getattr(rq, 'tx_power', None),
             'source': rq.source, 'destination': rq.destination,
             'rev_ends': [rpth[0].uid, rpth[-1].uid] if rpth else None,
             'block_at_assign': br_as, 'N_final': copy.deepcopy(getattr(rq, 'N', None)),
             'M_final': copy.deepcopy(getattr(rq, 'M', None))}
        obs.append(o)
    responses, resp_exc = [], []
    for r in result:
        try:
            responses.append(json.loads(json.dumps(r.json)))
            resp_exc.append(None)
        except Exception as e:
            responses.append(None)
            resp_exc.append(f'{type(e).__name__}: {e}'[:200])
    csv_rows, csv_exc = None, None
    if all(x is not None for x in responses):
        doc = results_to_json(result)
        doc = json.loads(json.dumps(doc))
        try:
            f = io.StringIO()
            rqm.jsontocsv(doc, eq, f)
            csv_rows = list(csv.DictReader(io.StringIO(f.getvalue())))
        except Exception as e:
            csv_exc = f'{type(e).__name__}: {e}'[:200]
        if doc['response'] != responses:
            resp_exc = ['results_to_json differs from ResultElement.json'] * len(responses)
    return {'obs': obs, 'responses': responses, 'resp_exc': resp_exc, 'csv': csv_rows, 'csv_exc': csv_exc,
            'agg': agg_on_ref(rec['agg'], ref), 'ref': ref, 'modes': rec['modes'], 'props': rec['props'],
            'objects': (rqs, fwd_paths, rev_paths, eq)}


def direct_variants(rng, drv):
    """ResultElement / jsontocsv on planning outcomes whose outcome fields are rewritten: every blocking reason,
    and the inconsistent states the code guards against.  Returns [(obs, response | None, exception | None, csv row)]"""
    import gnpy.topology.request as rqm
    from gnpy.core.elements import Transceiver
    rqs, fwd_paths, rev_paths, eq = drv['objects']
    out = []
    cands = [i for i, o in enumerate(drv['obs']) if o['fwd'] is not None]
    if not cands:
        return out
    for _ in range(2):
        i = rng.choice(cands)
        base_o = drv['obs'][i]
        rq = copy.copy(rqs[i])
        kind = rng.choice(['reason', 'reason', 'reason', 'served', 'bad_labels_blocked', 'bad_nolabels_served',
                           'bidir_norev', 'flip_bidir', 'rand_penalties', 'rand_penalties'])
        pth, rpth = fwd_paths[i], rev_paths[i]
        if hasattr(rq, 'blocking_reason'):
            del rq.blocking_reason
        rq.N, rq.M = [rng.randint(-200, 200)], [rng.choice([4, 8, 12])]
        if kind == 'reason':
            rq.blocking_reason = rng.choice(ALL_REASONS + ['SOME_OTHER_REASON'])
            rq.N = rq.M = None
        elif kind == 'served':
            k = rng.randint(1, 3)
            rq.N, rq.M = [rng.randint(-200, 200) for _ in range(k)], [rng.choice([4, 8, 12]) for _ in range(k)]
        elif kind == 'bad_labels_blocked':
            rq.blocking_reason = rng.choice(ALL_REASONS[4:])
            if rng.random() < 0.5:
                rq.N = None
        elif kind == 'bad_nolabels_served':
            if rng.random() < 0.5:
                rq.N = None
            else:
                rq.M = None
        elif kind == 'bidir_norev':
            rq.bidir = True
            rpth = []
        elif kind == 'flip_bidir':
            rq.bidir = not rq.bidir
        elif kind == 'rand_penalties':
            # same outcome as planning, but the receivers hold random per-channel penalties (some infinite)
            import numpy as np
            if base_o['block'] is not None:
                rq.blocking_reason = base_o['block']
                rq.N = rq.M = None
            else:
                rq.N, rq.M = base_o['N'], base_o['M']

            def rand_rx(el):
                el = copy.copy(el)
                n = len(el.snr)
                pens = {}
                for name in ('pdl', 'chromatic_dispersion', 'pmd'):
                    x = rng.random()
                    if x < 0.25:
                        continue
                    a = [round(rng.uniform(0, 3), rng.choice([1, 2, 3, 6])) for _ in range(n)]
                    if x < 0.4:
                        a[rng.randrange(n)] = float('inf')
                    elif x < 0.5:
                        a = [a[0]] * n
                    pens[name] = np.array(a)
                el.penalties = pens
                return el
            pth = pth[:-1] + [rand_rx(pth[-1])]
            if rpth:
                rpth = rpth[:-1] + [rand_rx(rpth[-1])]
        o = dict(base_o)
        o.update(id=rq.request_id, block=getattr(rq, 'blocking_reason', None), bidir=rq.bidir, N=rq.N, M=rq.M,
                 fwd=figures(pth[-1]) if pth and getattr(pth[-1], 'snr', None) is not None else None,
                 rev=figures(rpth[-1]) if rpth and getattr(rpth[-1], 'snr', None) is not None else None, kind=kind)
        resp = exc = row = None
        try:
            resp = json.loads(json.dumps(rqm.ResultElement(rq, pth, rpth).json))
        except Exception as e:
            exc = type(e).__name__
        if resp is not None:
            try:
                f = io.StringIO()
                rqm.jsontocsv({'response': [resp]}, eq, f)
                row = list(csv.DictReader(io.StringIO(f.getvalue())))[0]
            except Exception as e:
                row = {'__exc__': type(e).__name__}
        out.append((o, resp, exc, row))
    return out


def csv_threshold_variants(rng, drv, k):
    """jsontocsv on served responses whose lowest-SNR metric is rewritten to the margin-inclusive threshold of the
    selected mode and to one hundredth above / below it.  Returns [(response, csv row)]"""
    import gnpy.topology.request as rqm
    eq = drv['objects'][3]
    e = eqpt_variants()[k]
    out = []
    served = [(o, r) for o, r in zip(drv['obs'], drv['responses']) if r is not None and o['block'] is None]
    if not served:
        return out
    o, resp = rng.choice(served)
    try:
        md = next(m for t in e['Transceiver'] if t['type_variety'] == o['tsp'] for m in t['mode'] if m['format'] == o['mode'])
    except StopIteration:
        return out
    thr = md['OSNR'] + e['SI'][0]['sys_margins']
    for delta in (0, 0.01, -0.01):
        r2 = copy.deepcopy(resp)
        for ent in r2['path-properties']['path-metric']:
            if ent['metric-type'] == 'lowest_SNR-0.1nm':
                ent['accumulative-value'] = round(thr + delta, 2) if delta else thr
        try:
            f = io.StringIO()
            rqm.jsontocsv({'response': [r2]}, eq, f)
            row = list(csv.DictReader(io.StringIO(f.getvalue())))[0]
        except Exception as ex:
            row = {'__exc__': type(ex).__name__}
        out.append((r2, row, thr))
    return out


def csv_pass_oracle(resp, row, thr):
    """the pass-flag clause on the real CSV row, from the response document itself:
    Pass? == (lowest SNR 0.1nm >= required OSNR of the mode + system margins), inclusive.  None = holds / not judged"""
    if '__exc__' in row:
        return f'jsontocsv raised {row["__exc__"]}'
    smin = metric_value(resp['path-properties']['path-metric'], 'lowest_SNR-0.1nm')
    if not isinstance(smin, (int, float)) or (abs(smin - thr) < 1e-9 and smin != thr):
        return None
    want = 'True' if smin >= thr else 'False'
    if row['Pass?'] != want:
        return (f'lowest SNR-0.1nm {smin!r} vs required OSNR + margin {thr!r}: the CSV says Pass?={row["Pass?"]}, '
                f'the margin-inclusive threshold says {want}')
    return None


# ------------------------------------------------------------------ aggregation alone (no network needed)
class _Req:
    """stand-in for PathRequest as requests_aggregation / compare_reqs see it (identity equality, plain attributes)"""


def perturb(field, v):
    """another value for one compared field"""
    if field == 'bidir':
        return not v
    if field in ('source', 'destination'):
        return v + "'"
    if field == 'tsp':
        return 'vendorA_trx-type1' if v == 'Voyager' else 'Voyager'
    if field in ('tsp_mode', 'format'):
        return 'mode 9' if v is not None else 'mode 1'
    if field == 'nodes_list':
        return ['roadm X'] + list(v)
    if field == 'loose_list':
        return ['LOOSE' if x == 'STRICT' else 'STRICT' for x in v] if v else ['LOOSE']
    if field == 'nb_channel':
        return v + 1
    if v is None:
        return 1.0
    return v * 1.25 + 1


def gen_agg_case(rng, field=None):
    """2-8 requests drawn from a few templates (so that twins exist), 0-4 synchronisation groups; twins are often put
    into groups of the same shape, sometimes of different shapes.  With `field`, two fixed-mode requests are made
    identical in all compared fields but that one (run() walks through every field of the key)."""
    ntpl = rng.randint(1, 3)
    tpls = []
    for k in range(ntpl):
        mode = rng.choice(['mode 1', 'mode 1', 'mode 2', None])
        tpls.append({'source': f'trx {rng.choice("AB")}', 'destination': f'trx {rng.choice("CD")}',
                     'bidir': rng.random() < 0.3, 'tsp': 'Voyager', 'tsp_mode': mode,
                     'baud_rate': None if mode is None else 32e9, 'nodes_list': [f'trx {rng.choice("CD")}'],
                     'loose_list': ['STRICT'], 'spacing': rng.choice([50e9, 75e9]), 'power': rng.choice([1e-3, 2e-3]),
                     'nb_channel': rng.choice([8, 40]), 'f_min': 191.3e12, 'f_max': 195.1e12, 'format': mode,
                     'OSNR': None if mode is None else 12, 'roll_off': 0.15, 'tx_power': 1e-3})
    n = rng.randint(2, 8)
    reqs = []
    for i in range(n):
        t = dict(rng.choice(tpls))
        x = rng.random()
        if x < 0.1:
            t['bidir'] = not t['bidir']
        elif x < 0.15:
            t['spacing'] += 12.5e9
        k = rng.randint(1, 2)
        t.update(id=f'r{i}', bw=rng.choice([100e9, 200e9, 37.5e9]),
                 N=[rng.choice([None, 8 * rng.randint(-5, 5)]) for _ in range(k)],
                 M=[rng.choice([None, 4, 8]) for _ in range(k)])
        reqs.append(t)
    if field is not None:
        a, b = rng.sample(range(n), 2)
        if reqs[a]['tsp_mode'] is None:
            reqs[a].update(tsp_mode='mode 1', format='mode 1', baud_rate=32e9, OSNR=12)
        for f in KEY_FIELDS:
            reqs[b][f] = copy.deepcopy(reqs[a][f])
        reqs[b][field] = perturb(field, reqs[a][field])
    ids = [r['id'] for r in reqs]
    groups = []
    for _ in range(rng.choice([0, 0, 1, 1, 2, 3]) if field is None else rng.choice([0, 0, 0, 1])):
        style = rng.random()
        if style < 0.55 and len(ids) >= 3:
            # the same partners for several requests: [t1] + P, [t2] + P, ... (twins then sit in groups of one shape)
            partners = rng.sample(ids, rng.choice([1, 1, 2]))
            rest = [i for i in ids if i not in partners]
            for t in rng.sample(rest, min(len(rest), rng.choice([1, 2, 2, 3]))):
                groups.append([t] + partners if rng.random() < 0.8 else partners + [t])
        else:
            g = rng.sample(ids, min(len(ids), rng.choice([2, 2, 3])))
            if rng.random() < 0.15:
                g.append(g[0])                               # an id repeated inside one group
            groups.append(g)
    if field is None and rng.random() < 0.3 and len(ids) >= 4:
        # two requests, each in several groups of pairwise equal shape, the groups of one request adjacent
        a, b = rng.sample(ids, 2)
        if rng.random() < 0.7:
            for f in KEY_FIELDS:                             # make them twins
                reqs[ids.index(b)][f] = copy.deepcopy(reqs[ids.index(a)][f])
        partners = rng.sample([i for i in ids if i not in (a, b)], 2)
        for x in (a, b):
            for pnr in partners:
                groups.append([x, pnr])
    if rng.random() < 0.3:
        rng.shuffle(groups)
    return {'kind': 'agg', 'requests': reqs, 'groups': groups, 'near_twin_field': field}


def drive_agg(case):
    import gnpy.topology.request as rqm
    rqs = []
    for r in case['requests']:
        o = _Req()
        for f in KEY_FIELDS:
            setattr(o, f, copy.deepcopy(r[f]))
        o.request_id, o.path_bandwidth, o.N, o.M = r['id'], r['bw'], list(r['N']), list(r['M'])
        rqs.append(o)
    dsj = [rqm.Disjunction(disjunction_id=str(k), relaxable=False, link_diverse=True, node_diverse=True,
                           disjunctions_req=list(g)) for k, g in enumerate(case['groups'])]
    before = [rq_snapshot(r) for r in rqs]
    dbefore = [list(d.disjunctions_req) for d in dsj]
    try:
        out, dout = rqm.requests_aggregation(rqs, dsj)
    except Exception as e:
        return {'in': before, 'din': dbefore, 'exc': type(e).__name__}
    return {'in': before, 'din': dbefore, 'out': [rq_snapshot(r) for r in out],
            'dout': [list(d.disjunctions_req) for d in dout]}


def agg_oracle(ag):
    """the aggregation clauses of the property on the implementation's own result"""
    fails = []
    ins = {r['id']: r for r in ag['in']}
    seen = {}
    for r in ag['out']:
        members = r['id'].split(' | ')
        for m in members:
            seen[m] = seen.get(m, 0) + 1
        if any(m not in ins for m in members):
            fails.append(('unknown_id', f'{r["id"]}'))
            continue
        if not close(sum(ins[m]['bw'] for m in members), r['bw']):
            fails.append(('bandwidth_not_summed', f'{r["id"]}: {r["bw"]}'))
        if len(members) > 1:
            if any({f: ins[m][f] for f in KEY_FIELDS} != {f: ins[members[0]][f] for f in KEY_FIELDS} for m in members):
                diff = [f for f in KEY_FIELDS if any(ins[m][f] != ins[members[0]][f] for m in members)]
                fails.append(('aggregated_differ_bidir' if diff == ['bidir'] else 'aggregated_not_identical',
                              f'{r["id"]}: members differ in {diff}'))
            if ins[members[0]]['tsp_mode'] is None:
                fails.append(('aggregated_without_mode', r['id']))
            if r['N'] != [x for m in members for x in ins[m]['N']] or r['M'] != [x for m in members for x in ins[m]['M']]:
                fails.append(('slots_not_concatenated', f'{r["id"]}: N={r["N"]} M={r["M"]}'))
    for i in ins:
        if seen.get(i, 0) != 1:
            fails.append(('id_not_once', f'request {i} appears {seen.get(i, 0)} times after aggregation'))
    return fails


# ------------------------------------------------------------------ Coq literals
def qdec(x):
    """the decimal that repr() prints for a float (what the JSON document contains), as an exact Q literal"""
    if isinstance(x, bool):
        raise ValueError('bool')
    if isinstance(x, int):
        return qlit(x)
    return qlit(Fraction(Decimal(repr(float(x)))))


def ostr(s):
    return 'None' if s is None else f'(Some {strlit(s)})'


def ozl(l):
    return 'None' if l is None else '(Some ' + listlit([zlit(x) for x in l]) + ')'


def qlist_cd(vals):
    """exact values of the floats, written over one common (power of two) denominator:  QA den [n1; n2; ...]"""
    fr = [Fraction(v) for v in vals]
    den = max([f.denominator for f in fr], default=1)
    return f'(QA {den} ' + listlit([zlit(f.numerator * (den // f.denominator)) for f in fr]) + ')'


def pen_lit(p):
    if p is None:
        return 'None'
    fr = [None if math.isinf(x) else Fraction(x) for x in p]
    den = max([f.denominator for f in fr if f is not None], default=1)
    return (f'(Some (FA {den} ' + listlit(['None' if f is None else f'(Some {zlit(f.numerator * (den // f.denominator))})'
                                          for f in fr]) + '))')


def rx_lit(f):
    if f is None:
        return 'None'
    return ('(Some (mkRx ' + ' '.join(qlist_cd(f[k]) for k in ('snr', 'snr01', 'osnr', 'osnr01'))
            + ' ' + ' '.join(pen_lit(f[k]) for k in ('pdl', 'cd', 'pmd')) + '))')


def obs_lit(o):
    hops = listlit([f'(mkHop {strlit(u)} {"true" if t else "false"})' for u, t in o['path']])
    return (f'(mkObs {strlit(o["id"])} {ostr(o["block"])} {"true" if o["bidir"] else "false"} {strlit(o["tsp"])} '
            f'{ostr(o["mode"])} {ozl(o["N"])} {ozl(o["M"])} {hops} {rx_lit(o["fwd"])} {rx_lit(o["rev"])} '
            f'{qdec(o["power"])} {qdec(o["bw"])})')


def _is_int(x):
    return isinstance(x, int) and not isinstance(x, bool)


def jlit(x):
    """Gallina literal of a JSON value.  Objects of the four shapes that make up a response are written with the
    macros JH / JL / JT / JM of Run/C19.v (which expand to the same term) after an exact check of keys and order."""
    if x is None:
        return 'JNull'
    if isinstance(x, bool):
        return f'(JBool {"true" if x else "false"})'
    if isinstance(x, (int, float)):
        return f'(JNum {qdec(x)})'
    if isinstance(x, str):
        return f'(JStr {strlit(x)})'
    if isinstance(x, list):
        return '(JArr ' + listlit([jlit(v) for v in x]) + ')'
    if isinstance(x, dict):
        keys = list(x.keys())
        if keys == ['path-route-object'] and isinstance(x['path-route-object'], dict):
            inner = x['path-route-object']
            ik = list(inner.keys())
            if len(ik) == 2 and ik[0] == 'index' and _is_int(inner['index']):
                i, v = inner['index'], inner[ik[1]]
                if ik[1] == 'num-unnum-hop' and isinstance(v, dict) and list(v.keys()) == ['node-id', 'link-tp-id'] \
                        and all(isinstance(u, str) for u in v.values()):
                    return f'(JH {zlit(i)} {strlit(v["node-id"])} {strlit(v["link-tp-id"])})'
                if ik[1] == 'label-hop' and isinstance(v, list) and all(
                        isinstance(e, dict) and list(e.keys()) == ['N', 'M'] and _is_int(e['N']) and _is_int(e['M'])
                        for e in v):
                    return f'(JL {zlit(i)} ' + listlit([f'({zlit(e["N"])}, {zlit(e["M"])})' for e in v]) + ')'
                if ik[1] == 'transponder' and isinstance(v, dict) and \
                        list(v.keys()) == ['transponder-type', 'transponder-mode'] and \
                        isinstance(v['transponder-type'], str) and \
                        (v['transponder-mode'] is None or isinstance(v['transponder-mode'], str)):
                    return f'(JT {zlit(i)} {strlit(v["transponder-type"])} {ostr(v["transponder-mode"])})'
        if keys == ['metric-type', 'accumulative-value'] and isinstance(x['metric-type'], str):
            return f'(JM {strlit(x["metric-type"])} {jlit(x["accumulative-value"])})'
        return '(JObj ' + listlit([f'({strlit(k)}, {jlit(v)})' for k, v in x.items()]) + ')'
    raise ValueError(type(x))


def eqp_prelude():
    lines = ['From Coq Require Import QArith.', 'Open Scope Z_scope.']
    for k, e in enumerate(eqpt_variants()):
        ents = []
        for t in e['Transceiver']:
            ms = listlit([f'(mkMode {strlit(m["format"])} {qdec(m["OSNR"])} {qdec(m["baud_rate"])} '
                          f'{qdec(m["bit_rate"])} {qdec(m["cost"])})' for m in t['mode']])
            ents.append(f'({strlit(t["type_variety"])}, {ms})')
        lines.append(f'Definition eqp{k} : eqpt := {listlit(ents)}.')
        lines.append(f'Definition margin{k} : Q := {qdec(e["SI"][0]["sys_margins"])}.')
    return '\n'.join(lines)


def fld_lit(v):
    if v is None:
        return 'FNone'
    if isinstance(v, bool):
        return f'(FBool {"true" if v else "false"})'
    if isinstance(v, str):
        return f'(FStr {strlit(v)})'
    if isinstance(v, list):
        return '(FList ' + listlit([strlit(x) for x in v]) + ')'
    return f'(FNum {qlit(v)})'


def ozlist(l):
    return listlit(['None' if x is None else f'(Some {zlit(x)})' for x in l])


def agg_term(agg):
    rs = []
    for tag, r in enumerate(agg['in']):
        key = listlit([fld_lit(r[f]) for f in KEY_FIELDS])
        rs.append(f'(ar {tag} {strlit(r["id"])} {key} {"true" if r["tsp_mode"] is not None else "false"} '
                  f'{qlit(r["bw"])} {ozlist(r["N"])} {ozlist(r["M"])} {"true" if r["bidir"] else "false"})')
    ds = listlit([listlit([strlit(x) for x in d]) for d in agg['din']])
    return f'agg_s {listlit(rs)} {ds}'


# ------------------------------------------------------------------ judging helpers
def has_bad_number(x):
    if isinstance(x, float):
        return math.isinf(x) or math.isnan(x)
    if isinstance(x, list):
        return any(has_bad_number(v) for v in x)
    if isinstance(x, dict):
        return any(has_bad_number(v) for v in x.values())
    return False


def near_tie(x):
    """is the exact value x (Fraction) within 1e-9 of a two-decimal rounding tie?"""
    t = x * 100
    fr = t - math.floor(t)
    return abs(fr - Fraction(1, 2)) < Fraction(1, 10 ** 7)


def fig_ties(f):
    if f is None:
        return False
    for k in ('snr', 'snr01', 'osnr', 'osnr01'):
        a = [Fraction(v) for v in f[k]]
        if not a or any(math.isinf(v) or math.isnan(v) for v in f[k]):
            return True
        if near_tie(sum(a) / len(a)):
            return True
    a = [Fraction(v) for v in f['snr01']]
    if near_tie(min(a)) or near_tie(max(a)):
        return True
    for k in ('pdl', 'cd', 'pmd'):
        if f[k] is not None:
            if any(math.isnan(v) for v in f[k]) or not f[k]:
                return True
            if not any(math.isinf(v) for v in f[k]):
                a = [Fraction(v) for v in f[k]]
                if near_tie(sum(a) / len(a)):
                    return True
    return False


def parse_q(s):
    n, d = s.split('/')
    return Fraction(int(n), int(d))


def unrender(txt):
    def hook(d):
        if len(d) == 1 and '$q' in d:
            return parse_q(d['$q'])
        return d
    return json.loads(txt, object_hook=hook)


def close(a, b, tol=1e-9):
    return abs(float(a) - float(b)) <= tol * max(1.0, abs(float(a)), abs(float(b)))


def metric_value(pm, name):
    return next((e['accumulative-value'] for e in pm if e['metric-type'] == name), None)


def path_props(resp):
    if 'path-properties' in resp:
        return resp['path-properties']
    return resp.get('no-path', {}).get('path-properties')


def csv_compare(model_line, row, skip_fields):
    """model row ('name=cell' tab separated) vs csv.DictReader row; returns list of differing fields"""
    if model_line.startswith('E:'):
        return [('__exc__', model_line, row.get('__exc__'))] if row.get('__exc__') != model_line[2:].split(':')[0] else []
    if '__exc__' in row:
        return [('__exc__', 'row', row['__exc__'])]
    cells = {}
    for ent in model_line.split('\t'):
        name, _, c = ent.partition('=')
        cells[name] = c
    diffs = []
    for name, txt in row.items():
        if name in skip_fields:
            continue
        c = cells.get(name, 'E')
        ok = False
        if c == 'E':
            ok = txt == ''
        elif c[0] == 'S':
            ok = txt == c[1:]
        elif c[0] == 'B':
            ok = txt == ('True' if c[1] == 'T' else 'False')
        elif c[0] == 'N':
            try:
                ok = close(parse_q(c[1:]), float(txt))
            except ValueError:
                ok = False
        if not ok:
            diffs.append((name, c, txt))
    for name in cells:
        if name not in row:
            diffs.append((name, cells[name], None))
    return diffs


def csv_skips(resp, k):
    """fields of the row that sit on a float comparison threshold / rounding tie and are not judged"""
    skips = set()
    pp = path_props(resp)
    if not pp:
        return skips
    e = eqpt_variants()[k]
    margin = e['SI'][0]['sys_margins']
    pm = pp['path-metric']
    smin = metric_value(pm, 'lowest_SNR-0.1nm')
    try:
        tsp = next(o['path-route-object']['transponder'] for o in pp['path-route-objects']
                   if 'transponder' in o['path-route-object'])
        md = next(m for t in e['Transceiver'] if t['type_variety'] == tsp['transponder-type']
                  for m in t['mode'] if m['format'] == tsp['transponder-mode'])
        thr = md['OSNR'] + margin
        exact = Fraction(Decimal(repr(md['OSNR']))) + Fraction(Decimal(repr(margin))) == Fraction(Decimal(repr(thr)))
        if isinstance(smin, (int, float)) and abs(smin - thr) < 1e-9 and not (smin == thr and exact):
            skips.add('Pass?')
        bw = metric_value(pm, 'path_bandwidth')
        q = Fraction(Decimal(repr(round(bw * 1e-9, 2)))) / Fraction(Decimal(repr(round(md['bit_rate'] * 1e-9, 2))))
        if q.denominator != 1 and abs(q - round(q)) < Fraction(1, 10 ** 9):
            skips.update(['nb of tsp pairs', 'total cost'])
        if near_tie(Fraction(bw) / 10 ** 9):
            skips.update(['path_bandwidth', 'nb of tsp pairs', 'total cost'])
    except (StopIteration, KeyError, TypeError):
        pass
    p = metric_value(pm, 'reference_power')
    if isinstance(p, (int, float)) and p > 0 and near_tie(Fraction(10 * math.log10(p) + 30)):
        skips.add('input power (dBm)')
    return skips


def pdbm_of(resp):
    pp = path_props(resp)
    if not pp:
        return 0.0
    p = metric_value(pp['path-metric'], 'reference_power')
    if isinstance(p, (int, float)) and p > 0:
        return 10 * math.log10(p) + 30
    return 0.0


def round2_exact(x):
    """round-half-even of an exact value to two decimals; None within 1e-9 of a tie"""
    if near_tie(x):
        return None
    return Fraction(round(x * 100), 100)


def csv_bandwidth_oracle(resp, row, k):
    """the bandwidth columns of a served row, from the response document itself: path_bandwidth = the response's
    path_bandwidth in Gbit/s (2 decimals), nb of tsp pairs = ceil(that / bit rate of the mode in Gbit/s), total cost =
    pairs x cost of the mode"""
    fails = []
    pp = resp['path-properties']
    bw = metric_value(pp['path-metric'], 'path_bandwidth')
    want = round2_exact(Fraction(bw) / 10 ** 9) if isinstance(bw, (int, float)) else None
    if want is None:
        return fails
    try:
        got = Fraction(Decimal(row['path_bandwidth']))
    except Exception:
        return [('csv_bandwidth', f'path_bandwidth column {row["path_bandwidth"]!r} for {bw!r} bit/s')]
    if abs(got - want) > Fraction(1, 10 ** 9):
        fails.append(('csv_bandwidth', f'the response states {bw!r} bit/s, the CSV says {row["path_bandwidth"]} Gbit/s '
                                       f'(expected {float(want)})'))
    try:
        tsp = next(o['path-route-object']['transponder'] for o in pp['path-route-objects']
                   if 'transponder' in o['path-route-object'])
        md = next(m for t in eqpt_variants()[k]['Transceiver'] if t['type_variety'] == tsp['transponder-type']
                  for m in t['mode'] if m['format'] == tsp['transponder-mode'])
    except StopIteration:
        return fails
    br = round2_exact(Fraction(md['bit_rate']) / 10 ** 9)
    if br is None or br == 0:
        return fails
    q = want / br
    if q.denominator != 1 and abs(q - round(q)) < Fraction(1, 10 ** 9):
        return fails
    nb = math.ceil(q)
    if row['nb of tsp pairs'] != str(nb):
        fails.append(('csv_tsp_count', f'{float(want)} Gbit/s at {float(br)} Gbit/s per transponder pair needs {nb} pairs, '
                                       f'the CSV says {row["nb of tsp pairs"]}'))
    else:
        try:
            if not close(float(row['total cost']), nb * md['cost']):
                fails.append(('csv_total_cost', f'{nb} pairs x cost {md["cost"]}: the CSV says {row["total cost"]}'))
        except ValueError:
            fails.append(('csv_total_cost', f'total cost column {row["total cost"]!r}'))
    return fails


# ------------------------------------------------------------------ batch-level oracle (Python, on observations)
def batch_oracle(case, drv):
    fails = []
    reqs = {r['request-id']: r for r in case['services']['path-request']}
    ref = {r['id']: r for r in drv['ref']['in']} if drv.get('ref') else None
    if ref is not None:
        # identical requests ARE aggregated: two fixed-mode requests whose harmonised forms agree on every compared
        # field and that sit in no synchronisation group must be reported under one joined id
        grouped = {x for d in drv['ref']['din'] for x in d}
        where = {}
        for r in drv['responses']:
            if r is not None:
                for part in r['response-id'].split(' | '):
                    where[part] = r['response-id']
        ids = [i for i in ref if i in where and i not in grouped and ref[i]['tsp_mode'] is not None]
        for x in range(len(ids)):
            for y in range(x + 1, len(ids)):
                a, b = ids[x], ids[y]
                if where[a] != where[b] and all(ref[a][f] == ref[b][f] for f in KEY_FIELDS):
                    fails.append(('identical_not_aggregated',
                                  f'requests {a} and {b} are identical once their route lists are harmonised (fixed '
                                  f'mode {ref[a]["tsp_mode"]}, no synchronisation group) but are reported separately '
                                  f'as {where[a]!r} and {where[b]!r}'))
    resp_ids = [r['response-id'] for r in drv['responses'] if r is not None]
    seen = {}
    for rid in resp_ids:
        for part in rid.split(' | '):
            seen[part] = seen.get(part, 0) + 1
    for i in reqs:
        if seen.get(i, 0) != 1:
            fails.append(('id_not_once', f'request {i} appears {seen.get(i, 0)} times in the response ids {resp_ids}'))
    for part in seen:
        if part not in reqs:
            fails.append(('unknown_id', f'response id part {part!r} is no request'))
    for o, resp in zip(drv['obs'], drv['responses']):
        if resp is None:
            continue
        members = o['id'].split(' | ')
        if any(m not in reqs for m in members):
            continue
        if len(members) > 1 and ref is not None:
            diff = [f for f in KEY_FIELDS if any(ref[m][f] != ref[members[0]][f] for m in members)]
            if diff:
                key = 'aggregated_differ_bidir' if diff == ['bidir'] else 'aggregated_not_identical'
                fails.append((key, f'requests {members} are reported under one id but are not identical '
                                   f'(their harmonised forms differ in {diff})'))
        if len(members) > 1:
            tot = sum(reqs[m]['path-constraints']['te-bandwidth']['path_bandwidth'] for m in members)
            if not close(tot, o['bw']):
                fails.append(('bandwidth_not_summed', f'{o["id"]}: {o["bw"]} != sum {tot}'))
            if reqs[members[0]]['path-constraints']['te-bandwidth']['trx_mode'] is None:
                fails.append(('aggregated_without_mode', f'{o["id"]}'))
        pp = path_props(resp)
        # both directions for every bidirectional member
        if pp is not None:
            for m in members:
                if reqs[m]['bidirectional'] and 'z-a-path-metric' not in pp:
                    same = len(members) > 1 and any(not reqs[x]['bidirectional'] for x in members)
                    fails.append(('aggregated_differ_bidir' if same else 'bidir_without_reverse',
                                  f'request {m} is bidirectional, response {o["id"]} has no z-a-path-metric'))
                    break
            bwv = metric_value(pp['path-metric'], 'path_bandwidth')
            tot = sum(reqs[m]['path-constraints']['te-bandwidth']['path_bandwidth'] for m in members)
            if not close(tot, bwv):
                fails.append(('bandwidth_not_summed', f'{o["id"]}: reported {bwv} != sum {tot}'))
        # what was computed, seen at the stage boundaries
        if o['block'] is None or o['block'] not in NOPATH:
            if o['path']:
                if o['path'][0][0] != o['source'] or o['path'][-1][0] != o['destination'] or not o['path'][-1][1] \
                        or not o['path'][0][1]:
                    fails.append(('path_ends', f'{o["id"]}: path {o["path"][0]}..{o["path"][-1]}'))
            if o['bidir'] and o['rev_ends'] != [o['destination'], o['source']]:
                fails.append(('reverse_ends', f'{o["id"]}: reverse path ends {o["rev_ends"]}'))
            calls = [p for p in drv['props'] if p[0] == o['id']]
            fw = [p for p in calls if p[1] == o['source'] and p[2] == o['destination']]
            if not fw or fw[-1][3] != o['fwd']:
                fails.append(('receiver_not_propagated', f'{o["id"]}: forward receiver figures are not those of the last '
                                                         'propagation of this request'))
            if o['bidir']:
                rv = [p for p in calls if p[1] == o['destination'] and p[2] == o['source']]
                if not rv or rv[-1][3] != o['rev']:
                    fails.append(('receiver_not_propagated', f'{o["id"]}: reverse receiver figures'))
            if o['id'] in drv['modes'] and drv['modes'][o['id']] is not None and drv['modes'][o['id']] != o['mode']:
                fails.append(('mode_not_selected', f'{o["id"]}: mode {o["mode"]} but the mode search returned '
                                                   f'{drv["modes"][o["id"]]}'))
        if o['block'] != o['block_at_assign'] or o['N'] != o['N_final'] or o['M'] != o['M_final']:
            fails.append(('changed_after_assignment', f'{o["id"]}: outcome changed after spectrum assignment'))
        if o['block'] is None and (o['N'] is None or o['M'] is None or len(o['N']) != len(o['M'])
                                   or any(not isinstance(x, int) for x in o['N'] + o['M'])):
            fails.append(('served_without_labels', f'{o["id"]}: N={o["N"]} M={o["M"]}'))
    # CSV: pass flag and reason
    if drv['csv'] is not None:
        for o, resp, row in zip(drv['obs'], drv['responses'], drv['csv']):
            if row['response-id'] != o['id']:
                fails.append(('csv_id', f'{o["id"]}: csv row id {row["response-id"]}'))
            if o['block'] is None:
                for key, desc in csv_bandwidth_oracle(resp, row, case['eq']):
                    fails.append((key, f'{o["id"]}: {desc}'))
                if row['Pass?'] != 'True' and 'Pass?' not in csv_skips(resp, case['eq']):
                    fails.append(('csv_pass', f'{o["id"]} is served but the CSV says Pass?={row["Pass?"]}'))
                if row['spectrum (N,M)'] != f'{o["N"]}, {o["M"]}':
                    fails.append(('csv_spectrum', f'{o["id"]}: {row["spectrum (N,M)"]}'))
            else:
                if row['Pass?'] != o['block']:
                    fails.append(('csv_pass', f'{o["id"]} is blocked {o["block"]} but the CSV says {row["Pass?"]}'))
                if row['spectrum (N,M)'] != '':
                    fails.append(('csv_spectrum', f'{o["id"]} blocked: {row["spectrum (N,M)"]}'))
            pp = path_props(resp)
            if pp is not None:
                if (row['source'], row['destination']) != (o['source'], o['destination']):
                    fails.append(('csv_ends', f'{o["id"]}: {row["source"]} -> {row["destination"]}'))
                if (row['transponder-type'], row['transponder-mode']) != (o['tsp'], o['mode']):
                    fails.append(('csv_mode', f'{o["id"]}: {row["transponder-type"]} {row["transponder-mode"]}'))
                if row['path'] != ' | '.join(u for u, _ in o['path']):
                    fails.append(('csv_path', f'{o["id"]}'))
                if (row['reversed path SNR-0.1nm (min)'] != '') != bool(o['bidir']):
                    fails.append(('csv_reverse', f'{o["id"]}: reversed columns vs bidir={o["bidir"]}'))
                pw = metric_value(pp['path-metric'], 'reference_power')
                if isinstance(pw, (int, float)) and pw > 0 and row.get('input power (dBm)', '') != '' \
                        and 'input power (dBm)' not in csv_skips(resp, case['eq']):
                    want = round(10 * math.log10(pw) + 30, 2)
                    try:
                        got = float(row['input power (dBm)'])
                    except ValueError:
                        got = None
                    if got is None or abs(got - want) > 1e-9:
                        fails.append(('csv_input_power', f'{o["id"]}: the response states reference_power {pw!r} W = {want} dBm, '
                                                         f'the CSV says input power {row["input power (dBm)"]} dBm'))
    elif drv['csv_exc']:
        fails.append(('csv_exception', drv['csv_exc']))
    return fails


# ------------------------------------------------------------------ run
def slim(case):
    return {k: v for k, v in case.items() if not k.startswith('_')}


# F14 (compare_reqs ignored bidir) is fixed in /repo (098fa997); corpus/C19/f14_bidir_lost_in_aggregation.json is the
# regression case, oracle key `aggregated_differ_bidir`.  No open known finding for C19.
MATCHERS = {}


def run(ctx):
    import random
    logging.disable(logging.CRITICAL)
    rng = ctx.rng
    # second tie: re-translate the reporting / aggregation / planning fragments of /repo's source (harness/pygen_c19.py);
    # the equivalence lemmas of Proofs/ResponseGen.v are then re-checked by check_props against what the code says now
    from . import pygen_c19
    gen_ok, gen_msg = pygen_c19.regenerate()
    ctx.proof = common.check_props('C19')
    if not gen_ok:
        ctx.proof['ok'] = False
        ctx.proof['log'] = 'harness/pygen_c19.py: ' + gen_msg + '\n' + ctx.proof.get('log', '')
        ctx.proof['failed_file'] = 'theories/Gen/ResponseGen.v (translation of /repo source failed)'
    ctx.rule = ('random ROADM meshes (2-6 sites, 1-9 spans per line, optionally disconnected) x 5 equipment variants '
                '(margins, penalties, thresholds) x random batches of 1-7 requests (fixed/free mode, fixed/free/multi-slot '
                'N,M, bidirectional, duplicates, synchronisation vectors, include constraints) through the real planning, '
                'results_to_json and jsontocsv; one evaluation = one reported request judged by the Coq validator; '
                'non-trivial = a batch with at least two different outcomes or an aggregated / bidirectional request')
    cases = []
    for f in sorted(glob.glob(os.path.join(common.VERIF, 'corpus', 'C19', '*.json'))):
        c = json.load(open(f))
        c['_corpus'] = os.path.basename(f)
        cases.append(c)
    if ctx.replay:
        cases = [json.load(open(ctx.replay))['case']]
    else:
        cases += [gen_case(rng) for _ in range(ctx.scale(65, 1300))]
    terms, meta = [], []

    def add(kind, term, *info):
        terms.append(term)
        meta.append((kind,) + info)
    agg_cases = [c for c in cases if c.get('kind') == 'agg']
    cases = [c for c in cases if c.get('kind') != 'agg']
    if not ctx.replay:
        # every other case holds a pair that differs in exactly one compared field; the fields are walked through
        agg_cases += [gen_agg_case(rng, KEY_FIELDS[(j // 2) % len(KEY_FIELDS)] if j % 2 else None)
                      for j in range(ctx.scale(272, 5100))]
    for c in agg_cases:
        ag = drive_agg(c)
        sc = slim(c)
        ctx.count('aggregation_alone')
        if c.get('near_twin_field'):
            ctx.count('near_twin_' + c['near_twin_field'])
        if 'exc' in ag:
            ctx.violation('aggregation_exception', f'requests_aggregation raised {ag["exc"]}', sc)
            continue
        ctx.case(sc, len(ag['out']) < len(ag['in']))
        ctx.count('aggregated_away', len(ag['in']) - len(ag['out']))
        if c['groups']:
            ctx.count('aggregation_with_groups')
        for key, desc in agg_oracle(ag):
            ctx.violation(key, desc, sc)
        add('agg', agg_term(ag), sc, ag)
    for c in cases:
        drv = drive(c)
        sc = slim(c)
        if drv.get('agg'):
            ag = drv['agg']
            ctx.count('aggregation_runs')
            ctx.count('aggregated_away', len(ag['in']) - len(ag['out']))
            add('agg', agg_term(ag), sc, ag)
        if 'exception' in drv:
            ctx.count('batch_refused_' + drv['exception'].split(':')[0])
            continue
        outcomes = set()
        for o in drv['obs']:
            oc = o['block'] or 'served'
            outcomes.add(oc)
            ctx.count('outcome_' + oc)
            if o['bidir']:
                ctx.count('bidirectional')
            if o.get('tx_power') is not None and o['tx_power'] != o['power']:
                ctx.count('tx_power_differs_from_power')
            if (Fraction(o['bw']) / 10 ** 9).denominator != 1:
                ctx.count('bandwidth_not_whole_gbit')
            if ' | ' in o['id']:
                ctx.count('aggregated')
            if o['block'] is None and len(o['N']) > 1:
                ctx.count('multi_slot')
        nontriv = len(outcomes) > 1 or any(o['bidir'] or ' | ' in o['id'] for o in drv['obs'])
        for key, desc in batch_oracle(c, drv):
            ctx.violation(key, desc, sc)
        k = c['eq']
        for j, (o, resp, exc) in enumerate(zip(drv['obs'], drv['responses'], drv['resp_exc'])):
            ctx.case({'case': sc, 'request': j}, nontriv)
            if exc is not None:
                ctx.violation('response_exception', f'{o["id"]}: {exc}', sc)
                continue
            if has_bad_number(resp) or fig_ties(o['fwd']) or fig_ties(o['rev']):
                ctx.count('skipped_tie_or_nonfinite')
                continue
            add('resp', f'check_all {obs_lit(o)} {jlit(resp)} eqp{k} margin{k} {qlit(pdbm_of(resp))}', sc, o['id'], o, resp,
                drv['csv'][j] if drv['csv'] is not None else None, csv_skips(resp, k))
        drng = random.Random(c.get('direct_seed', 0))
        for (o, resp, exc, row) in direct_variants(drng, drv):
            ctx.count('direct_' + o['kind'])
            ctx.count('direct_outcome_' + (o['block'] or 'served'))
            if resp is None:
                add('raise', f'check_raise {obs_lit(o)}', sc, o['id'], o, exc)
                continue
            if has_bad_number(resp) or fig_ties(o['fwd']) or fig_ties(o['rev']):
                ctx.count('skipped_tie_or_nonfinite')
                continue
            add('resp', f'check_all {obs_lit(o)} {jlit(resp)} eqp{k} margin{k} {qlit(pdbm_of(resp))}', sc,
                o['id'] + ' (direct ' + o['kind'] + ')', o, resp, row, csv_skips(resp, k))
        for (r2, row, thr) in (csv_threshold_variants(drng, drv, k) if drng.random() < 0.35 else []):
            if has_bad_number(r2):
                continue
            ctx.count('csv_threshold_rows')
            bad = csv_pass_oracle(r2, row, thr)
            if bad:
                ctx.violation('csv_pass_threshold', f'response {r2["response-id"]}: {bad}', sc, response=r2,
                              csv_row={kk: v for kk, v in row.items() if v != ''})
            add('csvonly', f'csv_s eqp{k} margin{k} {qlit(pdbm_of(r2))} {jlit(r2)}', sc, r2['response-id'], r2, row,
                csv_skips(r2, k))
    lines = common.coq_eval('C19', 'Prelude Model.Response Run.C19', terms, per_file=60, prelude=eqp_prelude())
    for m, line in zip(meta, lines):
        kind, sc = m[0], m[1]
        if kind == 'resp':
            _, _, rid, o, resp, row, skips = m
            line, _, csv_line = line.partition('@@')
            v, _, rest = line.partition(';')
            x, _, g = rest.partition(';')
            ctx.count('validated')
            if v != 'V:T':
                ctx.violation('response_not_ok', f'request {rid}: the response does not state what was computed '
                                                 f'(validator response_ok = false)', sc, obs=o, response=resp)
            elif x != 'X:T':
                ctx.violation('response_not_exact', f'request {rid}: the response states something besides what was '
                                                    f'computed (extra key or metric entry: response_exact = false)',
                              sc, obs=o, response=resp)
            if g != 'G:T':
                ctx.corr_break('corr:Response.pathresult', f'request {rid}: model response differs at {g[4:][:300]}', sc,
                               impl=resp, model=g[:400])
            if row is not None:
                ctx.count('csv_rows')
                if skips:
                    ctx.count('csv_fields_skipped_threshold', len(skips))
                d = csv_compare(csv_line, row, skips)
                if d:
                    ctx.corr_break('corr:Response.csv_row', f'request {rid}: CSV fields differ: {d[:4]}', sc,
                                   impl={x[0]: x[2] for x in d}, model={x[0]: x[1] for x in d})
        elif kind == 'csvonly':
            _, _, rid, resp, row, skips = m
            if 'Pass?' in skips:
                ctx.count('csv_threshold_skipped')
            d = csv_compare(line, row, skips)
            if d:
                ctx.corr_break('corr:Response.csv_row', f'request {rid} (threshold variant): CSV fields differ: {d[:4]}',
                               sc, impl={x[0]: x[2] for x in d}, model={x[0]: x[1] for x in d})
        elif kind == 'raise':
            _, _, rid, o, exc = m
            ctx.count('raises_compared')
            if not line.startswith('G:E:') or line[4:].split(':')[0] != exc:
                ctx.corr_break('corr:Response.pathresult', f'request {rid}: implementation raised {exc}', sc,
                               impl=exc, model=line[:200])
        elif kind == 'agg':
            _, _, ag = m
            left, _, right = line.partition('##')
            mo = [x.split('\t') for x in left.split(';;')] if left else []
            md = [x.split('\t') if x else [] for x in right.split(';;')] if right else []
            ok = len(mo) == len(ag['out']) and md == ag['dout']
            if ok:
                ids_in = [r['id'] for r in ag['in']]
                for a, r in zip(mo, ag['out']):
                    ok = ok and a[0] == r['id'] and ' | '.join(ids_in[int(t)] for t in a[1].split(',')) == r['id'] \
                        and close(parse_q(a[2]), r['bw']) \
                        and a[3] == '[' + ','.join('N' if x is None else str(x) for x in r['N']) + ']' \
                        and a[4] == '[' + ','.join('N' if x is None else str(x) for x in r['M']) + ']' \
                        and a[5] == ('T' if r['bidir'] else 'F')
            if not ok:
                ctx.corr_break('corr:Response.requests_aggregation', 'aggregation differs', sc,
                               impl={'out': [(r['id'], r['bw'], r['N'], r['M']) for r in ag['out']], 'disj': ag['dout']},
                               model=line[:2000])
    ctx.assumptions += [
        'translator tie: harness/pygen_c19.py (fail-closed Python-ast -> Gallina: dict literals of ResultElement.pathresult / '
        'path_properties / detailed_path_json -> JObj terms, the metric list, get_penalty_from_receiver, the blocking-class '
        'tests and the Pass? expression of jsontocsv, the columns of _jsontopath_metric, the comparison chain of '
        'compare_reqs, the absorb condition / joined id / sums of requests_aggregation, the step sequence of planning; the '
        'surrounding control flow is matched statement by statement against templates) is trusted; try/except '
        'AttributeError on blocking_reason is read as the served case; round(mean(array with inf), 2) + isinf is read as '
        'the model\'s all-finite case split',
        'observations are taken at the stage boundaries of planning() (return of compute_path_with_disjunction, state '
        'of the request objects after pth_assign_spectrum, return of propagate / propagate_and_optimize_mode)',
        'a float of the response document is read as the decimal printed by repr(); receiver arrays as exact floats; '
        'responses whose exact mean lies within 1e-9 of a two-decimal rounding tie are not judged',
        'watt2dbm(reference power) enters the CSV model as 10*math.log10(p)+30 computed by the harness',
    ]
    return common.finish(ctx, MATCHERS)
