"""C11 — every computed route is a real, loop-free, constraint-respecting shortest path.

Tie (DESIGN §4(b)): random ROADM meshes are built and auto-designed by gnpy, random requests with include lists
(ROADMs and line elements, LOOSE/STRICT mixes, satisfiable or not, looping, malformed names) are driven through the real
`correct_json_route_list` + `compute_path_dsjctn` (which calls `compute_constrained_path`) and `find_reversed_path`.
The observed graph (networkx adjacency with its weights), the request and the returned path go to Coq where
  * the proved validator `route_ok` judges the path (walk, loop-free, ends, includes in order),
  * the proved-complete reference `model_route` (DFS enumeration of every simple path) gives the optimum weight, the
    block reason and the LOOSE fall-back the specification demands  (oracle),
  * the faithful model `model_ccp` (explicit_path first, then the search) is compared outcome by outcome (correspondence),
  * on large meshes (no enumeration) optimality is judged by the proved dual-potential certificate `potential_ok`.
Weights: integer centimetres, w_cm = round(100 * weight_in_m): the 0.01 non-fibre hops are exactly 1, fibre lengths are
generated as multiples of 60 m so that the splits of the auto-design stay exact (checked per case, inexact cases skipped).
"""
import copy
import glob
import itertools
import json
import logging
import os

from . import common
from .common import zlit, listlit, strlit

_EQ = None


def eqpt():
    global _EQ
    if _EQ is None:
        from pathlib import Path
        import gnpy
        from gnpy.tools.json_io import load_equipment
        logging.disable(logging.CRITICAL)
        _EQ = load_equipment(Path(gnpy.__file__).parent / 'example-data' / 'eqpt_config.json')
    return _EQ


# ------------------------------------------------------------------ topology generator
def site_name(i):
    return chr(65 + i) if i < 26 else f'S{i}'


def gen_topo(rng, n, extra, maxlen_km=180, fused_p=0.1, amp_p=0.15, cut=False, patch_p=0.0, raman=False):
    """compact description of a ROADM mesh: n sites (trx + roadm each), a random spanning tree + `extra` more lines,
    every line has 1-3 spans per direction with independent lengths (multiples of 60 m), Fused / declared amplifiers
    between and after the spans; patch_p = share of fibre-less hops (two ROADMs patched through a Fused or a bare
    amplifier); raman = some spans are RamanFiber, most of them followed by a declared amplifier"""
    names = [site_name(i) for i in range(n)]
    order = names[:]
    rng.shuffle(order)
    pairs = set()
    for i in range(1, n):
        pairs.add(tuple(sorted((order[i], rng.choice(order[:i])))))
    tries = 0
    while len(pairs) < n - 1 + extra and tries < 200:
        a, b = rng.sample(names, 2)
        pairs.add(tuple(sorted((a, b))))
        tries += 1

    def spans():
        k = rng.choice([1, 1, 1, 2, 2, 3])
        out = []
        for _ in range(k):
            r = rng.random()
            if r < 0.08:
                ln = 60 * rng.randint(1, 50)                  # 60 m .. 3 km
            elif r < 0.93 or raman:
                ln = 60 * rng.randint(100, int((110 if raman else maxlen_km) * 1000 / 60))
            else:
                ln = 60 * rng.randint(2500, 7000)             # 150 .. 420 km: auto-design splits it
            out.append(ln)
        return out

    def decor(sp):
        """what follows each span (the last entry sits in front of the ROADM) and the kind of each span"""
        m, kinds = [], []
        for k in range(len(sp)):
            last = k == len(sp) - 1
            r = rng.random()
            if last:
                c = 'A' if r < 0.12 else 'F' if r < 0.15 else '-'
            else:
                c = 'F' if r < fused_p else 'A' if r < fused_p + amp_p else 'G' if r < fused_p + amp_p + 0.05 else '-'
            kind = 'f'
            if raman and rng.random() < 0.35:
                kind = 'r'
                if rng.random() < 0.8:
                    c = 'A'                                   # already declared amplifier: design keeps the loaded edge
            m.append(c)
            kinds.append(kind)
        return ''.join(m), ''.join(kinds)
    if cut and len(pairs) > 1:
        # drop one or two lines (possibly disconnecting the mesh: NO_PATH must then be reported)
        for _ in range(rng.randint(1, 2)):
            if len(pairs) > 1:
                pairs.discard(rng.choice(sorted(pairs)))
    lines = []
    for (a, b) in sorted(pairs):
        if rng.random() < patch_p:
            c = rng.choice('FA')
            lines.append({'a': a, 'b': b, 'ab': [], 'ba': [], 'mab': c, 'mba': c if rng.random() < 0.7 else rng.choice('FA')})
            continue
        ab, ba = spans(), spans()
        if rng.random() < 0.25:
            ba = list(reversed(ab))                           # symmetric line
        (mab, tab), (mba, tba) = decor(ab), decor(ba)
        ln = {'a': a, 'b': b, 'ab': ab, 'ba': ba, 'mab': mab, 'mba': mba}
        if raman:
            ln.update(tab=tab, tba=tba)
        lines.append(ln)
    if lines and all(not ln['ab'] and not ln['ba'] and 'A' not in ln['mab'] + ln['mba'] for ln in lines):
        # every hop is a Fused patch: the network would hold no amplifier at all and gnpy's build_oms_list has no band to
        # start from (find_network_freq_range: min() of an empty list -- a matter of C15, not of the routing properties).
        # Such a mesh is not generated: one hop gets a fibre line (auto-design then adds its amplifiers).
        GEN_STATS['mesh_without_amplifier_not_generated'] = GEN_STATS.get('mesh_without_amplifier_not_generated', 0) + 1
        ab, ba = spans(), spans()
        (mab, tab), (mba, tba) = decor(ab), decor(ba)
        lines[0].update(ab=ab, ba=ba, mab=mab, mba=mba)
        if raman:
            lines[0].update(tab=tab, tba=tba)
    return {'n': n, 'lines': lines}


GEN_STATS = {}


def try_net(ctx, topo):
    """a topology the harness cannot prepare (load, auto-design, OMS list) is counted and skipped, never a crash"""
    try:
        return Net(topo)
    except Exception as e:  # noqa
        ctx.count('topology_not_prepared_' + type(e).__name__)
        if sum(1 for n_ in ctx.notes if n_.startswith('not prepared:')) < 3:
            ctx.notes.append(f'not prepared: {type(e).__name__}: {str(e)[:160]} on ' + json.dumps(topo)[:600])
        return None


def topo_json(topo):
    """line description, per direction: lengths 'ab' (metres; [] = fibre-less hop), what follows each span 'mab'
    ('-' nothing declared, 'F' Fused, 'A' declared Edfa, 'G' Fused then declared Edfa; one entry per span, the last one
    sits before the ROADM and may be omitted; for a fibre-less hop the single patch element 'F' or 'A'), span kinds 'tab'
    ('f' Fiber, 'r' RamanFiber; optional)"""
    els, cx = [], []
    for i in range(topo['n']):
        x = site_name(i)
        els += [{'uid': f'trx {x}', 'type': 'Transceiver'}, {'uid': f'roadm {x}', 'type': 'Roadm'}]
        cx += [(f'trx {x}', f'roadm {x}'), (f'roadm {x}', f'trx {x}')]

    def fused(u):
        return {'uid': u, 'type': 'Fused', 'params': {'loss': 0.5}}

    def edfa(u):
        return {'uid': u, 'type': 'Edfa', 'type_variety': 'std_medium_gain',
                'operational': {'gain_target': None, 'tilt_target': 0}}
    for ln in topo['lines']:
        for (s, t, sp, mid, kinds) in ((ln['a'], ln['b'], ln['ab'], ln['mab'], ln.get('tab', '')),
                                       (ln['b'], ln['a'], ln['ba'], ln['mba'], ln.get('tba', ''))):
            prev = f'roadm {s}'
            if not sp:
                u = f'patch {s}{t}' if mid[:1] != 'A' else f'amp {s}{t}'
                els.append(edfa(u) if mid[:1] == 'A' else fused(u))
                cx.append((prev, u))
                prev = u
            for k, length in enumerate(sp):
                fu = f'fiber {s}{t}_{k}'
                el = {'uid': fu, 'type': 'Fiber', 'type_variety': 'SSMF',
                      'params': {'length': length / 1000, 'length_units': 'km', 'loss_coef': 0.2,
                                 'con_in': None, 'con_out': None}}
                if kinds[k:k + 1] == 'r':
                    el['type'] = 'RamanFiber'
                    el['params'].update({'con_in': 0.5, 'con_out': 0.5})
                    el['operational'] = {'temperature': 283,
                                         'raman_pumps': [{'power': 0.2, 'frequency': 205e12,
                                                          'propagation_direction': 'counterprop'}]}
                els.append(el)
                cx.append((prev, fu))
                prev = fu
                m = mid[k:k + 1]
                if m in ('F', 'G'):
                    u = f'fused {s}{t}_{k}'
                    els.append(fused(u))
                    cx.append((prev, u))
                    prev = u
                if m in ('A', 'G'):
                    u = f'amp {s}{t}_{k}'
                    els.append(edfa(u))
                    cx.append((prev, u))
                    prev = u
            cx.append((prev, f'roadm {t}'))
    return {'elements': els, 'connections': [{'from_node': a, 'to_node': b} for a, b in cx]}


class Net:
    """a built + designed gnpy network together with the integer view handed to Coq"""

    def __init__(self, topo):
        from gnpy.tools.json_io import network_from_json
        from gnpy.tools.worker_utils import designed_network
        from gnpy.topology.spectrum_assignment import build_oms_list
        from gnpy.core.elements import Roadm, Transceiver, Fiber
        eq = eqpt()
        self.topo = topo
        net = network_from_json(copy.deepcopy(topo_json(topo)), eq)
        net, _, _ = designed_network(eq, net)
        self.net = net
        self.oms = build_oms_list(net, eq)
        self.nodes = list(net.nodes())
        self.id = {n.uid: i for i, n in enumerate(self.nodes)}
        self.kind = ['T' if isinstance(n, Transceiver) else 'R' if isinstance(n, Roadm) else 'L' for n in self.nodes]
        self.fibre = [isinstance(n, Fiber) for n in self.nodes]
        self.exact = True
        self.adj = []
        self.weight_mismatch = []
        for n in self.nodes:
            row = []
            # the specification's weight: the length of the fibre span an edge leaves, 0.01 m for any other hop
            # (independent of the 'weight' attribute gnpy put on the edge, which is what its search really uses)
            w = n.params.length if isinstance(n, Fiber) else 0.01
            wi = round(100 * w)
            if abs(100 * w - wi) > 1e-6:
                self.exact = False
            for m in net.successors(n):
                if abs(net[n][m].get('weight', -1) - w) > 1e-9 * max(1.0, w):
                    self.weight_mismatch.append((n.uid, m.uid, net[n][m].get('weight'), w))
                row.append((self.id[m.uid], wi))
            self.adj.append(row)
        self.oms_els = [[self.id[u] for u in o.el_id_list] for o in self.oms]
        self.oms_rev = [o.reversed_oms.oms_id if o.reversed_oms is not None else None for o in self.oms]
        self.oms_of = [getattr(n, 'oms_id', None) if k == 'L' else None for n, k in zip(self.nodes, self.kind)]
        self.sites = [site_name(i) for i in range(topo['n'])]

    def ids(self, path):
        return [self.id[e.uid] for e in path]

    def weight(self, p):
        a = dict()
        tot = 0
        for u, v in zip(p, p[1:]):
            w = dict(self.adj[u]).get(v)
            if w is None:
                return None
            tot += w
        return tot

    # ---- Gallina literals
    def coq_graph(self):
        return listlit([f'({u},{listlit([f"({v},{w})" for v, w in row])})' for u, row in enumerate(self.adj)])

    def coq_kinds(self):
        return strlit(''.join(self.kind))

    def coq_oms(self):
        return listlit([f'({listlit(map(str, els))},{common.ozlit(r)})' for els, r in zip(self.oms_els, self.oms_rev)])

    def coq_fibres(self):
        return listlit([str(i) for i, f in enumerate(self.fibre) if f])


# ------------------------------------------------------------------ request generator
def simple_paths_sites(topo, a, b, rng, limit=200):
    """some simple site-level paths a..b (random DFS order), used only to *build* include lists"""
    nb = {}
    for ln in topo['lines']:
        nb.setdefault(ln['a'], []).append(ln['b'])
        nb.setdefault(ln['b'], []).append(ln['a'])
    out = []

    def rec(p):
        if len(out) >= limit:
            return
        if p[-1] == b:
            out.append(list(p))
            return
        ns = nb.get(p[-1], [])[:]
        rng.shuffle(ns)
        for x in ns:
            if x not in p:
                p.append(x)
                rec(p)
                p.pop()
    rec([a])
    return out


def line_elements(N, s, t):
    """uids of the line elements of the OMS roadm s -> roadm t (in order), [] if there is no such line"""
    for o in N.oms:
        if o.el_id_list[0] == f'roadm {s}' and o.el_id_list[-1] == f'roadm {t}':
            return o.el_id_list[1:-1]
    return []


def gen_request(rng, N, rid, allow_bad=True):
    topo = N.topo
    sites = N.sites
    a, b = rng.sample(sites, 2)
    nodes, style = [], 'none'
    r = rng.random()
    sp = simple_paths_sites(topo, a, b, rng, limit=30)
    if not sp:
        r = rng.choice([0.1, 0.3, 0.8])                       # disconnected pair: only lists that need no path
    if r < 0.2:
        style = 'none'
    elif r < 0.35:
        style = 'roadms_random'
        nodes = [f'roadm {x}' for x in rng.sample(sites, rng.randint(1, min(3, len(sites))))]
    elif r < 0.5:
        style = 'roadms_on_path'
        p = rng.choice(sp)
        inner = p[1:-1] if rng.random() < 0.7 else p
        k = rng.randint(1, max(1, len(inner)))
        idx = sorted(rng.sample(range(len(inner)), min(k, len(inner)))) if inner else []
        nodes = [f'roadm {inner[i]}' for i in idx]
        if rng.random() < 0.2:
            rng.shuffle(nodes)
            style = 'roadms_on_path_shuffled'
        elif rng.random() < 0.15 and nodes:
            k = rng.randrange(len(nodes))                     # the same hop twice in a row / again later
            nodes.insert(rng.choice([k, k + 1, len(nodes)]), nodes[k])
            style = 'roadms_on_path_dup'
    elif r < 0.65:
        style = 'explicit_full'                               # one line element of every OMS of a path, in order
        p = rng.choice(sp)
        for x, y in zip(p, p[1:]):
            els = line_elements(N, x, y)
            nodes += rng.sample(els, 1) if rng.random() < 0.7 else [e for e in els if rng.random() < 0.5] or els[:1]
        if rng.random() < 0.3:
            # sprinkle ROADMs (on or off the path) between the line elements
            pos = rng.randint(0, len(nodes))
            nodes.insert(pos, f'roadm {rng.choice(sites)}')
            style = 'explicit_full_plus_roadm'
    elif r < 0.77:
        style = 'line_partial'                                # line elements of some OMS of a path
        p = rng.choice(sp)
        hops = list(zip(p, p[1:]))
        keep = [h for h in hops if rng.random() < 0.5] or hops[:1]
        for x, y in keep:
            els = line_elements(N, x, y)
            nodes += rng.sample(els, min(len(els), rng.randint(1, 2)))
        if rng.random() < 0.35:
            nodes.append(f'roadm {rng.choice(p)}')
        if rng.random() < 0.3:
            rng.shuffle(nodes)
            style = 'line_partial_shuffled'
    elif r < 0.85:
        style = 'line_random'
        pool = [n.uid for n, k in zip(N.nodes, N.kind) if k == 'L']
        nodes = rng.sample(pool, min(len(pool), rng.randint(1, 3)))
    elif r < 0.93:
        style = 'explicit_loop'                               # a -> x -> a -> ... -> b  given hop by hop
        nbs = [ln['b'] if ln['a'] == a else ln['a'] for ln in topo['lines'] if a in (ln['a'], ln['b'])]
        x = rng.choice(nbs)
        p = rng.choice(sp)
        hops = [(a, x), (x, a)] + list(zip(p, p[1:]))
        if rng.random() < 0.4 and len(p) > 2:
            # loop in the middle instead
            m = rng.randint(1, len(p) - 2)
            hops = list(zip(p[:m + 1], p[1:m + 1])) + [(p[m], p[m - 1]), (p[m - 1], p[m])] + list(zip(p[m:], p[m + 1:]))
        for u, v in hops:
            els = line_elements(N, u, v)
            if els:
                nodes.append(rng.choice(els))
    else:
        style = 'with_ends'                                   # source / destination / other transceivers in the list
        p = rng.choice(sp)
        nodes = [f'roadm {x}' for x in p[1:-1] if rng.random() < 0.5]
        if rng.random() < 0.6:
            nodes.insert(0, f'trx {a}')
        if rng.random() < 0.6:
            nodes.append(f'trx {b}')
        if rng.random() < 0.3:
            nodes.insert(rng.randint(0, len(nodes)), f'trx {rng.choice(sites)}')
    if allow_bad and rng.random() < 0.06 and nodes is not None:
        nodes.insert(rng.randint(0, len(nodes)), rng.choice(['roadm Zz', 'nowhere', 'fiber QQ_0']))
        style += '+badname'
    mix = rng.random()
    if mix < 0.4:
        loose = ['STRICT'] * len(nodes)
    elif mix < 0.7:
        loose = ['LOOSE'] * len(nodes)
    else:
        loose = [rng.choice(['STRICT', 'LOOSE']) for _ in nodes]
    if allow_bad and rng.random() < 0.09:
        # several unknown names, LOOSE (so they are cleaned up, not refused), scattered among valid hops of which at
        # least one is STRICT: the clean-up must drop exactly the unknown names together with their own hop types
        if not nodes:
            nodes, loose = [f'roadm {rng.choice(sites)}'], ['STRICT']
        if 'STRICT' not in loose or rng.random() < 0.5:
            loose[rng.randrange(len(loose))] = 'STRICT'
        if rng.random() < 0.5:
            loose[-1] = 'STRICT'
        ghosts = rng.sample(['ghost1', 'ghost2', 'roadm Zz', 'fiber QQ_0'], rng.randint(2, 3))
        if rng.random() < 0.2:
            ghosts[1] = ghosts[0]                              # the same unknown name twice
        for gname in ghosts:
            k = rng.randint(0, len(nodes) - 1) if rng.random() < 0.7 else rng.randint(0, len(nodes))
            nodes.insert(k, gname)
            loose.insert(k, 'LOOSE')
        style += '+ghosts'
    rq = {'id': str(rid), 'src': f'trx {a}', 'dst': f'trx {b}', 'nodes': nodes, 'loose': loose, 'style': style,
          'bidir': rng.random() < 0.5}
    if sp and rng.random() < 0.07:
        long_include_list(rng, N, rq, sp)
    return choose_build(rng, rq)


def long_include_list(rng, N, rq, sp):
    """11-15 hops spelling a long route element by element (ROADMs and several line elements of every link, in order);
    given as a JSON document whose route objects are listed in random order (the `index` fields carry the order)"""
    p = max(sp, key=len)
    full = []
    for x, y in zip(p, p[1:]):
        full += line_elements(N, x, y) + [f'roadm {y}']
    full = full[:-1]                                           # not the last ROADM: keep it a genuine include list
    if len(full) < 11:
        return
    k = rng.randint(11, min(15, len(full)))
    idx = sorted(rng.sample(range(len(full)), k))
    nodes = [full[i] for i in idx]
    m = rng.random()
    loose = (['STRICT'] * k if m < 0.5 else ['LOOSE'] * k if m < 0.75 else [rng.choice(['STRICT', 'LOOSE']) for _ in nodes])
    perm = list(range(k))
    rng.shuffle(perm)
    rq.update(nodes=nodes, loose=loose, style='long_list_%d' % (11 if k < 13 else 13), build='json', json_perm=perm)


def mk_request(rq, mode='mode 1'):
    """the PathRequest of a generated request, built the way rq['build'] says:
    'api' (default)  PathRequest(...) with explicit nodes_list / loose_list
    'api_defaults'   PathRequest(...) WITHOUT nodes_list / loose_list when the request has no list (class defaults)
    'json'           through json_io.requests_from_json from a service document whose route objects are listed in the
                     order rq['json_perm'] (their `index` fields say the real order)"""
    from gnpy.topology.request import PathRequest
    build = rq.get('build', 'api')
    if build == 'json':
        from gnpy.tools.json_io import requests_from_json
        objs = [{'index': k, 'explicit-route-usage': 'route-include-ero',
                 'num-unnum-hop': {'node-id': u, 'link-tp-id': 'link-tp-id is not used', 'hop-type': h}}
                for k, (u, h) in enumerate(zip(rq['nodes'], rq['loose']))]
        perm = rq.get('json_perm') or list(range(len(objs)))
        doc = {'request-id': rq['id'], 'source': rq['src'], 'destination': rq['dst'], 'src-tp-id': rq['src'],
               'dst-tp-id': rq['dst'], 'bidirectional': bool(rq.get('bidir', False)),
               'path-constraints': {'te-bandwidth': {'technology': 'flexi-grid', 'trx_type': 'Voyager', 'trx_mode': mode,
                                                     'effective-freq-slot': [{'N': None, 'M': None}], 'spacing': 50e9,
                                                     'max-nb-of-channel': None, 'output-power': 1e-3,
                                                     'path_bandwidth': rq.get('bw', 1e11)}}}
        if objs:
            doc['explicit-route-objects'] = {'route-object-include-exclude': [objs[k] for k in perm]}
        return requests_from_json({'path-request': [doc]}, eqpt())[0]
    kw = dict(request_id=rq['id'], source=rq['src'], destination=rq['dst'], trx_type='Voyager',
              trx_mode=mode, spacing=50e9, power=1e-3, nb_channel=80, bidir=rq.get('bidir', False),
              effective_freq_slot=[{'N': None, 'M': None}], path_bandwidth=rq.get('bw', 1e11),
              baud_rate=32e9, bit_rate=100e9, f_min=191.35e12, f_max=196.1e12, format=mode, OSNR=11,
              roll_off=0.15, tx_power=1e-3)
    if not (build == 'api_defaults' and not rq['nodes']):
        kw.update(nodes_list=list(rq['nodes']), loose_list=list(rq['loose']))
    return PathRequest(**kw)


def choose_build(rng, rq):
    """how the request object is built (see mk_request); stored in the case so that a replay builds it the same way"""
    if 'build' in rq:
        return rq
    r = rng.random()
    if r < 0.3:
        rq['build'] = 'json'
        perm = list(range(len(rq['nodes'])))
        rng.shuffle(perm)
        rq['json_perm'] = perm
    elif r < 0.65:
        rq['build'] = 'api_defaults'
    return rq


# ------------------------------------------------------------------ gnpy driver
def drive_request(N, rq):
    """one request through route-list clean-up, compute_path_dsjctn (no disjunction -> compute_constrained_path) and
    find_reversed_path.  Everything observed is returned as plain data (ids of N)."""
    from gnpy.topology.request import correct_json_route_list, compute_path_dsjctn, find_reversed_path
    from gnpy.core.exceptions import ServiceError
    obs = {}
    req = mk_request(rq)
    try:
        correct_json_route_list(N.net, [req])
    except ServiceError:
        obs['out'] = 'E:ServiceError'
        return obs
    except Exception as e:  # noqa
        obs['out'] = f'E:{type(e).__name__}'
        obs['exc'] = str(e)
        return obs
    obs['clean_nodes'] = list(req.nodes_list)
    obs['clean_loose'] = list(req.loose_list)
    try:
        pths = compute_path_dsjctn(N.net, eqpt(), [req], [])
    except Exception as e:  # noqa
        obs['out'] = f'E:{type(e).__name__}'
        obs['exc'] = str(e)
        return obs
    p = pths[0]
    reason = getattr(req, 'blocking_reason', None)
    if not p:
        obs['out'] = f'B:{reason}'
        return obs
    obs['out'] = 'P'
    obs['reason'] = reason
    obs['path'] = N.ids(p)
    try:
        rp = find_reversed_path(p)
        obs['rev'] = N.ids(rp)
    except Exception as e:  # noqa
        obs['rev_exc'] = f'{type(e).__name__}'
    return obs


# ------------------------------------------------------------------ Coq terms
def name_ids(N, names):
    """uids -> node ids; a name that is not in the topology becomes a distinct negative id"""
    bad = {}
    out = []
    for u in names:
        if u in N.id:
            out.append(N.id[u])
        else:
            out.append(bad.setdefault(u, -1 - len(bad)))
    return out


def coq_bools(flags):
    return listlit(['true' if f == 'STRICT' else 'false' for f in flags])


def coq_obs(obs):
    if obs['out'] == 'P':
        rv = f'(Some {listlit(map(str, obs["rev"]))})' if 'rev' in obs else 'None'
        return f'(OPath {listlit(map(str, obs["path"]))} {rv})'
    if obs['out'].startswith('B:'):
        return f'(OBlock {strlit(obs["out"][2:])})'
    return 'ONone'


def coq_rq(N, rq, obs):
    return (f'mkRq {N.id[rq["src"]]} {N.id[rq["dst"]]} {listlit(map(zlit, name_ids(N, rq["nodes"])))} '
            f'{coq_bools(rq["loose"])} {coq_obs(obs)}')


def coq_net_term(N, pairs):
    return (f'run_net {N.coq_graph()} {N.coq_kinds()} {N.coq_oms()} {N.coq_fibres()} '
            f'{listlit([coq_rq(N, rq, obs) for rq, obs in pairs])}')


def parse_fields(txt):
    d = {}
    for f in txt.split('|'):
        k, _, v = f.partition('=')
        d[k] = v
    return d


# ------------------------------------------------------------------ judgement
def oms_chain_loops(N, inc_ids):
    """does the hop-by-hop OMS sequence named by the include list come back to a ROADM it already left/reached?"""
    seq = []
    for x in inc_ids:
        o = N.oms_of[x] if 0 <= x < len(N.oms_of) else None
        if o is not None and o not in seq:
            seq.append(o)
    ends = []
    for o in seq:
        els = N.oms_els[o]
        if not ends:
            ends.append(els[0])
        ends.append(els[-1])
    return len(set(ends)) != len(ends)


def judge(ctx, N, rq, obs, line, case):
    """compare one request's observation with the Coq verdicts; returns nothing, reports through ctx"""
    f = parse_fields(line)
    c = f['c']
    flags = {'style': rq['style']}
    # ---- route-list clean-up: correspondence with the model; whatever gnpy did, the oracle below judges the outcome
    # against the list as the specification cleans it (unknown LOOSE names dropped together with their own hop type)
    if c.startswith('E:'):
        mtype = c[2:].split(':')[0]
        if obs['out'] != f'E:{mtype}':
            ctx.corr_break('corr:Route.clean_route', f'clean-up: gnpy {obs["out"]}, model {c}', case, impl=obs['out'], model=c)
            if not obs['out'].startswith('E:'):
                ctx.violation('strict_unknown_hop_accepted', f'a STRICT hop that is not a usable element of the topology must '
                              f'be refused ({c}); gnpy went on: {obs["out"]}', case, flags=flags)
        else:
            ctx.count('clean_rejected')
        return
    if obs['out'].startswith('E:') and 'clean_nodes' not in obs:
        ctx.corr_break('corr:Route.clean_route', f'clean-up: gnpy {obs["out"]}, model accepts', case, impl=obs['out'], model=c)
        ctx.violation('exception', f'{obs["out"]}: {obs.get("exc", "")} raised by the route-list clean-up of a list the '
                      f'specification accepts (neither a path nor a blocking reason)', case, flags=flags)
        return
    mine = '[' + ','.join(str(N.id[u]) for u in obs['clean_nodes']) + ']' + ''.join(
        'S' if x == 'STRICT' else 'L' for x in obs['clean_loose'])
    if mine != c:
        ctx.corr_break('corr:Route.clean_route', 'cleaned route lists differ', case, impl=mine, model=c)
        flags['clean_differs'] = True
    body = c[1:c.index(']')]
    inc_ids = [int(x) for x in body.split(',')] if body else []
    m, s, v, r = f['m'], f['s'], f['v'], f['r']
    explicit = m.startswith('X')
    flags.update(explicit=explicit, explicit_equal=m.endswith('='), loop=oms_chain_loops(N, inc_ids), spec=s, model=m)
    if obs['out'].startswith('E:'):
        ctx.violation('exception', f'{obs["out"]}: {obs.get("exc", "")} (neither a path nor a blocking reason)', case,
                      flags=flags)
        return
    # ---- oracle: the specification (proved reference + proved validator) against what gnpy returned
    if s.startswith('P'):
        opt = int(s[1:-1])
        unsat = s.endswith('U')
        ctx.count('spec_path_loose_fallback' if unsat else 'spec_path')
        if obs['out'] != 'P':
            ctx.violation('blocked_but_route_exists', f'gnpy {obs["out"]}, a route of weight {opt} cm exists', case,
                          flags=flags)
        else:
            ok_eff, ok_plain, isp, w, fl, optfl, optw = v.split(',')
            flags.update(ok_eff=ok_eff, ok_plain=ok_plain, ispart=isp)
            if ok_plain != 'T':
                ctx.violation('invalid_path', 'returned path is not a loop-free walk from source to destination', case,
                              flags=flags, path=obs['path'])
            elif ok_eff != 'T':
                ctx.violation('includes_not_crossed', 'returned path does not cross the include list in order', case,
                              flags=flags, path=obs['path'])
            elif int(w) != opt:
                ctx.violation('not_shortest', f'weight {w} cm, optimum {opt} cm'
                              + (' (LOOSE list cannot be met: unconstrained optimum expected)' if unsat else ''), case,
                              flags=flags, path=obs['path'])
            elif int(fl) > int(optfl) + len(N.nodes):
                ctx.violation('fibre_length_not_minimal', f'fibre {fl} cm, minimum {optfl} cm', case, flags=flags)
            if obs.get('reason'):
                ctx.violation('reason_on_path', f'path returned together with blocking_reason {obs["reason"]}', case,
                              flags=flags)
    else:
        reason = s[1:-1]
        ctx.count('spec_' + reason)
        if obs['out'] == 'P':
            ok_eff, ok_plain, isp = v.split(',')[:3]
            flags.update(ok_eff=ok_eff, ok_plain=ok_plain, ispart=isp)
            if ok_plain != 'T':
                ctx.violation('invalid_path', f'returned path is not a loop-free walk (and the request should be blocked: {reason})',
                              case, flags=flags, path=obs['path'])
            else:
                ctx.violation('path_instead_of_block', f'specification: blocked {reason}; gnpy returned a path', case,
                              flags=flags, path=obs['path'])
        elif obs['out'] != f'B:{reason}':
            ctx.violation('wrong_block_reason', f'gnpy {obs["out"]}, expected {reason}', case, flags=flags)
    # ---- correspondence: faithful model of compute_constrained_path
    if m.startswith('X'):
        # 'u' = the uniqueness certificate explicit_forced holds: by explicit_forced_unique the explicit answer is the
        # only route of the request, hence optimal (proved, not only compared with the enumeration)
        ctx.count('explicit_unique_certified' if m[-2] == 'u' else 'explicit_not_certified')
        if m[-2] != 'u':
            ctx.corr_break('corr:Route.explicit_forced', 'an explicit answer does not pass the uniqueness certificate (the '
                           'chain structure assumed of an OMS / a transceiver does not hold on this network)', case,
                           impl=obs.get('path', obs['out']), model=m)
        if not (obs['out'] == 'P' and m.endswith('=')):
            ctx.corr_break('corr:Route.explicit_path', 'model returns an explicit path, gnpy something else', case,
                           impl=obs.get('path', obs['out']), model=m)
        ctx.count('model_explicit')
    elif m.startswith('P'):
        if obs['out'] != 'P' or int(v.split(',')[3]) != int(m[1:]):
            ctx.corr_break('corr:Route.model_ccp', 'search outcome differs', case,
                           impl=obs['out'] + (':' + v.split(',')[3] if obs['out'] == 'P' else ''), model=m)
    elif m.startswith('B'):
        if obs['out'] != 'B:' + m[1:]:
            ctx.corr_break('corr:Route.model_ccp', 'block outcome differs', case, impl=obs['out'], model=m)
    else:
        ctx.corr_break('corr:Route.model_ccp', 'model error', case, impl=obs['out'], model=m)
    # ---- reverse path
    if obs['out'] == 'P' and v.split(',')[1] == 'T':
        wf, same, rok, rsites = r.split(',')
        ctx.count('rev_wf_' + wf)
        if 'rev' not in obs:
            ctx.violation('reverse_exception', f'find_reversed_path raised {obs.get("rev_exc")}', case, flags=flags)
        else:
            if rok != 'T' or rsites != 'T':
                ctx.violation('reverse_sites', 'reverse path is not a route visiting the same sites in reverse', case,
                              flags=flags, rev=obs['rev'])
            if same != 'T':
                ctx.corr_break('corr:Route.find_reversed_path', 'reverse path differs from the model', case,
                               impl=obs['rev'], model=same)
            if wf != 'T':
                ctx.corr_break('corr:Route.rev_wf', 'hypothesis of reversed_sites does not hold on an observed valid path',
                               case, impl=obs['path'], model=wf)


# ------------------------------------------------------------------ large meshes: dual-potential certificate
BIG = 10 ** 15


def dijkstra(adj, s):
    import heapq
    dist = [None] * len(adj)
    prev = [None] * len(adj)
    dist[s] = 0
    h = [(0, s)]
    while h:
        d, u = heapq.heappop(h)
        if d > dist[u]:
            continue
        for v, w in adj[u]:
            if dist[v] is None or d + w < dist[v]:
                dist[v] = d + w
                prev[v] = u
                heapq.heappush(h, (d + w, v))
    return dist, prev


def gen_big_request(rng, N, k):
    """large mesh: unconstrained, or an include list that some route is known to satisfy"""
    a, b = rng.sample(N.sites, 2)
    rq = {'id': str(k), 'src': f'trx {a}', 'dst': f'trx {b}', 'nodes': [], 'loose': [], 'style': 'big_none', 'bidir': False}
    r = rng.random()
    if r < 0.45:
        return rq
    sp = sorted(simple_paths_sites(N.topo, a, b, rng, limit=40), key=len)
    if not sp:
        return rq
    if r < 0.75:
        # ROADMs of one of the few shortest (in hops) site paths found: the constrained search of gnpy stays cheap
        p = rng.choice(sp[:4])
        inner = p[1:-1]
        if inner:
            idx = sorted(rng.sample(range(len(inner)), rng.randint(1, min(3, len(inner)))))
            rq['nodes'] = [f'roadm {inner[i]}' for i in idx]
            rq['style'] = 'big_roadms'
    elif r < 0.9:
        # every hop of an arbitrary site path spelled by one line element: explicit path, no search at all
        p = rng.choice(sp)
        rq['nodes'] = [rng.choice(line_elements(N, x, y)) for x, y in zip(p, p[1:])]
        rq['style'] = 'big_explicit'
    else:
        p = rng.choice(sp[:4])
        x, y = rng.choice(list(zip(p, p[1:])))
        rq['nodes'] = [rng.choice(line_elements(N, x, y))]
        rq['style'] = 'big_line'
    m = rng.random()
    rq['loose'] = (['STRICT'] * len(rq['nodes']) if m < 0.6 else ['LOOSE'] * len(rq['nodes']) if m < 0.8
                   else [rng.choice(['STRICT', 'LOOSE']) for _ in rq['nodes']])
    return rq


def run_big(ctx, rng, nnets, fixed=None):
    """12-40 site meshes: no enumeration.  The returned path is judged by route_ok (with the include list: every list
    generated here can be met, so LOOSE or STRICT it must be crossed) and optimality by one potential per leg
    s -> includes -> t (seg_cert_ok; plain potential_ok without list).  When the leg distances do not add up to the
    weight of the path nothing is concluded (a loop-free route may have to be longer than the leg-wise bound)."""
    terms, meta = [], []
    for i in range(nnets if fixed is None else len(fixed)):
        if fixed is None:
            n = rng.randint(12, 40)
            topo = gen_topo(rng, n, rng.randint(2, n // 2 + 2))
        else:
            topo = fixed[i]['topo']
        N = try_net(ctx, topo)
        if N is None:
            continue
        if not N.exact:
            ctx.count('skipped_inexact_weights')
            continue
        if N.weight_mismatch:
            u, v, got, want = N.weight_mismatch[0]
            ctx.violation('edge_weight_not_fibre_length', f'edge {u} -> {v} weighs {got}, fibre length rule gives {want}',
                          {'big': True, 'topo': topo, 'requests': []})
        cases, keep = [], []
        for k in range(6 if fixed is None else len(fixed[i]["requests"])):
            rq = gen_big_request(rng, N, k) if fixed is None else fixed[i]['requests'][k]
            obs = drive_request(N, rq)
            case = {'big': True, 'topo': topo, 'requests': [rq]}
            ctx.case(case, True)
            ctx.count('big_requests')
            ctx.count('style_' + rq['style'])
            if obs['out'] != 'P':
                ctx.violation('big_no_path', f'a route meeting the list exists by construction, gnpy {obs["out"]}', case)
                continue
            s, t = N.id[rq['src']], N.id[rq['dst']]
            inc = [N.id[u] for u in obs['clean_nodes']]
            legs = [s] + inc + [t]
            pis, bound, shorter = [], 0, None
            for u, v in zip(legs, legs[1:]):
                dist, prev = dijkstra(N.adj, u)
                pis.append([BIG if d is None else d for d in dist])
                bound += dist[v] if dist[v] is not None else BIG
                if not inc:
                    q = [v]
                    while q[-1] != u:
                        q.append(prev[q[-1]])
                    shorter = q[::-1]
            cases.append(f'({s},{t},{listlit(map(str, inc))},{listlit([listlit(map(str, pi)) for pi in pis])},'
                         f'{listlit(map(str, obs["path"]))})')
            keep.append((case, obs, shorter, bound, bool(inc)))
        if cases:
            terms.append(f'run_big {N.coq_graph()} {listlit(cases)}')
            meta.append((N, keep))
    lines = common.coq_eval('C11', 'Prelude Model.Route Run.C11', terms, per_file=1, tag='big')
    for (N, keep), line in zip(meta, lines):
        for (case, obs, q, bound, has_inc), res in zip(keep, line.split(';')):
            ok, cert, w = res.split(',')
            if ok != 'T':
                ctx.violation('invalid_path', 'large mesh: returned path is not a loop-free walk between the ends crossing '
                              'the include list in order', case, path=obs['path'])
            elif cert == 'T':
                ctx.count('big_certified_optimal_with_list' if has_inc else 'big_certified_optimal')
            elif has_inc:
                if int(w) < bound:
                    ctx.corr_break('corr:Route.seg_cert_ok', 'path lighter than the leg-wise lower bound', case, impl=w, model=bound)
                else:
                    ctx.count('big_with_list_optimality_not_judged')
            elif int(w) > bound:
                ctx.violation('not_shortest', f'large mesh: weight {w} cm, a walk of weight {bound} cm exists', case,
                              path=obs['path'], shorter=q)
            else:
                ctx.corr_break('corr:Route.potential_ok', 'certificate rejected although weights agree', case,
                               impl=w, model=cert)


# ------------------------------------------------------------------ run
def gen_case(rng, nreq=8):
    n = rng.choice([2, 3, 3, 4, 4, 5, 5, 6, 6, 7, 8])
    extra = rng.randint(0, n if n < 7 else 4)
    r = rng.random()
    if r < 0.12 and n >= 3:
        # Raman-pumped spans in a mesh with alternative routes (the span length counts whatever the Fiber subclass)
        return gen_topo(rng, n, max(1, extra), raman=True, patch_p=0.1)
    return gen_topo(rng, n, extra, cut=rng.random() < 0.12, patch_p=rng.choice([0, 0, 0.15, 0.35]))


# Requests with an include list on meshes containing RamanFiber spans: on the pinned tree they could crash (networkx
# formats NetworkXNoPath with str(node), RamanFiber.__str__ read actual_raman_gain which only exists after a propagation
# -> AttributeError out of compute_constrained_path); repaired by /repo 1e55bd61, regression corpus/C11/f_raman_str_*.
RAMAN_CONSTRAINED = True


def has_raman(topo):
    return any('r' in ln.get('tab', '') + ln.get('tba', '') for ln in topo['lines'])


# ------------------------------------------------------------------ multiband stream (round-5 seed C11_r5m1)
_MB = None


def mb_stream(ctx, seed, count):
    """C+L networks built from the shipped multiband example (templates only): rings / meshes of 3-5 ROADMs whose links
    have a described Multiband booster and, at random, NO described preamplifier, so that the auto-design inserts a
    Multiband_amplifier preamp.  Judged against the specification's weights (fibre length of the span an edge leaves,
    0.01 otherwise): (a) every edge of the designed graph carries that weight, (b) the route gnpy returns for a plain
    request is a shortest one by those weights (Dijkstra of networkx on a copy re-weighted by the rule)."""
    global _MB
    import random
    import networkx as nx
    from pathlib import Path
    from types import SimpleNamespace
    import gnpy
    from gnpy.core.elements import Fiber
    from gnpy.core.network import add_missing_elements_in_network
    from gnpy.tools.json_io import load_equipment, network_from_json
    from gnpy.topology.request import compute_constrained_path
    data = Path(gnpy.__file__).parent / 'example-data'
    if _MB is None:
        ex = json.loads((data / 'multiband_example_network.json').read_text())
        _MB = (load_equipment(data / 'eqpt_config_multiband.json'), {e['uid']: e for e in ex['elements']})
    eq, tmpl = _MB
    need = ['roadm Site_A', 'trx Site_A', 'east edfa in Site_A to Site_B', 'west edfa in Site_A to Site_B',
            'fiber (Site_A \u2192 Site_B)-']
    if any(k not in tmpl for k in need):
        ctx.count('mb_templates_missing')
        return
    rng = random.Random(seed * 104729 + 11)
    for _ in range(count):
        n = rng.choice([3, 3, 4, 5])
        sites = [chr(65 + i) for i in range(n)]
        pairs = [(sites[i], sites[(i + 1) % n]) for i in range(n)]
        pairs += [p for p in itertools.combinations(sites, 2) if p not in pairs and (p[1], p[0]) not in pairs and rng.random() < 0.3]
        links = []
        for a, b in pairs:
            km = rng.choice([rng.uniform(20, 110), float(rng.randint(2, 11) * 10)])
            for x, y in ((a, b), (b, a)):
                links.append({'a': x, 'b': y, 'km': km, 'pre': rng.random() < 0.5})
        case = {'kind': 'multiband', 'sites': sites, 'links': links}
        els, con = [], []

        def make(t, uid, **params):
            el = copy.deepcopy(tmpl[t])
            el['uid'] = uid
            el.get('params', {}).update(params)
            return el
        for x in sites:
            els += [make('roadm Site_A', f'roadm {x}'), make('trx Site_A', f'trx {x}')]
            con += [(f'trx {x}', f'roadm {x}'), (f'roadm {x}', f'trx {x}')]
        for ln in links:
            a, b = ln['a'], ln['b']
            els += [make('east edfa in Site_A to Site_B', f'booster {a}{b}'),
                    make('fiber (Site_A \u2192 Site_B)-', f'fiber {a}{b}', length=ln['km'], length_units='km')]
            con += [(f'roadm {a}', f'booster {a}{b}'), (f'booster {a}{b}', f'fiber {a}{b}')]
            if ln['pre']:
                els.append(make('west edfa in Site_A to Site_B', f'preamp {a}{b}'))
                con += [(f'fiber {a}{b}', f'preamp {a}{b}'), (f'preamp {a}{b}', f'roadm {b}')]
            else:
                con.append((f'fiber {a}{b}', f'roadm {b}'))
        topo = {'elements': els, 'connections': [{'from_node': f, 'to_node': t} for f, t in con]}
        try:
            net = network_from_json(topo, eq)
            add_missing_elements_in_network(net, eq)
        except Exception as e:                      # noqa: the multiband auto-design is not C11's subject
            ctx.count('mb_design_raised_' + type(e).__name__)
            continue
        ctx.count('mb_networks')
        ctx.count('mb_auto_preamps', sum(1 for ln in links if not ln['pre']))
        spec = nx.DiGraph()
        bad = None
        for u, v in net.edges():
            w = u.params.length if isinstance(u, Fiber) else 0.01
            spec.add_edge(u.uid, v.uid, weight=w)
            got = net[u][v].get('weight', -1)
            if bad is None and abs(got - w) > 1e-9 * max(1.0, w):
                bad = (u.uid, v.uid, got, w)
        ctx.case(case, True)
        if bad:
            ctx.violation('edge_weight_not_fibre_length', f'multiband network: edge {bad[0]} -> {bad[1]} weighs {bad[2]}, '
                          f'fibre length rule gives {bad[3]}', case)
        src, dst = rng.sample(sites, 2)
        req = SimpleNamespace(request_id='0', source=f'trx {src}', destination=f'trx {dst}', nodes_list=[f'trx {dst}'],
                              loose_list=['STRICT'], blocking_reason=None)
        try:
            path = compute_constrained_path(net, req)
        except Exception as e:
            ctx.violation('exception', f'multiband network: compute_constrained_path raised {type(e).__name__}: {e}', case)
            continue
        opt = nx.dijkstra_path_length(spec, f'trx {src}', f'trx {dst}', weight='weight')
        if not path:
            ctx.violation('blocked_but_route_exists', f'multiband network: no route {src} -> {dst}, one of {opt} m exists', case)
            continue
        uids = [e.uid for e in path]
        w = sum(spec[a][b]['weight'] for a, b in zip(uids, uids[1:])) if all(spec.has_edge(a, b) for a, b in zip(uids, uids[1:])) else None
        if w is None:
            ctx.violation('not_a_path', f'multiband network: returned route {src} -> {dst} uses a hop that is no edge', case)
        elif w > opt + 1e-6:
            ctx.violation('not_shortest', f'multiband network: route {src} -> {dst} weighs {w:.2f} m by the fibre-length rule, '
                          f'a route of {opt:.2f} m exists', case, route=uids)


def run(ctx):
    rng = ctx.rng
    # second tie: re-translate the decision code of /repo (harness/pygen_c11.py); the equivalence lemmas of
    # Proofs/RouteGen.v / Proofs/DisjointGen.v are then re-checked by check_props against what the code says now
    from . import pygen_c11
    gen_ok, gen_msg = pygen_c11.regenerate(('route',))
    ctx.proof = common.check_props('C11')
    if not gen_ok:
        ctx.proof['ok'] = False
        ctx.proof['log'] = 'harness/pygen_c11.py: ' + gen_msg + '\n' + ctx.proof.get('log', '')
        ctx.proof['failed_file'] = 'theories/Gen (translation of /repo source failed: ' + gen_msg[:300] + ')'
    ctx.rule = ('random ROADM meshes (2-8 sites, 1-3 spans per direction, splits/fused/user amplifiers) auto-designed by '
                'gnpy x 8 random requests each (no list / ROADM lists / line-element lists spelling a whole path, a part, '
                'a loop / shuffled / with transceivers and unknown names; STRICT, LOOSE and mixed) driven through '
                'correct_json_route_list + compute_path_dsjctn + find_reversed_path; judged in Coq by route_ok and '
                'model_route over the complete enumeration; 12-40 site meshes (with and without satisfiable lists) judged by '
                'route_ok + potential_ok / seg_cert_ok; a case is '
                'non-trivial when it carries an include list; distinct by content hash')
    nets = []
    if ctx.replay:
        rec = json.load(open(ctx.replay))
        nets = [rec['case']]
    else:
        for fpath in sorted(glob.glob(os.path.join(common.VERIF, 'corpus', 'C11', '*.json'))):
            c = json.load(open(fpath))
            c['_corpus'] = os.path.basename(fpath)
            nets.append(c)
        for _ in range(ctx.scale(100, 1200)):
            nets.append({'topo': gen_case(rng), 'requests': None})
    # the vector stream evaluates terms of Run/C12.v, which is not a dependency of Props/C11.v: build it now
    ok_b, out_b = common.coq_build(['theories/Run/C12.vo'])
    if not ok_b:
        ctx.proof['ok'] = False
        ctx.proof['log'] = 'Run/C12.vo does not build\n' + out_b[-2000:]
    vec_nets = [c for c in nets if 'groups' in c]             # batches with a synchronisation vector (corpus / replay)
    nets = [c for c in nets if 'groups' not in c]
    if vec_nets:
        from . import c12
        c12.process(ctx, rng, vec_nets, 'C11', 'vecfix')
    # networks are processed in chunks so that at most ~120 designed gnpy networks are alive at a time
    chunk = 120
    for k0 in range(0, len(nets), chunk):
        terms, meta = [], []
        for c in nets[k0:k0 + chunk]:
            if c.get('big'):
                continue
            N = try_net(ctx, c['topo'])
            if N is None:
                continue
            if not N.exact:
                ctx.count('skipped_inexact_weights')
                continue
            if N.weight_mismatch:
                u, v, got, want = N.weight_mismatch[0]
                ctx.violation('edge_weight_not_fibre_length', f'edge {u} -> {v} weighs {got}, fibre length rule gives {want}',
                              {'topo': c['topo'], 'requests': []})
            reqs = c['requests'] if c['requests'] is not None else [gen_request(rng, N, k) for k in range(8)]
            if c['requests'] is None and has_raman(c['topo']) and not RAMAN_CONSTRAINED:
                for rq in reqs:
                    rq.update(nodes=[], loose=[], style='raman_none')
            pairs = []
            for rq in reqs:
                obs = drive_request(N, rq)
                pairs.append((rq, obs))
                ctx.count('style_' + rq['style'])
                ctx.count('outcome_' + obs['out'][:1])
                ctx.case({'topo': c['topo'], 'requests': [rq]}, bool(rq['nodes']))
            ctx.count('networks')
            if has_raman(c['topo']):
                ctx.count('raman_meshes')
                ctx.count('requests_with_list_on_raman_mesh', sum(1 for rq, _ in pairs if rq['nodes']))
            ctx.count('sites_%d' % c['topo']['n'])
            terms.append(coq_net_term(N, pairs))
            meta.append((N, c, pairs))
        lines = common.coq_eval('C11', 'Prelude Model.Route Run.C11', terms, per_file=8)
        for (N, c, pairs), line in zip(meta, lines):
            parts = line.split(';')
            for (rq, obs), txt in zip(pairs, parts):
                case = {'topo': c['topo'], 'requests': [rq]}
                judge(ctx, N, rq, obs, txt, case)
        del terms, meta
    if not ctx.replay:
        mb_stream(ctx, ctx.seed, ctx.scale(25, 300))
    if not ctx.replay:
        # members of a synchronisation vector: the include / strictness clause applies to them too (step 4 of
        # compute_path_dsjctn); pairs with include lists over all element kinds, judged by route_ok and the
        # proved-complete exists_disjoint_pair (machinery shared with the C12 check)
        from . import c12
        c12.process(ctx, rng, [c12.gen_vector_case(rng) for _ in range(ctx.scale(30, 300))]
                    + [c12.gen_perm_case(rng) for _ in range(ctx.scale(20, 300))], 'C11', 'vec')
        run_big(ctx, rng, ctx.scale(8, 60))
    elif nets and nets[0].get('big'):
        run_big(ctx, rng, 1, fixed=nets)
    ctx.assumptions += [
        'translator tie: harness/pygen_c11.py (fail-closed template matching + translation of the tests, constants and '
        'branches listed in its docstring into model terms, regenerated from the source on every run)',
        'links, element kinds and OMS lists handed to Coq are read from the designed networkx graph / build_oms_list of '
        'gnpy itself (successor order); edge weights are NOT: they are recomputed as fibre length of the span the edge '
        'leaves / 0.01 m otherwise, x100 = integer cm (exactness checked per network) and compared with the weight '
        'attribute gnpy set (oracle key edge_weight_not_fibre_length)',
        'optimality on 12-40 site meshes is judged by the dual-potential certificate, one potential per leg when the '
        'request has an include list (potentials computed by an untrusted Dijkstra in the harness, checked in Coq); with '
        'a list, optimality is concluded only when the leg distances add up to the weight of the path (counter '
        'big_with_list_optimality_not_judged otherwise); unsatisfiable lists are exercised on the 2-8 site meshes only',
    ]
    for k, v in GEN_STATS.items():
        ctx.count(k, v)
    GEN_STATS.clear()
    return common.finish(ctx)
