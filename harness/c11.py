"""C11 — every computed route is a real, loop-free, constraint-respecting shortest path.

Tie (DESIGN §4(b)): random ROADM meshes are built and auto-designed by gnpy, random requests with include lists
(ROADMs and line elements, LOOSE/STRICT mixes, satisfiable or not, looping, malformed names) are driven through the real
`correct_json_route_list` + `compute_path_dsjctn` (which calls `compute_constrained_path`) and `find_reversed_path`.
The observed graph (networkx adjacency with its weights), the request and the returned path go to Coq where
  * the proved validator `route_ok` judges the path (walk, loop-free, ends, includes in order),
  * the proved-complete reference `model_route` (DFS enumeration of every simple path) gives the optimum weight, the
    block reason and the LOOSE fall-back the specification demands  (oracle),
  * the faithful model `model_ccp` (explicit_path first, then the search) is compared outcome by outcome (correspondence),
  * on large meshes (no enumeration) optimality is judged by the proved dual-potential certificate `potential_ok`.
Weights: integer centimetres, w_cm = round(100 * weight_in_m): the 0.01 non-fibre hops are exactly 1, fibre lengths are
generated as multiples of 60 m so that the splits of the auto-design stay exact (checked per case, inexact cases skipped).
"""
import copy
import glob
import json
import logging
import os

from . import common
from .common import zlit, listlit, strlit

_EQ = None


def eqpt():
    global _EQ
    if _EQ is None:
        from pathlib import Path
        import gnpy
        from gnpy.tools.json_io import load_equipment
        logging.disable(logging.CRITICAL)
        _EQ = load_equipment(Path(gnpy.__file__).parent / 'example-data' / 'eqpt_config.json')
    return _EQ


# ------------------------------------------------------------------ topology generator
def site_name(i):
    return chr(65 + i) if i < 26 else f'S{i}'


def gen_topo(rng, n, extra, maxlen_km=180, fused_p=0.1, amp_p=0.15):
    """compact description of a ROADM mesh: n sites (trx + roadm each), a random spanning tree + `extra` more lines,
    every line has 1-3 spans per direction with independent lengths (multiples of 60 m)"""
    names = [site_name(i) for i in range(n)]
    order = names[:]
    rng.shuffle(order)
    pairs = set()
    for i in range(1, n):
        pairs.add(tuple(sorted((order[i], rng.choice(order[:i])))))
    tries = 0
    while len(pairs) < n - 1 + extra and tries < 200:
        a, b = rng.sample(names, 2)
        pairs.add(tuple(sorted((a, b))))
        tries += 1

    def spans():
        k = rng.choice([1, 1, 1, 2, 2, 3])
        out = []
        for _ in range(k):
            r = rng.random()
            if r < 0.08:
                ln = 60 * rng.randint(1, 50)                  # 60 m .. 3 km
            elif r < 0.93:
                ln = 60 * rng.randint(100, int(maxlen_km * 1000 / 60))
            else:
                ln = 60 * rng.randint(2500, 7000)             # 150 .. 420 km: auto-design splits it
            out.append(ln)
        return out
    lines = []
    for (a, b) in sorted(pairs):
        ab, ba = spans(), spans()
        if rng.random() < 0.25:
            ba = list(reversed(ab))                           # symmetric line
        mid = {}
        for d, sp in (('ab', ab), ('ba', ba)):
            m = []
            for _ in range(len(sp) - 1):
                r = rng.random()
                m.append('F' if r < fused_p else 'A' if r < fused_p + amp_p else '-')
            mid[d] = ''.join(m)
        lines.append({'a': a, 'b': b, 'ab': ab, 'ba': ba, 'mab': mid['ab'], 'mba': mid['ba']})
    return {'n': n, 'lines': lines}


def topo_json(topo):
    els, cx = [], []
    for i in range(topo['n']):
        x = site_name(i)
        els += [{'uid': f'trx {x}', 'type': 'Transceiver'}, {'uid': f'roadm {x}', 'type': 'Roadm'}]
        cx += [(f'trx {x}', f'roadm {x}'), (f'roadm {x}', f'trx {x}')]
    for ln in topo['lines']:
        for (s, t, sp, mid) in ((ln['a'], ln['b'], ln['ab'], ln['mab']), (ln['b'], ln['a'], ln['ba'], ln['mba'])):
            prev = f'roadm {s}'
            for k, length in enumerate(sp):
                fu = f'fiber {s}{t}_{k}'
                els.append({'uid': fu, 'type': 'Fiber', 'type_variety': 'SSMF',
                            'params': {'length': length / 1000, 'length_units': 'km', 'loss_coef': 0.2,
                                       'con_in': None, 'con_out': None}})
                cx.append((prev, fu))
                prev = fu
                if k < len(mid):
                    if mid[k] == 'F':
                        u = f'fused {s}{t}_{k}'
                        els.append({'uid': u, 'type': 'Fused', 'params': {'loss': 0.5}})
                        cx.append((prev, u))
                        prev = u
                    elif mid[k] == 'A':
                        u = f'amp {s}{t}_{k}'
                        els.append({'uid': u, 'type': 'Edfa', 'type_variety': 'std_medium_gain',
                                    'operational': {'gain_target': None, 'tilt_target': 0}})
                        cx.append((prev, u))
                        prev = u
            cx.append((prev, f'roadm {t}'))
    return {'elements': els, 'connections': [{'from_node': a, 'to_node': b} for a, b in cx]}


class Net:
    """a built + designed gnpy network together with the integer view handed to Coq"""

    def __init__(self, topo):
        from gnpy.tools.json_io import network_from_json
        from gnpy.tools.worker_utils import designed_network
        from gnpy.topology.spectrum_assignment import build_oms_list
        from gnpy.core.elements import Roadm, Transceiver, Fiber
        eq = eqpt()
        self.topo = topo
        net = network_from_json(copy.deepcopy(topo_json(topo)), eq)
        net, _, _ = designed_network(eq, net)
        self.net = net
        self.oms = build_oms_list(net, eq)
        self.nodes = list(net.nodes())
        self.id = {n.uid: i for i, n in enumerate(self.nodes)}
        self.kind = ['T' if isinstance(n, Transceiver) else 'R' if isinstance(n, Roadm) else 'L' for n in self.nodes]
        self.fibre = [isinstance(n, Fiber) for n in self.nodes]
        self.exact = True
        self.adj = []
        for n in self.nodes:
            row = []
            for m in net.successors(n):
                w = net[n][m]['weight']
                wi = round(100 * w)
                if abs(100 * w - wi) > 1e-6:
                    self.exact = False
                row.append((self.id[m.uid], wi))
            self.adj.append(row)
        self.oms_els = [[self.id[u] for u in o.el_id_list] for o in self.oms]
        self.oms_rev = [o.reversed_oms.oms_id if o.reversed_oms is not None else None for o in self.oms]
        self.oms_of = [getattr(n, 'oms_id', None) if k == 'L' else None for n, k in zip(self.nodes, self.kind)]
        self.sites = [site_name(i) for i in range(topo['n'])]

    def ids(self, path):
        return [self.id[e.uid] for e in path]

    def weight(self, p):
        a = dict()
        tot = 0
        for u, v in zip(p, p[1:]):
            w = dict(self.adj[u]).get(v)
            if w is None:
                return None
            tot += w
        return tot

    # ---- Gallina literals
    def coq_graph(self):
        return listlit([f'({u},{listlit([f"({v},{w})" for v, w in row])})' for u, row in enumerate(self.adj)])

    def coq_kinds(self):
        return strlit(''.join(self.kind))

    def coq_oms(self):
        return listlit([f'({listlit(map(str, els))},{common.ozlit(r)})' for els, r in zip(self.oms_els, self.oms_rev)])

    def coq_fibres(self):
        return listlit([str(i) for i, f in enumerate(self.fibre) if f])


# ------------------------------------------------------------------ request generator
def simple_paths_sites(topo, a, b, rng, limit=200):
    """some simple site-level paths a..b (random DFS order), used only to *build* include lists"""
    nb = {}
    for ln in topo['lines']:
        nb.setdefault(ln['a'], []).append(ln['b'])
        nb.setdefault(ln['b'], []).append(ln['a'])
    out = []

    def rec(p):
        if len(out) >= limit:
            return
        if p[-1] == b:
            out.append(list(p))
            return
        ns = nb.get(p[-1], [])[:]
        rng.shuffle(ns)
        for x in ns:
            if x not in p:
                p.append(x)
                rec(p)
                p.pop()
    rec([a])
    return out


def line_elements(N, s, t):
    """uids of the line elements of the OMS roadm s -> roadm t (in order), [] if there is no such line"""
    for o in N.oms:
        if o.el_id_list[0] == f'roadm {s}' and o.el_id_list[-1] == f'roadm {t}':
            return o.el_id_list[1:-1]
    return []


def gen_request(rng, N, rid, allow_bad=True):
    topo = N.topo
    sites = N.sites
    a, b = rng.sample(sites, 2)
    nodes, style = [], 'none'
    r = rng.random()
    sp = simple_paths_sites(topo, a, b, rng, limit=30)
    if r < 0.2 or not sp:
        style = 'none'
    elif r < 0.35:
        style = 'roadms_random'
        nodes = [f'roadm {x}' for x in rng.sample(sites, rng.randint(1, min(3, len(sites))))]
    elif r < 0.5:
        style = 'roadms_on_path'
        p = rng.choice(sp)
        inner = p[1:-1] if rng.random() < 0.7 else p
        k = rng.randint(1, max(1, len(inner)))
        idx = sorted(rng.sample(range(len(inner)), min(k, len(inner)))) if inner else []
        nodes = [f'roadm {inner[i]}' for i in idx]
        if rng.random() < 0.2:
            rng.shuffle(nodes)
            style = 'roadms_on_path_shuffled'
    elif r < 0.65:
        style = 'explicit_full'                               # one line element of every OMS of a path, in order
        p = rng.choice(sp)
        for x, y in zip(p, p[1:]):
            els = line_elements(N, x, y)
            nodes += rng.sample(els, 1) if rng.random() < 0.7 else [e for e in els if rng.random() < 0.5] or els[:1]
        if rng.random() < 0.3:
            # sprinkle ROADMs (on or off the path) between the line elements
            pos = rng.randint(0, len(nodes))
            nodes.insert(pos, f'roadm {rng.choice(sites)}')
            style = 'explicit_full_plus_roadm'
    elif r < 0.77:
        style = 'line_partial'                                # line elements of some OMS of a path
        p = rng.choice(sp)
        hops = list(zip(p, p[1:]))
        keep = [h for h in hops if rng.random() < 0.5] or hops[:1]
        for x, y in keep:
            els = line_elements(N, x, y)
            nodes += rng.sample(els, min(len(els), rng.randint(1, 2)))
        if rng.random() < 0.35:
            nodes.append(f'roadm {rng.choice(p)}')
        if rng.random() < 0.3:
            rng.shuffle(nodes)
            style = 'line_partial_shuffled'
    elif r < 0.85:
        style = 'line_random'
        pool = [n.uid for n, k in zip(N.nodes, N.kind) if k == 'L']
        nodes = rng.sample(pool, min(len(pool), rng.randint(1, 3)))
    elif r < 0.93:
        style = 'explicit_loop'                               # a -> x -> a -> ... -> b  given hop by hop
        nbs = [ln['b'] if ln['a'] == a else ln['a'] for ln in topo['lines'] if a in (ln['a'], ln['b'])]
        x = rng.choice(nbs)
        p = rng.choice(sp)
        hops = [(a, x), (x, a)] + list(zip(p, p[1:]))
        if rng.random() < 0.4 and len(p) > 2:
            # loop in the middle instead
            m = rng.randint(1, len(p) - 2)
            hops = list(zip(p[:m + 1], p[1:m + 1])) + [(p[m], p[m - 1]), (p[m - 1], p[m])] + list(zip(p[m:], p[m + 1:]))
        for u, v in hops:
            els = line_elements(N, u, v)
            if els:
                nodes.append(rng.choice(els))
    else:
        style = 'with_ends'                                   # source / destination / other transceivers in the list
        p = rng.choice(sp)
        nodes = [f'roadm {x}' for x in p[1:-1] if rng.random() < 0.5]
        if rng.random() < 0.6:
            nodes.insert(0, f'trx {a}')
        if rng.random() < 0.6:
            nodes.append(f'trx {b}')
        if rng.random() < 0.3:
            nodes.insert(rng.randint(0, len(nodes)), f'trx {rng.choice(sites)}')
    if allow_bad and rng.random() < 0.06 and nodes is not None:
        nodes.insert(rng.randint(0, len(nodes)), rng.choice(['roadm Zz', 'nowhere', 'fiber QQ_0']))
        style += '+badname'
    mix = rng.random()
    if mix < 0.4:
        loose = ['STRICT'] * len(nodes)
    elif mix < 0.7:
        loose = ['LOOSE'] * len(nodes)
    else:
        loose = [rng.choice(['STRICT', 'LOOSE']) for _ in nodes]
    return {'id': str(rid), 'src': f'trx {a}', 'dst': f'trx {b}', 'nodes': nodes, 'loose': loose, 'style': style,
            'bidir': rng.random() < 0.5}


def mk_request(rq, mode='mode 1'):
    from gnpy.topology.request import PathRequest
    return PathRequest(request_id=rq['id'], source=rq['src'], destination=rq['dst'], trx_type='Voyager',
                       trx_mode=mode, nodes_list=list(rq['nodes']), loose_list=list(rq['loose']), spacing=50e9,
                       power=1e-3, nb_channel=80, bidir=rq.get('bidir', False),
                       effective_freq_slot=[{'N': None, 'M': None}], path_bandwidth=rq.get('bw', 1e11),
                       baud_rate=32e9, bit_rate=100e9, f_min=191.35e12, f_max=196.1e12, format=mode, OSNR=11,
                       roll_off=0.15, tx_power=1e-3)


# ------------------------------------------------------------------ gnpy driver
def drive_request(N, rq):
    """one request through route-list clean-up, compute_path_dsjctn (no disjunction -> compute_constrained_path) and
    find_reversed_path.  Everything observed is returned as plain data (ids of N)."""
    from gnpy.topology.request import correct_json_route_list, compute_path_dsjctn, find_reversed_path
    from gnpy.core.exceptions import ServiceError
    obs = {}
    req = mk_request(rq)
    try:
        correct_json_route_list(N.net, [req])
    except ServiceError:
        obs['out'] = 'E:ServiceError'
        return obs
    except Exception as e:  # noqa
        obs['out'] = f'E:{type(e).__name__}'
        obs['exc'] = str(e)
        return obs
    obs['clean_nodes'] = list(req.nodes_list)
    obs['clean_loose'] = list(req.loose_list)
    try:
        pths = compute_path_dsjctn(N.net, eqpt(), [req], [])
    except Exception as e:  # noqa
        obs['out'] = f'E:{type(e).__name__}'
        obs['exc'] = str(e)
        return obs
    p = pths[0]
    reason = getattr(req, 'blocking_reason', None)
    if not p:
        obs['out'] = f'B:{reason}'
        return obs
    obs['out'] = 'P'
    obs['reason'] = reason
    obs['path'] = N.ids(p)
    try:
        rp = find_reversed_path(p)
        obs['rev'] = N.ids(rp)
    except Exception as e:  # noqa
        obs['rev_exc'] = f'{type(e).__name__}'
    return obs
