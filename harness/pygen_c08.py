"""Translator tie for C08 (second tie between /repo's source and Model/Chain.v), built on harness/pygen.py.

On every run the functions below are re-read from <repo>/gnpy/core/network.py; their bookkeeping is matched against
templates (every statement must be the expected one) and the decision-carrying expressions (holes H_x) are translated into
Gallina; the result is written to coq/theories/Gen/ChainGen.v and Proofs/ChainGen.v proves each generated definition
equal to the hand-written model (Props/C08.v: C08_source_*).

  calculate_new_length              template CNL (the early return, four assignments, the if / elif / elif / else chain of
                                    returns); TRANSLATED: every expression - the early test, n_spans2 (int(a // b) ->
                                    Qfloor), n_spans1, both divisions (monadic: ZeroDivisionError), the three conditions
                                    (chained comparisons, and / not) and the five returned pairs
  add_missing_elements_in_network   template AME (max_length from Span.max_length in Span.length_units, range(min, max),
                                    all fibres split first, then per ROADM preamp before booster, then in-line amplifiers
                                    for the fibres collected afterwards); TRANSLATED: min_length, target_length
  add_missing_fiber_attributes      template AMFA (connector losses of all fibres before padding, the Span arguments)
  split_fiber                       template SPLIT (call of calculate_new_length, neighbours, fiber.params.length = new_length,
                                    positions, every span an elements.Fiber with the type_variety and params.asdict() of
                                    the fibre, edges and weights); TRANSLATED: the "nothing to do" test, the uid of a span;
                                    what asdict() copies is pinned by harness/pygen_c17.py (frozen_params)
  add_roadm_booster / add_roadm_preamp / add_inline_amplifier
                                    templates BOOSTER / PREAMP / INLINE (neighbour list, edge removal, OMS type check,
                                    the two constructors, edges and weights); TRANSLATED: the isinstance test that decides
                                    whether an amplifier is inserted, the single / multi band decision, the uid
  add_connector_loss                template CONN; TRANSLATED: both defaults, the test for the EOL margin, the margin
  add_fiber_padding                 template PAD and translator TrP of harness/pygen_c09.py (not duplicated here);
                                    TRANSLATED: the padding test, the new att_in, the increment
  prev_node_generator / next_node_generator
                                    templates GENP / GENN and translator of harness/pygen_c09.py; TRANSLATED: the condition
                                    under which two neighbours belong to one span (the model's `brk`)
  get_next_node / get_previous_node / get_oms_edge_list / get_oms_edge_list_from_egress / check_oms_single_type
                                    templates only (the walk stops at a ROADM or a transceiver; what counts as an amplifier)
  worker_utils.designed_network     the entry point of the tools: `if not no_insert_edfas: add_missing_elements_in_network(network,
                                    equipment)` is the only use of the option, and design_network is called exactly once with
                                    (reference_channel, network, equipment, set_connector_losses=True, verbose=True)
  design_network / build_network    templates DESIGN / BUILD: design_network hands its arguments to build_network; build_network
                                    runs add_missing_fiber_attributes first (iff set_connector_losses), then the ROADM targets /
                                    design bands, set_egress_amplifier for ROADMs and transceivers, the ROADM input powers and
                                    internal paths, set_fiber_input_power for every fibre
Anything outside the subset raises Unsupported (fail closed).  Numbers: lengths / losses are Q (every float its exact
value), span counts and the Span bounds are Z; a Z inside a Q expression is injected with qz.
"""
import ast
import os

from . import common
from .pygen import Unsupported, find, match_template, strip_doc
from .pygen_c10 import key_of

NET = 'gnpy/core/network.py'

KINDS = {'elements.Transceiver': 'KTrx', 'elements.Roadm': 'KRoadm', 'elements.Fused': 'KFused', 'elements.Fiber': 'KFiber',
         'elements.RamanFiber': 'KRaman', 'elements.Edfa': 'KEdfa', 'elements.Multiband_amplifier': 'KMulti'}


class TrC:
    """typed expressions: env maps a source name / attribute chain to (type, Gallina term), type in Q Z S B K;
    `subst` maps the ast.dump of a whole sub-expression to (type, term) (inputs of the model)"""

    def __init__(self, env, subst=None):
        self.env = env
        self.subst = {ast.dump(ast.parse(k, mode='eval').body): v for k, v in (subst or {}).items()}

    def ex(self, n):
        d = ast.dump(n)
        if d in self.subst:
            return self.subst[d]
        if isinstance(n, ast.Constant):
            if isinstance(n.value, bool) or n.value is None:
                raise Unsupported(f'constant {n.value!r}')
            if isinstance(n.value, int):
                return 'Z', (f'({n.value})' if n.value < 0 else str(n.value))
            if isinstance(n.value, str):
                if '"' in n.value or '\\' in n.value:
                    raise Unsupported(f'string constant {n.value!r}')
                return 'S', f'"{n.value}"'
            raise Unsupported(f'constant {n.value!r}')
        if isinstance(n, (ast.Name, ast.Attribute)):
            k = key_of(n)
            if k in self.env:
                return self.env[k]
            raise Unsupported(f'name {k}')
        if isinstance(n, ast.Tuple):
            parts = [self.ex(x) for x in n.elts]
            return '*'.join(t for t, _ in parts), '(' + ', '.join(v for _, v in parts) + ')'
        if isinstance(n, ast.BinOp) and isinstance(n.op, (ast.Add, ast.Sub, ast.Mult)):
            op = {ast.Add: '+', ast.Sub: '-', ast.Mult: '*'}[type(n.op)]
            (ta, a), (tb, b) = self.ex(n.left), self.ex(n.right)
            if ta == 'Z' and tb == 'Z':
                return 'Z', f'({a} {op} {b})%Z'
            return 'Q', f'({self.coerce(ta, a)} {op} {self.coerce(tb, b)})%Q'
        if isinstance(n, ast.Call) and isinstance(n.func, ast.Name) and not n.keywords:
            f = n.func.id
            if f == 'int' and len(n.args) == 1 and isinstance(n.args[0], ast.BinOp) and isinstance(n.args[0].op, ast.FloorDiv):
                # int(a // b) on floats: the floor of the exact quotient (a zero divisor raises in the source and gives
                # 0 spans here, which the following division turns into the same ZeroDivisionError)
                a, b = self.q(n.args[0].left), self.q(n.args[0].right)
                return 'Z', f'(Qfloor ({a} / {b})%Q)'
            if f in ('min', 'max') and len(n.args) == 2:
                (ta, a), (tb, b) = self.ex(n.args[0]), self.ex(n.args[1])
                if ta == 'Z' and tb == 'Z':
                    return 'Z', f"(Z.{f} {a} {b})"
                raise Unsupported(f'{f} of non-integers')
            if f == 'len' and len(n.args) == 1:
                t, v = self.ex(n.args[0])
                if t == 'LEN':
                    return 'Z', v
            raise Unsupported(f'call of {f}')
        if isinstance(n, ast.JoinedStr):
            parts = []
            for v in n.values:
                if isinstance(v, ast.Constant):
                    parts.append(self.ex(v)[1])
                elif isinstance(v, ast.FormattedValue) and v.conversion == -1 and v.format_spec is None:
                    t, x = self.ex(v.value)
                    if t == 'S':
                        parts.append(x)
                    elif t == 'Z':
                        parts.append(f'(zs {x})')
                    else:
                        raise Unsupported('formatted value of type ' + t)
                else:
                    raise Unsupported('f-string part')
            term = parts[-1]
            for p in reversed(parts[:-1]):
                term = f'(append {p} {term})'
            return 'S', term
        raise Unsupported('expression ' + ast.dump(n)[:160])

    def coerce(self, t, v):
        if t == 'Q':
            return v
        if t == 'Z':
            return f'(qz {v})'
        raise Unsupported(f'{t} used as a number')

    def q(self, n):
        return self.coerce(*self.ex(n))

    def cmp(self, op, l, r):
        (ta, a), (tb, b) = l, r
        if ta == 'Z' and tb == 'Z':
            if isinstance(op, ast.Lt):
                return f'({a} <? {b})%Z'
            if isinstance(op, ast.LtE):
                return f'({a} <=? {b})%Z'
            if isinstance(op, ast.Gt):
                return f'({b} <? {a})%Z'
            if isinstance(op, ast.GtE):
                return f'({b} <=? {a})%Z'
            if isinstance(op, ast.Eq):
                return f'({a} =? {b})%Z'
            raise Unsupported(f'comparison {type(op).__name__}')
        a, b = self.coerce(ta, a), self.coerce(tb, b)
        if isinstance(op, ast.Lt):
            return f'(Qltb {a} {b})'
        if isinstance(op, ast.LtE):
            return f'(Qle_bool {a} {b})'
        if isinstance(op, ast.Gt):
            return f'(Qltb {b} {a})'
        if isinstance(op, ast.GtE):
            return f'(Qle_bool {b} {a})'
        raise Unsupported(f'comparison {type(op).__name__} on Q')

    def b(self, n):
        if isinstance(n, ast.BoolOp):
            op = '&&' if isinstance(n.op, ast.And) else '||'
            return '(' + f' {op} '.join(self.b(v) for v in n.values) + ')'
        if isinstance(n, ast.UnaryOp) and isinstance(n.op, ast.Not):
            return f'(negb {self.b(n.operand)})'
        if isinstance(n, ast.Compare):
            if len(n.ops) == 1 and isinstance(n.ops[0], (ast.In, ast.NotIn)) and isinstance(n.left, ast.Constant):
                # 'Edfa' in amps_type
                k = f"{n.left.value!r} in {key_of(n.comparators[0])}"
                if k not in self.env:
                    raise Unsupported(k)
                v = self.env[k][1]
                return v if isinstance(n.ops[0], ast.In) else f'(negb {v})'
            terms = [self.ex(n.left)] + [self.ex(c) for c in n.comparators]
            parts = [self.cmp(op, terms[i], terms[i + 1]) for i, op in enumerate(n.ops)]
            return parts[0] if len(parts) == 1 else '(' + ' && '.join(parts) + ')'
        if isinstance(n, ast.Call) and isinstance(n.func, ast.Name) and n.func.id == 'isinstance' and len(n.args) == 2 \
                and not n.keywords:
            t, v = self.ex(n.args[0])
            if t != 'K':
                raise Unsupported('isinstance of ' + ast.dump(n.args[0])[:80])
            classes = n.args[1].elts if isinstance(n.args[1], ast.Tuple) else [n.args[1]]
            out = []
            for c in classes:
                k = key_of(c)
                if k not in KINDS:
                    raise Unsupported(f'isinstance(_, {k})')
                out.append(f'isinst {v} {KINDS[k]}')
            return '(' + ' || '.join(out) + ')'
        raise Unsupported('condition ' + ast.dump(n)[:160])


# ------------------------------------------------------------------ templates
CNL = """
if H_c0:
    return H_r0
n_spans2 = H_n2
n_spans1 = H_n1
length1 = H_l1
length2 = H_l2
if H_c1:
    return H_r1
elif H_c2:
    return H_r2
elif H_c3:
    return H_r3
else:
    return H_r4
"""

AME = """
default_span_data = equipment['Span']['default']
max_length = int(convert_length(default_span_data.max_length, default_span_data.length_units))
min_length = H_min
bounds = range(min_length, max_length)
target_length = H_tgt
fibers = [f for f in network.nodes() if isinstance(f, elements.Fiber)]
for fiber in fibers:
    split_fiber(network, fiber, bounds, target_length)
roadms = [r for r in network.nodes() if isinstance(r, elements.Roadm)]
for roadm in roadms:
    add_roadm_preamp(network, roadm)
    add_roadm_booster(network, roadm)
fibers = [f for f in network.nodes() if isinstance(f, elements.Fiber)]
for fiber in fibers:
    add_inline_amplifier(network, fiber)
"""

AMFA = """
default_span_data = equipment['Span']['default']
fibers = [f for f in network.nodes() if isinstance(f, elements.Fiber)]
add_connector_loss(network, fibers, default_span_data.con_in, default_span_data.con_out, default_span_data.EOL)
add_fiber_padding(network, fibers, default_span_data.padding, equipment)
"""

SPLIT = """
new_length, n_spans = calculate_new_length(fiber.params.length, bounds, target_length)
if H_one:
    return
try:
    next_node = next(network.successors(fiber))
    prev_node = next(network.predecessors(fiber))
except StopIteration:
    raise NetworkTopologyError(H_msg)
network.remove_node(fiber)
fiber.params.length = new_length
xpos = [prev_node.lng + (next_node.lng - prev_node.lng) * (n + 0.5) / n_spans for n in range(n_spans)]
ypos = [prev_node.lat + (next_node.lat - prev_node.lat) * (n + 0.5) / n_spans for n in range(n_spans)]
for span, lng, lat in zip(range(n_spans), xpos, ypos):
    new_span = elements.Fiber(
        uid=H_uid,
        type_variety=fiber.type_variety,
        metadata={'location': {'latitude': lat, 'longitude': lng, 'city': fiber.loc.city, 'region': fiber.loc.region}},
        params=fiber.params.asdict())
    if isinstance(prev_node, elements.Fiber):
        edgeweight = prev_node.params.length
    else:
        edgeweight = 0.01
    network.add_edge(prev_node, new_span, weight=edgeweight)
    prev_node = new_span
if isinstance(prev_node, elements.Fiber):
    edgeweight = prev_node.params.length
else:
    edgeweight = 0.01
network.add_edge(prev_node, next_node, weight=edgeweight)
"""

ROADM_LOC = "{'location': {'latitude': roadm.lat, 'longitude': roadm.lng, 'city': roadm.loc.city, 'region': roadm.loc.region}}"
MID_LOC = ("{'location': {'latitude': (fiber.lat + next_node.lat) / 2, 'longitude': (fiber.lng + next_node.lng) / 2, "
           "'city': fiber.loc.city, 'region': fiber.loc.region}}")

BOOSTER = f"""
next_nodes = [n for n in network.successors(roadm) if H_filter]
for next_node in next_nodes:
    network.remove_edge(roadm, next_node)
    oms_edges = get_oms_edge_list(next_node, network)
    amps_type = check_oms_single_type(oms_edges)
    if H_multi:
        amp = elements.Multiband_amplifier(uid=H_uid1, params=MultiBandParams.default_values, metadata={ROADM_LOC},
                                           amplifiers=[])
    else:
        amp = elements.Edfa(uid=H_uid2, params=EdfaParams.default_values, metadata={ROADM_LOC},
                            operational={{'gain_target': None, 'tilt_target': 0}})
    network.add_node(amp)
    network.add_edge(roadm, amp, weight=0.01)
    network.add_edge(amp, next_node, weight=0.01)
"""

PREAMP = f"""
prev_nodes = [n for n in network.predecessors(roadm) if H_filter]
for prev_node in prev_nodes:
    network.remove_edge(prev_node, roadm)
    oms_edges = get_oms_edge_list_from_egress(prev_node, network)
    amps_type = check_oms_single_type(oms_edges)
    if H_multi:
        amp = elements.Multiband_amplifier(uid=H_uid1, params=MultiBandParams.default_values, metadata={ROADM_LOC},
                                           amplifiers=[])
    else:
        amp = elements.Edfa(uid=H_uid2, params=EdfaParams.default_values, metadata={ROADM_LOC},
                            operational={{'gain_target': None, 'tilt_target': 0}})
    network.add_node(amp)
    if isinstance(prev_node, elements.Fiber):
        edgeweight = prev_node.params.length
    else:
        edgeweight = 0.01
    network.add_edge(prev_node, amp, weight=edgeweight)
    network.add_edge(amp, roadm, weight=0.01)
"""

INLINE = f"""
next_node = get_next_node(fiber, network)
if H_cond:
    network.remove_edge(fiber, next_node)
    oms_edges = get_oms_edge_list(next_node, network)
    amps_type = check_oms_single_type(oms_edges)
    if H_multi:
        amp = elements.Multiband_amplifier(uid=H_uid1, params=MultiBandParams.default_values, metadata={MID_LOC},
                                           amplifiers=[])
    else:
        amp = elements.Edfa(uid=H_uid2, params=EdfaParams.default_values, metadata={MID_LOC},
                            operational={{'gain_target': None, 'tilt_target': 0}})
    network.add_node(amp)
    network.add_edge(fiber, amp, weight=fiber.params.length)
    network.add_edge(amp, next_node, weight=0.01)
"""

CONN = """
for fiber in fibers:
    next_node = get_next_node(fiber, network)
    if fiber.params.con_in is None:
        fiber.params.con_in = H_ci
    if fiber.params.con_out is None:
        fiber.params.con_out = H_co
    if H_cond:
        fiber.params.con_out += H_eol
"""

NEXT = """
try:
    next_node = next(network.successors(node))
    return next_node
except StopIteration:
    raise NetworkTopologyError(H_msg)
"""

PREV = """
try:
    previous_node = next(network.predecessors(node))
    return previous_node
except StopIteration:
    raise NetworkTopologyError(H_msg)
"""

OMS_FWD = """
oms_edges = []
node = oms_ingress_node
visited_nodes = []
while not isinstance(node, (elements.Roadm, elements.Transceiver)):
    next_node = get_next_node(node, network)
    visited_nodes.append(node.uid)
    if next_node.uid in visited_nodes:
        raise NetworkTopologyError(H_msg)
    oms_edges.append((node, next_node))
    node = next_node
return oms_edges
"""

OMS_BWD = """
oms_edges = []
node = oms_egress_node
visited_nodes = []
while not isinstance(node, (elements.Roadm, elements.Transceiver)):
    previous_node = get_previous_node(node, network)
    visited_nodes.append(node.uid)
    if previous_node.uid in visited_nodes:
        raise NetworkTopologyError(H_msg)
    oms_edges.append((node, previous_node))
    node = previous_node
return oms_edges
"""

SINGLE = """
oms_types = {}
for node, _ in oms_edges:
    if isinstance(node, elements.Edfa):
        oms_types[node.uid] = 'Edfa'
    elif isinstance(node, elements.Multiband_amplifier):
        oms_types[node.uid] = 'Multiband_amplifier'
types = set(list(oms_types.values()))
if len(types) > 1:
    msg = H_msg
    raise NetworkTopologyError(msg)
return list(types)
"""

DESIGN = """
if verbose:
    H_LOG
build_network(network, equipment, reference_channel, set_connector_losses=set_connector_losses,
              verbose=verbose)
"""

BUILD = """
roadms = [r for r in network.nodes() if isinstance(r, elements.Roadm)]
transceivers = [t for t in network.nodes() if isinstance(t, elements.Transceiver)]
if set_connector_losses:
    add_missing_fiber_attributes(network, equipment)
for roadm in roadms:
    set_roadm_ref_carrier(roadm, equipment)
    set_roadm_per_degree_targets(roadm, network)
    set_per_degree_design_band(roadm, network, equipment)
for transceiver in transceivers:
    set_per_degree_design_band(transceiver, network, equipment)
pref_ch_db = watt2dbm(reference_channel.power)
for roadm in roadms + transceivers:
    set_egress_amplifier(network, roadm, equipment, pref_ch_db, verbose, reference_channel)
for roadm in roadms:
    set_roadm_input_powers(network, roadm, equipment, pref_ch_db)
    set_roadm_internal_paths(roadm, network)
for fiber in [f for f in network.nodes() if isinstance(f, (elements.Fiber, elements.RamanFiber))]:
    set_fiber_input_power(network, fiber, equipment, pref_ch_db)
"""

WORKER = 'gnpy/tools/worker_utils.py'
ENTRY_INSERT = """
if not no_insert_edfas:
    add_missing_elements_in_network(network, equipment)
"""
ENTRY_DESIGN = "design_network(reference_channel, network, equipment, set_connector_losses=True, verbose=True)"


def entry_point(repo):
    """designed_network: the option no_insert_edfas only guards add_missing_elements_in_network; design_network is called
    once, unconditionally, with connector losses on"""
    wk = ast.parse(open(os.path.join(repo, WORKER)).read())
    fn = find(wk, 'designed_network')
    names = [a.arg for a in fn.args.args]
    if names[:2] != ['equipment', 'network'] or 'no_insert_edfas' not in names:
        raise Unsupported('signature of designed_network')
    dflt = dict(zip(names[len(names) - len(fn.args.defaults):], fn.args.defaults))
    if not (isinstance(dflt.get('no_insert_edfas'), ast.Constant) and dflt['no_insert_edfas'].value is False):
        raise Unsupported('designed_network: default of no_insert_edfas')
    body = strip_doc(fn.body)
    want = ast.parse(ENTRY_INSERT).body[0]
    if sum(1 for st in body if ast.dump(st) == ast.dump(want)) != 1:
        raise Unsupported('designed_network: `if not no_insert_edfas: add_missing_elements_in_network(network, equipment)`')
    uses = [n for n in ast.walk(fn) if isinstance(n, ast.Name) and n.id == 'no_insert_edfas']
    if len(uses) != 1:
        raise Unsupported('designed_network: no_insert_edfas is used for something else than guarding the insertion')
    calls = [n for n in ast.walk(fn) if isinstance(n, ast.Call) and isinstance(n.func, ast.Name) and n.func.id == 'design_network']
    want = ast.parse(ENTRY_DESIGN).body[0]
    if len(calls) != 1 or sum(1 for st in body if ast.dump(st) == ast.dump(want)) != 1:
        raise Unsupported(f'designed_network: the call `{ENTRY_DESIGN}` (once, at top level)')
    for st in body:
        if ast.dump(st) == ast.dump(want):
            break
        if any(isinstance(n, ast.Return) for n in ast.walk(st)):
            raise Unsupported('designed_network: a return before design_network')


HEADER = """(* GENERATED on every run by harness/pygen_c08.py from gnpy/core/network.py of /repo - do not edit. *)
From Coq Require Import QArith Qround.
From Verif Require Import Prelude Model.Chain.
Open Scope Z_scope.

(* the classes the design code tests with isinstance; a RamanFiber is a Fiber *)
Inductive nkind := KTrx | KRoadm | KFused | KFiber | KRaman | KEdfa | KMulti.
Definition isinst (k cls : nkind) : bool :=
  match k, cls with
  | KTrx, KTrx | KRoadm, KRoadm | KFused, KFused | KFiber, KFiber | KRaman, KRaman | KRaman, KFiber
  | KEdfa, KEdfa | KMulti, KMulti => true
  | _, _ => false
  end.
(* x / n for a span count n *)
Definition qdivz (x : Q) (n : Z) : res Q :=
  if n =? 0 then Err "ZeroDivisionError:calculate_new_length" else Ok (x / qz n)%Q.
Definition qltb (x y : Q) : bool := Qltb x y.
Definition is_ff (e : elem) : bool := is_fib e || is_fus e.     (* isinstance(_, (Fused, Fiber)) *)
"""


def same_uid(b):
    if ast.dump(b['H_uid1']) != ast.dump(b['H_uid2']):
        raise Unsupported('the single band and the multiband amplifier get different uids')
    return b['H_uid1']


def generate(repo=None):
    repo = repo or common.REPO
    net = ast.parse(open(os.path.join(repo, NET)).read())
    out = [HEADER]

    # ---- calculate_new_length
    fn = find(net, 'calculate_new_length')
    if [a.arg for a in fn.args.args] != ['fiber_length', 'bounds', 'target_length']:
        raise Unsupported('signature of calculate_new_length')
    b = match_template(CNL, strip_doc(fn.body), 'calculate_new_length')
    env = {'fiber_length': ('Q', 'fiber_length'), 'target_length': ('Z', 'target_length'),
           'bounds.start': ('Z', 'bstart'), 'bounds.stop': ('Z', 'bstop')}
    t = TrC(env)
    c0, r0 = t.b(b['H_c0']), t.ex(b['H_r0'])
    n2 = t.ex(b['H_n2'])
    env['n_spans2'] = ('Z', 'n_spans2')
    n1 = t.ex(b['H_n1'])
    env['n_spans1'] = ('Z', 'n_spans1')
    if n2[0] != 'Z' or n1[0] != 'Z':
        raise Unsupported('calculate_new_length: span counts are not integers')

    def division(h):
        n = b[h]
        if not (isinstance(n, ast.BinOp) and isinstance(n.op, ast.Div)):
            raise Unsupported(f'calculate_new_length: {h} is not a division')
        (ta, a), (tb, d) = t.ex(n.left), t.ex(n.right)
        if ta != 'Q' or tb != 'Z':
            raise Unsupported(f'calculate_new_length: {h} is not length / span count')
        return f'qdivz {a} {d}'
    l1 = division('H_l1')
    env['length1'] = ('Q', 'length1')
    l2 = division('H_l2')
    env['length2'] = ('Q', 'length2')
    conds = [t.b(b[f'H_c{i}']) for i in (1, 2, 3)]
    rets = [t.ex(b[f'H_r{i}']) for i in (1, 2, 3, 4)]
    for ty, _ in [r0] + rets:
        if ty != 'Q*Z':
            raise Unsupported('calculate_new_length: a return value is not (length, span count)')
    out.append('(* network.calculate_new_length (bounds = range(bstart, bstop)) *)')
    out.append(f"""Definition g_calc_len (fiber_length : Q) (bstart bstop target_length : Z) : res (Q * Z) :=
  if {c0} then Ok {r0[1]} else
  let n_spans2 := {n2[1]} in
  let n_spans1 := {n1[1]} in
  let* length1 := {l1} in
  let* length2 := {l2} in
  if {conds[0]} then Ok {rets[0][1]}
  else if {conds[1]} then Ok {rets[1][1]}
  else if {conds[2]} then Ok {rets[2][1]}
  else Ok {rets[3][1]}.
""")

    # ---- add_missing_elements_in_network / add_missing_fiber_attributes
    b = match_template(AME, strip_doc(find(net, 'add_missing_elements_in_network').body), 'add_missing_elements_in_network')
    t = TrC({'max_length': ('Z', '(c_max c)')}, subst={'int(default_span_data.padding / 0.2 * 1e3)': ('Z', '(c_padlen c)')})
    mn = t.ex(b['H_min'])
    t.env['min_length'] = ('Z', '(g_min_length c)')
    tg = t.ex(b['H_tgt'])
    if mn[0] != 'Z' or tg[0] != 'Z':
        raise Unsupported('add_missing_elements_in_network: bounds are not integers')
    out.append('(* network.add_missing_elements_in_network: range(min_length, max_length) and the target span length; '
               'c_max = int(convert_length(Span.max_length, Span.length_units)), c_padlen = int(padding / 0.2 * 1e3) *)')
    out.append(f'Definition g_min_length (c : cfg) : Z := {mn[1]}.')
    out.append(f'Definition g_target_length (c : cfg) : Z := {tg[1]}.\n')
    match_template(AMFA, strip_doc(find(net, 'add_missing_fiber_attributes').body), 'add_missing_fiber_attributes')
    out.append('(* network.add_missing_fiber_attributes matches its template (connector losses, then padding) *)\n')

    # ---- split_fiber
    fn = find(net, 'split_fiber')
    if [a.arg for a in fn.args.args] != ['network', 'fiber', 'bounds', 'target_length']:
        raise Unsupported('signature of split_fiber')
    b = match_template(SPLIT, strip_doc(fn.body), 'split_fiber')
    t = TrC({'n_spans': ('Z', 'n_spans'), 'span': ('Z', 'span'), 'fiber.uid': ('S', 'uid')})
    out.append('(* network.split_fiber: when the fibre is left alone; uid of the span number `span` (0-based) of n_spans *)')
    out.append(f'Definition g_split_single (n_spans : Z) : bool := {t.b(b["H_one"])}.')
    uid = t.ex(b['H_uid'])
    if uid[0] != 'S':
        raise Unsupported('split_fiber: uid')
    out.append(f'Definition g_split_uid (uid : string) (span n_spans : Z) : string := {uid[1]}.\n')
    from . import pygen_c17
    pygen_c17.frozen_params(repo)
    out.append('(* split_fiber builds elements.Fiber(type_variety of the fibre, params = fiber.params.asdict() with the new '
               'length); Parameters.asdict / FiberParams.asdict match their templates (harness/pygen_c17.py) *)\n')

    # ---- amplifier insertion
    amps = {"'Multiband_amplifier' in amps_type": ('B', 'hm'), "'Edfa' in amps_type": ('B', 'he')}
    b = match_template(BOOSTER, strip_doc(find(net, 'add_roadm_booster').body), 'add_roadm_booster')
    t = TrC(dict(amps, **{'n': ('K', 'k'), 'roadm.uid': ('S', 'roadm_uid'), 'next_node.uid': ('S', 'next_uid'),
                          'roadm.design_bands': ('LEN', 'bands')}))
    out.append('(* network.add_roadm_booster: for the successor n of the ROADM (kind k) *)')
    out.append(f'Definition g_booster_wanted (k : nkind) : bool := {t.b(b["H_filter"])}.')
    out.append(f'Definition g_booster_multi (hm he : bool) (bands : Z) : bool := {t.b(b["H_multi"])}.')
    out.append(f'Definition g_booster_uid (roadm_uid next_uid : string) : string := {t.ex(same_uid(b))[1]}.\n')
    b = match_template(PREAMP, strip_doc(find(net, 'add_roadm_preamp').body), 'add_roadm_preamp')
    t = TrC(dict(amps, **{'n': ('K', 'k'), 'roadm.uid': ('S', 'roadm_uid'), 'prev_node.uid': ('S', 'prev_uid')}))
    out.append('(* network.add_roadm_preamp: for the predecessor n of the ROADM (kind k) *)')
    out.append(f'Definition g_preamp_wanted (k : nkind) : bool := {t.b(b["H_filter"])}.')
    out.append(f'Definition g_preamp_multi (hm he : bool) : bool := {t.b(b["H_multi"])}.')
    out.append(f'Definition g_preamp_uid (roadm_uid prev_uid : string) : string := {t.ex(same_uid(b))[1]}.\n')
    b = match_template(INLINE, strip_doc(find(net, 'add_inline_amplifier').body), 'add_inline_amplifier')
    t = TrC(dict(amps, **{'next_node': ('K', 'k'), 'fiber.uid': ('S', 'fiber_uid')}))
    out.append('(* network.add_inline_amplifier: for the successor of a fibre (kind k) *)')
    out.append(f'Definition g_inline_wanted (k : nkind) : bool := {t.b(b["H_cond"])}.')
    out.append(f'Definition g_inline_multi (hm he : bool) : bool := {t.b(b["H_multi"])}.')
    out.append(f'Definition g_inline_uid (fiber_uid : string) : string := {t.ex(same_uid(b))[1]}.\n')

    # ---- add_connector_loss
    fn = find(net, 'add_connector_loss')
    if [a.arg for a in fn.args.args] != ['network', 'fibers', 'default_con_in', 'default_con_out', 'EOL']:
        raise Unsupported('signature of add_connector_loss')
    b = match_template(CONN, strip_doc(fn.body), 'add_connector_loss')
    t = TrC({'default_con_in': ('Q', '(c_cin c)'), 'default_con_out': ('Q', '(c_cout c)'), 'EOL': ('Q', '(c_eol c)'),
             'next_node': ('K', 'k')})
    out.append('(* network.add_connector_loss (Span.con_in, con_out, EOL as passed by add_missing_fiber_attributes); k is the '
               'kind of the successor of the fibre *)')
    out.append(f"""Definition g_conn_in (c : cfg) (con_in : option Q) : Q :=
  match con_in with None => {t.q(b['H_ci'])} | Some x => x end.
Definition g_conn_out (c : cfg) (con_out : option Q) (k : nkind) : Q :=
  let con_out := match con_out with None => {t.q(b['H_co'])} | Some x => x end in
  if {t.b(b['H_cond'])} then (con_out + {t.q(b['H_eol'])})%Q else con_out.
""")

    # ---- add_fiber_padding: template and translator of the C09 tie
    from .pygen_c09 import PAD, TrP
    b = match_template(PAD, strip_doc(find(net, 'add_fiber_padding').body), 'add_fiber_padding')
    tp = TrP()
    out.append('(* network.add_fiber_padding (template PAD of harness/pygen_c09.py) *)')
    out.append(f'Definition g_pad_needed (padding sl : Q) : bool := {tp.b(b["H_cond"])}.')
    out.append(f'Definition g_pad_att (att padding sl : Q) : Q := {tp.e(b["H_att"])}%Q.')
    out.append(f'Definition g_pad_incr (padding sl : Q) : Q := {tp.e(b["H_dsl"])}%Q.\n')

    # ---- what makes a span: prev_node_generator / next_node_generator (templates and translator of the C09 tie)
    from .pygen_c09 import GENP, GENN, FF_TYPES
    ff = [x for x in net.body if isinstance(x, ast.Assign) and len(x.targets) == 1 and isinstance(x.targets[0], ast.Name)
          and x.targets[0].id == '_fiber_fused_types']
    if len(ff) != 1 or ast.dump(ff[0].value) != ast.dump(ast.parse(FF_TYPES, mode='eval').body):
        raise Unsupported('_fiber_fused_types is no longer ' + FF_TYPES)
    bp = match_template(GENP, strip_doc(find(net, 'prev_node_generator').body), 'prev_node_generator')
    bn = match_template(GENN, strip_doc(find(net, 'next_node_generator').body), 'next_node_generator')
    out.append('(* network.prev_node_generator / next_node_generator (templates GENP / GENN of harness/pygen_c09.py): when the '
               'walk steps from n to its neighbour p, i.e. when both belong to one span *)')
    out.append(f'Definition g_prev_link (p n : elem) : bool := {tp.b(bp["H_link"])}.')
    out.append(f'Definition g_next_link (p n : elem) : bool := {tp.b(bn["H_link"])}.\n')

    # ---- the entry point and the sequence of design steps
    entry_point(repo)
    fn = find(net, 'design_network')
    if [a.arg for a in fn.args.args] != ['reference_channel', 'network', 'equipment', 'set_connector_losses', 'verbose']:
        raise Unsupported('signature of design_network')
    match_template(DESIGN, strip_doc(fn.body), 'design_network')
    fn = find(net, 'build_network')
    if [a.arg for a in fn.args.args] != ['network', 'equipment', 'reference_channel', 'set_connector_losses', 'verbose']:
        raise Unsupported('signature of build_network')
    match_template(BUILD, strip_doc(fn.body), 'build_network')
    out.append('(* tools.worker_utils.designed_network: no_insert_edfas only guards add_missing_elements_in_network, '
               'design_network(.., set_connector_losses=True, ..) is called unconditionally; network.design_network / '
               'build_network match their templates (add_missing_fiber_attributes first) - Model.Chain.design_line_opt *)')
    out.append('Definition g_entry_point_matched : bool := true.\n')

    # ---- walks
    for name, tmpl in (('get_next_node', NEXT), ('get_previous_node', PREV), ('get_oms_edge_list', OMS_FWD),
                       ('get_oms_edge_list_from_egress', OMS_BWD), ('check_oms_single_type', SINGLE)):
        match_template(tmpl, strip_doc(find(net, name).body), name)
        out.append(f'(* network.{name} matches its template *)')
    out.append('Definition g_walks_matched : bool := true.\n')
    return '\n'.join(out)


def regenerate():
    """(Re)write coq/theories/Gen/ChainGen.v when its content changed. Returns (ok, message)."""
    dst = os.path.join(common.COQ, 'theories', 'Gen', 'ChainGen.v')
    try:
        txt = generate()
    except (Unsupported, SyntaxError, OSError, KeyError, ImportError) as e:
        return False, f'translation failed: {type(e).__name__}: {e}'
    os.makedirs(os.path.dirname(dst), exist_ok=True)
    if not os.path.exists(dst) or open(dst).read() != txt:
        with open(dst, 'w') as f:
            f.write(txt)
    return True, 'ok'


if __name__ == '__main__':
    print(generate())
