"""C16 — each request's result is independent of the other requests in the batch; planning leaves the designed
network unchanged.

Tie (DESIGN §7 C16, §4(b)): random designed networks x random request batches (dense combs, power offsets that saturate
the amplifiers, low p_max amplifiers, fixed and automatic modes, uni/bidirectional, blocked requests: no route, strict
include that cannot be met, no mode / no baud rate fitting) are run through the real `planning()`:
   the whole batch, every request alone, 3 random permutations — all on the SAME designed network object.
   Batches contain twins (identical requests, legitimately aggregated) and near-twins that differ from their original in
   exactly ONE attribute (tx_power, power, spacing, channel count, include list, LOOSE/STRICT, bidirectional, mode).
   30 % of the cases go through the API instead of the JSON loader: PathRequest objects built directly (optional fields
   omitted when they have their default) + correct_json_route_list / compute_path_dsjctn / compute_path_with_disjunction;
   a request built without its optional fields must also behave like the one with the defaults spelled out.
   Simulation parameters: the three NLI methods x NLI on every channel / a channel list / a number of channels; the
   process-wide SimParams must be the same after every run.  A separate stream has synchronization vectors (working /
   protection pairs on rings) whose request order is independent of the batch order.
 * oracle (python, field by field, 1e-9): route, mode, blocking reason (spectrum reasons and N/M excluded), receiver
   GSNR/OSNR figures of both directions are those of the request alone; `network_to_json` and a deep attribute snapshot of
   every element are the same before and after every run.
 * the same observations, quantised, are judged by the proved validator `Verif.Model.Batch.obs_ok` (Props/C16.obs_ok_iff).
 * sensitivity: the batch is re-run with the per-request deepcopy disabled (on a rebuilt network): how often results
   or the network then change is reported in the evidence (it must be > 0 for the check to mean something).
The for-all part is Props/C16.v (model: Model/Batch.v over the line elements of Model/Verdict.v).
"""
import copy
import glob
import hashlib
import json
import logging
import os

from . import common
from .common import zlit, listlit
from . import c13

SPECTRUM_REASONS = ('NO_SPECTRUM', 'NOT_ENOUGH_RESERVED_SPECTRUM')
REASONS = [None, 'NO_PATH', 'NO_PATH_WITH_CONSTRAINT', 'NO_FEASIBLE_BAUDRATE_WITH_SPACING', 'NO_COMPUTED_SNR',
           'NO_FEASIBLE_MODE', 'MODE_NOT_FEASIBLE']


# ------------------------------------------------------------------ generator
def gen_library(rng):
    modes = c13.gen_modes(rng, rng.randint(1, 5))
    for m in modes:
        m['OSNR'] = rng.choice([8, 12, 15, 18, 21, 24, 27, 35])
        if rng.random() < 0.3:
            m['penalties'] = [{'chromatic_dispersion': 0, 'penalty_value': 0},
                              {'chromatic_dispersion': rng.choice([600, 2000, 8000, 40000]), 'penalty_value': 1.5}]
    return modes


def gen_case(rng):
    env = c13.gen_env(rng, nmax=5, nch_max=24)
    small = rng.random() < 0.1                                       # small enough for the GGN methods
    if small:
        env['nsites'], env['nch'] = 2, rng.randint(5, 8)
        env['lines'] = [['A', 'B', [round(rng.uniform(20, 110), 1)], [round(rng.uniform(20, 110), 1)]]]
    if env['nsites'] >= 3 and rng.random() < 0.15 and len(env['lines']) > 1:
        env['lines'].pop(rng.randrange(len(env['lines'])))          # may disconnect the mesh: NO_PATH
    if rng.random() < 0.5:
        env['pmax'] = [rng.choice([6, 8, 10, 12]) for _ in env['pmax']]     # saturating region
        env['only_custom_amps'] = True
    modes = gen_library(rng)
    names = [chr(65 + i) for i in range(env['nsites'])]
    band = (env['nch'] + 0.5) * 50e9
    reqs = []
    for i in range(rng.randint(2, 3) if small else rng.randint(2, 6)):
        src, dst = rng.sample(names, 2)
        auto = rng.random() < 0.3
        if auto:
            mode = None
            spacing = rng.choice(c13.SPACINGS + [c13.SPACINGS[0]])
        else:
            m = rng.choice(modes)
            mode = m['format']
            spacing = rng.choice([s for s in c13.SPACINGS if s >= m['min_spacing']])
        fit = int(band // spacing)
        if fit < 2:
            spacing = 50e9 if (auto or m['min_spacing'] <= 50e9) else spacing
            fit = int(band // spacing)
        nch = None if rng.random() < 0.6 or fit < 3 else rng.randint(2, fit)
        r = c13.request_json(i, src, dst, mode, spacing, rng.random() < 0.35,
                             tx_power=rng.choice([None, None, 1e-3, 2e-3, 5e-4]),
                             power=rng.choice([None, 1e-3, 3e-3, 5e-4]),
                             bandwidth=rng.choice([100e9, 200e9, 400e9, 1000e9]), nch=nch)
        k = rng.random()
        if k < 0.12:
            # include constraint: an element of another line (STRICT -> may be impossible), or a ROADM (LOOSE)
            other = rng.choice(names)
            hop = 'STRICT' if rng.random() < 0.5 else 'LOOSE'
            r['explicit-route-objects'] = {'route-object-include-exclude': [{
                'explicit-route-usage': 'route-include-ero', 'index': 0,
                'num-unnum-hop': {'node-id': f'roadm {other}', 'link-tp-id': 'x', 'hop-type': hop}}]}
        reqs.append(r)
    # twins.  planning() aggregates requests that agree on EVERY attribute compare_reqs looks at; a near-twin differs from
    # its original in exactly one of them (chosen uniformly) and must keep its own result
    r = rng.random()
    if r < 0.6:
        base = pick_fixed(rng, reqs, modes, band)
        reqs.append(near_twin(rng, base, str(len(reqs)), modes, names, band))
    elif r < 0.75:
        t = copy.deepcopy(pick_fixed(rng, reqs, modes, band))
        t['request-id'] = str(len(reqs))
        t['path-constraints']['te-bandwidth']['path_bandwidth'] = rng.choice([100e9, 300e9])
        reqs.append(t)
    # route twins: a request with an include list (1-2 ROADMs, any order, satisfiable or not, LOOSE / STRICT hops) and a
    # copy that differs in exactly ONE thing the route depends on; the copy is listed before or after its original
    if rng.random() < 0.45:
        k = rng.randrange(len(reqs))
        route_twin(rng, reqs, k, names)
    # explicit routes: an include list made of LINE elements (fibres, boosters) of two or more adjacent OMS spells the
    # whole route (explicit_path shortcut); companions between the same end points include one element of one of those OMS
    if env['nsites'] >= 3 and rng.random() < 0.4:
        line_include_group(rng, env, reqs, modes, band)
    case = {'kind': 'batch', 'env': env, 'modes': modes, 'requests': reqs, 'perm_seed': rng.randrange(1 << 30)}
    if rng.random() < 0.3:
        # API-level stream: PathRequest objects built directly, optional fields left out when they have their default
        case['api'] = {'omit': [rng.random() < 0.7 for _ in reqs]}
    case['sim'] = gen_sim(rng, reqs, band, env)
    return case


def gen_sim(rng, reqs, band, env=None):
    """simulation parameters (process-wide SimParams): the three NLI methods, with the NLI evaluated on every channel, on
    a list of channels or on a number of channels spread over the comb (the comb differs from request to request).
    ggn_spectrally_separated costs ~0.03 s x computed channels x channels per fibre: it is only drawn for small cases."""
    small = env is not None and env['nsites'] == 2 and env['nch'] <= 8 and len(reqs) <= 4 \
        and all(len(sp) <= 1 for ln in env['lines'] for sp in ln[2:4])
    if not small:
        # the GGN integrals cost 0.05-0.5 s per fibre and propagation: only drawn for small cases
        if rng.random() < 0.85:
            return None                                              # defaults: gn_model_analytic
        method = 'gn_model_analytic'
    else:
        method = rng.choice(['ggn_spectrally_separated', 'ggn_approx', 'ggn_approx'])
    nli = {'method': method, 'dispersion_tolerance': 4 if method == 'ggn_spectrally_separated' else rng.choice([1, 2]),
           'phase_shift_tolerance': 0.1}
    fits = [r_['path-constraints']['te-bandwidth'].get('max-nb-of-channel')
            or int(band // r_['path-constraints']['te-bandwidth']['spacing']) for r_ in reqs]
    k = rng.random()
    if k < 0.5 or method == 'ggn_spectrally_separated':
        nli['computed_number_of_channels'] = rng.randint(2, 3 if method == 'ggn_spectrally_separated' else 7)
    elif k < 0.75:
        top = max(2, min(fits))                                      # listed channels must exist in every comb
        nli['computed_channels'] = sorted(set([1, rng.randint(1, top), top]))
    return {'nli_params': nli, 'raman_params': {'flag': False}}


def gen_sync_case(rng):
    """a batch with synchronization vectors: working / protection pairs (same end points, or sharing their best route) on
    a ring, so that it matters which request of a vector is served first; vectors list their requests in an order
    that is independent of the order of the batch"""
    env = c13.gen_env(rng, nmax=5, nch_max=16)
    n = env['nsites'] = rng.choice([3, 4, 4])
    env['lines'] = [[chr(65 + i), chr(65 + (i + 1) % n),
                     [round(rng.uniform(20, 110), 1) for _ in range(rng.choice([1, 1, 2]))],
                     [round(rng.uniform(20, 110), 1) for _ in range(rng.choice([1, 1, 2]))]] for i in range(n)]
    env['roadm_sites'] = [rng.random() < 0.5 for _ in range(n)]
    modes = gen_library(rng)
    names = [chr(65 + i) for i in range(n)]
    band = (env['nch'] + 0.5) * 50e9

    def mk(i, src, dst):
        m = rng.choice(modes)
        auto = rng.random() < 0.2
        sp = rng.choice([s_ for s_ in c13.SPACINGS if s_ >= m['min_spacing'] and int(band // s_) >= 2] or [50e9])
        return c13.request_json(i, src, dst, None if auto else m['format'], sp, rng.random() < 0.3,
                                bandwidth=rng.choice([100e9, 200e9]))
    if n == 4 and rng.random() < 0.3:                                 # a chord: a small mesh instead of a ring
        env['lines'].append(['A', 'C', [round(rng.uniform(20, 110), 1)], [round(rng.uniform(20, 110), 1)]])
    reqs, sync = [], []
    first_ends = None
    for g in range(rng.choice([1, 2, 2])):
        src, dst = rng.sample(names, 2)
        if g > 0 and rng.random() < 0.7:
            src, dst = first_ends        # twin end points ACROSS vectors: this request's routes are also routes of a
            #                              request of the other vector, which prunes them for reasons of its own partner
        if g == 0:
            first_ends = (src, dst)
        a = mk(len(reqs), src, dst)
        reqs.append(a)
        k = rng.random()
        if k < 0.45:
            b = mk(len(reqs), src, dst)                               # working / protection between the same nodes
        elif k < 0.85:
            other = rng.choice([x for x in names if x not in (src, dst)])
            b = mk(len(reqs), src, other)                             # shares the start: conflicts with some routes of a
        else:
            s2, d2 = rng.sample(names, 2)
            b = mk(len(reqs), s2, d2)
        reqs.append(b)
        pair = [a['request-id'], b['request-id']]
        if rng.random() < 0.5:
            pair.reverse()
        sync.append({'synchronization-id': f's{g}', 'svec': {'relaxable': False, 'disjointness': 'node link',
                                                              'request-id-number': pair}})
    for _ in range(rng.randint(0, 2)):
        src, dst = rng.sample(names, 2)
        reqs.append(mk(len(reqs), src, dst))
    order = list(range(len(reqs)))
    rng.shuffle(order)                                                # batch order independent of the vectors
    reqs = [reqs[k] for k in order]
    case = {'kind': 'batch', 'env': env, 'modes': modes, 'requests': reqs, 'sync': sync,
            'perm_seed': rng.randrange(1 << 30)}
    case['sim'] = gen_sim(rng, reqs, band, None)
    return case


def pick_fixed(rng, reqs, modes, band):
    """a request of the batch with an explicit mode (only those are aggregated); one is made if there is none"""
    fixed = [r for r in reqs if r['path-constraints']['te-bandwidth']['trx_mode'] is not None]
    if fixed:
        return rng.choice(fixed)
    r = rng.choice(reqs)
    m = rng.choice(modes)
    te = r['path-constraints']['te-bandwidth']
    te['trx_mode'] = m['format']
    te['spacing'] = next(s for s in c13.SPACINGS if s >= m['min_spacing'])
    te['max-nb-of-channel'] = None
    return r


def line_walks(env):
    """walks s -> m -> t (-> u) along the lines of the environment, each hop with the uids of its line elements"""
    hops = {}
    for a, b, ab, ba in env['lines']:
        hops[(a, b)] = [f'Edfa_booster_roadm {a}_to_fiber {a}{b}_0'] + [f'fiber {a}{b}_{k}' for k in range(len(ab))]
        hops[(b, a)] = [f'Edfa_booster_roadm {b}_to_fiber {b}{a}_0'] + [f'fiber {b}{a}_{k}' for k in range(len(ba))]
    walks = []
    for (s_, m) in hops:
        for (m2, t) in hops:
            if m2 == m and t != s_:
                walks.append([(s_, m), (m, t)])
                for (t2, u) in hops:
                    if t2 == t and u not in (s_, m):
                        walks.append([(s_, m), (m, t), (t, u)])
    return hops, walks


def line_include_group(rng, env, reqs, modes, band):
    hops, walks = line_walks(env)
    if not walks:
        return
    walk = rng.choice(walks)
    src, dst = walk[0][0], walk[-1][1]

    def mk(nodes, hop_types):
        m = rng.choice(modes)
        sp = rng.choice([s_ for s_ in c13.SPACINGS if s_ >= m['min_spacing'] and int(band // s_) >= 2] or [50e9])
        r = c13.request_json(len(reqs), src, dst, m['format'], sp, rng.random() < 0.25, bandwidth=rng.choice([100e9, 200e9]))
        r['explicit-route-objects'] = include_objects(nodes, hop_types)
        return r
    # the request that spells its route: one element of EVERY hop, in order
    full = [rng.choice(hops[h]) for h in walk]
    main = mk(full, [rng.choice(['STRICT', 'LOOSE']) for _ in full])
    main['twin_of'] = ['-', 'line_include_full']
    group = [main]
    for _ in range(rng.randint(1, 2)):
        h = rng.choice(walk)
        one = [rng.choice(hops[h])]
        comp = mk(one, [rng.choice(['STRICT', 'LOOSE'])])
        comp['request-id'] = str(len(reqs) + len(group))
        comp['twin_of'] = [main['request-id'], 'line_include_one']
        group.append(comp)
    rng.shuffle(group)                                                # companions before and after the explicit request
    for g in group:
        reqs.insert(rng.randint(0, len(reqs)), g)


def include_objects(nodes, hops):
    return {'route-object-include-exclude': [{'explicit-route-usage': 'route-include-ero', 'index': i,
                                              'num-unnum-hop': {'node-id': n, 'link-tp-id': 'x', 'hop-type': h}}
                                             for i, (n, h) in enumerate(zip(nodes, hops))]}


ROUTE_TWIN_KINDS = ['hop_type', 'hop_type', 'include_order', 'include_node', 'no_include', 'ends_swapped']


def route_twin(rng, reqs, k, names):
    base = reqs[k]
    src, dst = base['source'].split()[-1], base['destination'].split()[-1]
    pool = [f'roadm {x}' for x in names]
    nodes = rng.sample(pool, min(len(pool), rng.choice([1, 2, 2])))
    r = rng.random()
    if r < 0.35:
        nodes = [f'roadm {dst}'] + [n for n in nodes if n != f'roadm {dst}'][:1]      # destination first: cannot be met
    elif r < 0.5:
        nodes = [n for n in nodes if n != f'roadm {src}'][:1] + [f'roadm {src}']      # source last: cannot be met
    hops = [rng.choice(['LOOSE', 'LOOSE', 'STRICT']) for _ in nodes]
    base['explicit-route-objects'] = include_objects(nodes, hops)
    t = copy.deepcopy(base)
    t['request-id'] = str(len(reqs))
    t.pop('twin_of', None)
    kinds = ROUTE_TWIN_KINDS[:]
    rng.shuffle(kinds)
    for kind in kinds:
        if kind == 'hop_type':
            j = rng.randrange(len(nodes))
            h2 = hops[:]
            h2[j] = 'LOOSE' if hops[j] == 'STRICT' else 'STRICT'
            t['explicit-route-objects'] = include_objects(nodes, h2)
        elif kind == 'include_order':
            if len(nodes) < 2:
                continue
            t['explicit-route-objects'] = include_objects(nodes[::-1], hops[::-1])
        elif kind == 'include_node':
            other = [n for n in pool if n not in nodes]
            if not other:
                continue
            n2 = nodes[:]
            n2[rng.randrange(len(n2))] = rng.choice(other)
            t['explicit-route-objects'] = include_objects(n2, hops)
        elif kind == 'no_include':
            t.pop('explicit-route-objects')
        else:
            t['source'], t['destination'] = base['destination'], base['source']
            t['src-tp-id'], t['dst-tp-id'] = t['source'], t['destination']
        t['twin_of'] = [base['request-id'], 'route_' + kind]
        break
    reqs.insert(rng.choice([k, k + 1]), t)                               # listed before or after its original


TWIN_ATTRS = ['tx_power', 'power', 'spacing', 'nb_channel', 'nodes_list', 'loose_list', 'bidir', 'mode']


def near_twin(rng, base, rid, modes, names, band):
    t = copy.deepcopy(base)
    t['request-id'] = rid
    te = t['path-constraints']['te-bandwidth']
    te['path_bandwidth'] = rng.choice([100e9, 300e9])                 # not compared: never prevents aggregation
    mode = next(m for m in modes if m['format'] == te['trx_mode'])
    attrs = TWIN_ATTRS[:]
    rng.shuffle(attrs)
    for a in attrs:
        if a == 'tx_power':
            # -30 dBm is below what the add ROADM can equalise: the figures depend on it
            te['tx_power'] = rng.choice([v for v in (1e-6, 1e-5, 1e-3, 2e-3) if v != te.get('tx_power')])
        elif a == 'power':
            te['output-power'] = rng.choice([v for v in (1e-3, 3e-3, 5e-4, 2e-3) if v != te.get('output-power')])
        elif a == 'spacing':
            ok = [s for s in c13.SPACINGS if s >= mode['min_spacing'] and s != te['spacing'] and int(band // s) >= 2
                  and (te.get('max-nb-of-channel') or 0) <= int(band // s)]
            if not ok:
                continue
            te['spacing'] = rng.choice(ok)
        elif a == 'nb_channel':
            fit = int(band // te['spacing'])
            ok = [k for k in range(2, fit + 1) if k != te.get('max-nb-of-channel')]
            if not ok:
                continue
            te['max-nb-of-channel'] = rng.choice(ok)
        elif a == 'nodes_list':
            site = t['source'].split()[-1]
            cur = [o['num-unnum-hop']['node-id'] for o in
                   t.get('explicit-route-objects', {}).get('route-object-include-exclude', [])]
            if f'roadm {site}' in cur:
                t.pop('explicit-route-objects')
            else:
                t['explicit-route-objects'] = {'route-object-include-exclude': [{
                    'explicit-route-usage': 'route-include-ero', 'index': 0,
                    'num-unnum-hop': {'node-id': f'roadm {site}', 'link-tp-id': 'x', 'hop-type': 'LOOSE'}}]}
        elif a == 'loose_list':
            objs = t.get('explicit-route-objects', {}).get('route-object-include-exclude', [])
            if not objs:
                continue
            h = objs[0]['num-unnum-hop']
            h['hop-type'] = 'LOOSE' if h['hop-type'] == 'STRICT' else 'STRICT'
        elif a == 'bidir':
            t['bidirectional'] = not t['bidirectional']
        elif a == 'mode':
            ok = [m for m in modes if m['format'] != te['trx_mode'] and m['min_spacing'] <= te['spacing']]
            if not ok:
                continue
            te['trx_mode'] = rng.choice(ok)['format']
        t['twin_of'] = [base['request-id'], a]
        return t
    return t


# ------------------------------------------------------------------ snapshots
def _plain(x, depth=0):
    """JSON-able deep image of an attribute value; references to other network objects are reduced to their identity"""
    import numpy as np
    from gnpy.core.elements import _Node
    if depth > 6:
        return '...'
    if x is None or isinstance(x, (bool, int, str)):
        return x
    if isinstance(x, float):
        return repr(x)
    if isinstance(x, np.ndarray):
        return _plain(x.tolist(), depth + 1)
    if isinstance(x, (np.floating, np.integer)):
        return repr(x.item())
    if isinstance(x, (list, tuple)):
        return [_plain(v, depth + 1) for v in x]
    if isinstance(x, dict):
        return {str(k): _plain(v, depth + 1) for k, v in sorted(x.items(), key=lambda kv: str(kv[0]))}
    if isinstance(x, _Node):
        return f'<node {x.uid}>'
    if type(x).__name__ == 'OMS':
        # the OMS objects hang on the network elements: their STRUCTURE is part of the network (the spectrum bitmap /
        # service list they also carry belong to the spectrum assignment and are rebuilt by every planning() call)
        return {'__class__': 'OMS', 'oms_id': x.oms_id, 'el_id_list': [str(u) for u in x.el_id_list],
                'el_list': [getattr(e, 'uid', repr(e)) for e in x.el_list]}
    if hasattr(x, '__dict__'):
        return {'__class__': type(x).__name__,
                **{k: _plain(v, depth + 1) for k, v in sorted(vars(x).items())}}
    return repr(x)


def snapshot(net):
    from gnpy.tools.json_io import network_to_json
    deep = {}
    for el in net.nodes():
        # Roadm.oms_list is bookkeeping appended to by every build_oms_list() call (never read); el.oms (the OMS object the
        # element belongs to: oms_id, el_id_list, el_list) IS compared
        deep[el.uid] = {k: _plain(v) for k, v in sorted(vars(el).items()) if k != 'oms_list'}
    j = json.dumps(network_to_json(net), sort_keys=True, default=str)
    return j, deep


def digest(obj):
    return int(hashlib.sha1(json.dumps(obj, sort_keys=True, default=str).encode()).hexdigest()[:15], 16)


def snap_diff(a, b):
    """first few differing attributes between two deep snapshots"""
    out = []
    for uid in a:
        if a[uid] != b.get(uid):
            for k in a[uid]:
                if a[uid][k] != (b.get(uid) or {}).get(k):
                    out.append(f'{uid}.{k}: {str(a[uid][k])[:60]} -> {str((b.get(uid) or {}).get(k))[:60]}')
    return out[:6]


# ------------------------------------------------------------------ implementation driver
def signature(res, with_json=True):
    """the non-spectrum part of what planning reports for one request"""
    rq = res.path_request
    reason = getattr(rq, 'blocking_reason', None)
    if reason in SPECTRUM_REASONS:
        reason = None
    figs = {}
    for name, pth in (('fwd', res.computed_path), ('rev', getattr(res, 'reversed_computed_path', None) or [])):
        if pth and getattr(pth[-1], 'snr_01nm', None) is not None and pth[-1].snr is not None:
            rx = pth[-1]
            figs[name] = {k: [float(x) for x in getattr(rx, k)] for k in ('snr_01nm', 'osnr_ase_01nm', 'snr', 'osnr_ase')}
    try:
        js = res.json if with_json else {}
        props = js.get('path-properties') or (js.get('no-path') or {}).get('path-properties')
        metrics = None
        if props:
            metrics = {k: [[m['metric-type'], m['accumulative-value']] for m in props[k]
                           if m['metric-type'] not in ('path_bandwidth',)]
                       for k in ('path-metric', 'z-a-path-metric') if k in props}
    except Exception as e:                                           # consistent failures are compared like values
        metrics = f'E:{type(e).__name__}'
    echo = {'spacing': rq.spacing, 'power': rq.power, 'tx_power': rq.tx_power, 'nb_channel': rq.nb_channel,
            'f_max': rq.f_max, 'bidir': rq.bidir}
    return {'route': [el.uid for el in res.computed_path], 'mode': rq.tsp_mode, 'reason': reason,
            'baud_rate': rq.baud_rate, 'bidir': rq.bidir, 'figs': figs, 'metrics': metrics, 'echo': echo}


def run_planning(E, reqs, sync=None):
    from gnpy.tools.worker_utils import planning
    from gnpy.core.elements import Edfa
    designed = {el.uid: el.effective_gain for el in E.net.nodes() if isinstance(el, Edfa)}
    data = {'path-request': copy.deepcopy(reqs)}
    if sync:
        present = {r['request-id'] for r in reqs}
        vec = [v for v in copy.deepcopy(sync) if set(v['svec']['request-id-number']) <= present]
        if vec:
            data['synchronization'] = vec
    out = planning(E.net, E.eq, data)
    sigs = {}
    for res in out[5]:
        s = signature(res)
        # not part of the comparison: did this request drive an amplifier of its private copy into saturation?
        s['_clamped'] = any(isinstance(el, Edfa) and el.effective_gain < designed[el.uid] - 1e-9
                            for pth in (res.computed_path, getattr(res, 'reversed_computed_path', None) or [])
                            for el in pth)
        for rid in res.path_request.request_id.split(' | '):
            sigs[rid] = dict(s, aggregated=res.path_request.request_id if ' | ' in res.path_request.request_id else None)
    return sigs


def api_request(E, r, omit):
    """the PathRequest of a request description, built through the API the way requests_from_json fills it; with `omit`
    the optional fields that have their documented default (no include list, unidirectional) are simply not passed"""
    from gnpy.core.equipment import trx_mode_params
    from gnpy.core.utils import automatic_nch, automatic_fmax, dbm2watt
    from gnpy.topology.request import PathRequest
    te = r['path-constraints']['te-bandwidth']
    nd = sorted(r.get('explicit-route-objects', {}).get('route-object-include-exclude', []), key=lambda x: x['index'])
    params = {'request_id': str(r['request-id']), 'source': r['source'], 'destination': r['destination'],
              'bidir': r['bidirectional'], 'trx_type': te['trx_type'], 'trx_mode': te['trx_mode'], 'format': te['trx_mode'],
              'spacing': te['spacing'], 'nodes_list': [n['num-unnum-hop']['node-id'] for n in nd],
              'loose_list': [n['num-unnum-hop']['hop-type'] for n in nd]}
    params.update(trx_mode_params(E.eq, te['trx_type'], te['trx_mode'], True))
    params['power'] = te.get('output-power')
    if params['power'] is None:
        params['power'] = dbm2watt(E.eq['SI']['default'].power_dbm)
    if te.get('max-nb-of-channel') is not None:
        params['nb_channel'] = te['max-nb-of-channel']
        params['f_max'] = automatic_fmax(params['f_min'], params['spacing'], params['nb_channel'])
    else:
        params['nb_channel'] = automatic_nch(params['f_min'], params['f_max'], params['spacing'])
    params['path_bandwidth'] = te['path_bandwidth']
    params['tx_power'] = te.get('tx_power')
    if params['tx_power'] is None:
        dflt = E.eq['SI']['default'].tx_power_dbm
        params['tx_power'] = dbm2watt(dflt) if dflt is not None else params['power']
    if omit:
        if not params['nodes_list']:
            params.pop('nodes_list')
            params.pop('loose_list')
        if not params['bidir']:
            params.pop('bidir')
    return PathRequest(**params)


def run_api(E, reqs, omit):
    """planning()'s computation steps on PathRequest objects built directly (no JSON loader, no aggregation, no spectrum)"""
    import gnpy.topology.request as rq
    from gnpy.core.elements import Edfa
    designed = {el.uid: el.effective_gain for el in E.net.nodes() if isinstance(el, Edfa)}
    rqs = [api_request(E, r, o) for r, o in zip(reqs, omit)]
    rqs = rq.correct_json_route_list(E.net, rqs)
    pths = rq.compute_path_dsjctn(E.net, E.eq, rqs, [])
    prop, rev, revprop = rq.compute_path_with_disjunction(E.net, E.eq, rqs, pths)
    sigs = {}
    for r, pth, rpth in zip(rqs, prop, revprop):
        res = rq.ResultElement(r, pth, rpth)
        s = signature(res, with_json=False)
        s['_clamped'] = any(isinstance(el, Edfa) and el.effective_gain < designed[el.uid] - 1e-9
                            for p in (pth, rpth or []) for el in p)
        s['aggregated'] = None
        sigs[r.request_id] = s
    return sigs


def drive(case):
    from gnpy.core.parameters import SimParams
    import warnings
    logging.disable(logging.CRITICAL)
    warnings.filterwarnings('ignore', message='Polyfit may be poorly conditioned')
    SimParams.set_params(copy.deepcopy(case.get('sim') or {}))
    try:
        return _drive(case)
    finally:
        SimParams.set_params({})                                      # the worker process serves other cases afterwards


def sim_snapshot():
    from gnpy.core.parameters import SimParams
    return _plain(SimParams._shared_dict)


def _drive(case):
    import random
    from gnpy.core.exceptions import ServiceError, EquipmentConfigError, NetworkTopologyError, DisjunctionError
    import gnpy.topology.request as rq
    E = c13.Env(case['env'], [c13.clean_mode(m) for m in case['modes']])
    reqs = case['requests']
    sync = case.get('sync')
    sim0 = sim_snapshot()
    ids = [r['request-id'] for r in reqs]
    j0, d0 = snapshot(E.net)
    obs = {'net0': digest([j0, d0]), 'runs': [], 'alone': {}, 'uids': [el.uid for el in E.net.nodes()]}

    api = case.get('api')
    omit_of = dict(zip(ids, api['omit'])) if api else {}

    def runner(env_obj, rs, explicit=False):
        if api:
            return run_api(env_obj, rs, [False if explicit else omit_of[r['request-id']] for r in rs])
        return run_planning(env_obj, rs, sync)

    def one(name, rs, explicit=False):
        try:
            sigs = runner(E, rs, explicit)
            exc = None
        except (ServiceError, EquipmentConfigError, NetworkTopologyError, DisjunctionError, ValueError) as e:
            sigs, exc = {}, type(e).__name__
        except Exception as e:
            e._under_test = True                                       # anything else out of planning(): reported with its input
            raise
        j1, d1 = snapshot(E.net)
        rec = {'name': name, 'order': [r['request-id'] for r in rs], 'sigs': sigs, 'exc': exc,
               'net': digest([j1, d1]), 'json_same': j1 == j0, 'deep_diff': snap_diff(d0, d1) if d1 != d0 else []}
        sim1 = sim_snapshot()
        if sim1 != sim0:
            rec['sim_diff'] = [f'{k}.{a}: {sim0[k].get(a)} -> {sim1[k].get(a)}' for k in sim0 for a in sim0[k]
                               if sim0[k].get(a) != sim1[k].get(a)][:4]
            from gnpy.core.parameters import SimParams
            SimParams.set_params(copy.deepcopy(case.get('sim') or {}))      # so that the next run is judged on its own
        return rec
    obs['alone_explicit'] = {}
    by_id = {r['request-id']: r for r in reqs}
    group_of = {}
    for v in sync or []:
        for i in v['svec']['request-id-number']:
            group_of.setdefault(i, [])
            group_of[i] += [j for j in v['svec']['request-id-number'] if j not in group_of[i]]
    for r in reqs:
        rid = r['request-id']
        if rid in obs['alone']:
            continue
        if rid in group_of:
            # disjoint routing makes a request depend on its partners BY DESIGN: the reference of a member of a
            # synchronization vector is the vector computed alone, its requests listed in the order of the vector
            members = []
            todo = [rid]
            while todo:
                x = todo.pop(0)
                if x not in members:
                    members.append(x)
                    todo += group_of.get(x, [])
            first = next(v for v in sync if set(v['svec']['request-id-number']) & set(members))
            members = [i for i in first['svec']['request-id-number']] + [i for i in members
                                                                        if i not in first['svec']['request-id-number']]
            rec = one('group:' + '+'.join(members), [by_id[i] for i in members])
            for i in members:
                obs['alone'][i] = rec
            continue
        rec = one('alone:' + rid, [r])
        obs['alone'][rid] = rec
        if api and omit_of[r['request-id']]:
            # the same request with its optional fields spelled out
            obs['alone_explicit'][r['request-id']] = one('alone-explicit:' + r['request-id'], [r], explicit=True)
    with c13.AmpTracer(E.net) as tracer:
        obs['runs'].append(one('batch', reqs))
    obs['amp_traces'] = tracer.result()
    prng = random.Random(case['perm_seed'])
    ggn = ((case.get('sim') or {}).get('nli_params') or {}).get('method', '').startswith('ggn')
    for k in range(1 if ggn else 3):
        p = reqs[:]
        prng.shuffle(p)
        obs['runs'].append(one(f'perm{k}', p))
    if ggn:
        obs['nocopy'] = {'sigs_differ': None, 'net_changed': None}
        obs['amp_traces_nocopy'] = []
        return obs
    # sensitivity: the same batch with the per-request deepcopy disabled, on a rebuilt network
    E2 = c13.Env(case['env'], [c13.clean_mode(m) for m in case['modes']])
    j20, d20 = snapshot(E2.net)
    orig = rq.deepcopy
    rq.deepcopy = lambda x: x
    try:
        try:
            with c13.AmpTracer(E2.net) as tracer2:
                s2 = runner(E2, reqs)
        except Exception as e:
            s2 = {'exc': type(e).__name__}
    finally:
        rq.deepcopy = orig
    obs['amp_traces_nocopy'] = tracer2.result()
    j21, d21 = snapshot(E2.net)
    obs['nocopy'] = {'sigs_differ': any(same_sig(s2.get(i), obs['runs'][0]['sigs'].get(i)) is not True for i in ids)
                     if 'exc' not in s2 else None,
                     'net_changed': (j21, d21) != (j20, d20)}
    return obs


def close(a, b, tol=1e-9):
    return abs(a - b) <= tol * max(1.0, abs(a), abs(b))


def same_sig(a, b):
    """field by field; returns True or a description of the first difference"""
    if a is None or b is None:
        return 'missing result'
    for k in ('route', 'mode', 'reason', 'baud_rate'):
        if a[k] != b[k]:
            return f'{k}: {a[k]} / {b[k]}'
    for k in a['echo']:
        if a['echo'][k] != b['echo'][k]:
            return f"request parameter {k} carried by the result: {a['echo'][k]} / {b['echo'][k]}"
    if sorted(a['figs']) != sorted(b['figs']):
        return f"directions with figures: {sorted(a['figs'])} / {sorted(b['figs'])}"
    for d in a['figs']:
        for k in a['figs'][d]:
            x, y = a['figs'][d][k], b['figs'][d][k]
            if len(x) != len(y) or any(not close(u, v) for u, v in zip(x, y)):
                return f'{d} {k}: {x[:3]} / {y[:3]}'
    if a['metrics'] != b['metrics']:
        return f"reported metrics: {str(a['metrics'])[:200]} / {str(b['metrics'])[:200]}"
    return True


# ------------------------------------------------------------------ model side (validator)
def sig_lit(s, uidx, modeidx):
    route = listlit([zlit(uidx[u]) for u in s['route']])
    e = s['echo']
    figs = [int(round((e['spacing'] or 0) / 1e6)), int(round((e['power'] or 0) * 1e9)), int(round((e['tx_power'] or 0) * 1e9)),
            int(e['nb_channel'] or 0), int(round((e['f_max'] or 0) / 1e6)), int(bool(e['bidir']))]
    for d in ('fwd', 'rev'):
        if d in s['figs']:
            figs.append(1 if d == 'fwd' else 2)
            for k in ('snr_01nm', 'osnr_ase_01nm', 'snr', 'osnr_ase'):
                figs += [int(round(v * 1e6)) for v in s['figs'][d][k]]
    return (f"sg {route} {zlit(modeidx.get(s['mode'], -1))} {zlit(REASONS.index(s['reason']))} "
            f"{listlit([zlit(v) for v in figs])}")


def term(case, obs):
    uidx = {u: i for i, u in enumerate(obs['uids'])}
    modeidx = {m['format']: i for i, m in enumerate(case['modes'])}
    rid = {r['request-id']: i for i, r in enumerate(case['requests'])}
    alone = [f"({rid[i]}, {sig_lit(rec['sigs'][i], uidx, modeidx)})" for i, rec in obs['alone'].items() if i in rec['sigs']]
    runs = []
    for rec in obs['runs'] + list(obs['alone'].values()) + list((obs.get('alone_explicit') or {}).values()):
        res = [f"({rid[i]}, {sig_lit(s, uidx, modeidx)})" for i, s in rec['sigs'].items()]
        runs.append(f"rn {zlit(obs['net0'])} {zlit(rec['net'])} {listlit(res)}")
    return f"obs_case {zlit(obs['net0'])} {listlit(alone)} {listlit(runs)}"


# ------------------------------------------------------------------ known findings
# none open.  (requests_aggregation used to merge twins that differ in `bidirectional`; found here as
# batch_changes_result with detail aggregated / twin_bidir_differs / only_reverse_part, fixed in /repo by 098fa997;
# corpus/C16/twin_bidir_aggregated.json keeps the case.)
MATCHERS = {}


# ------------------------------------------------------------------ run
def case_public(c):
    return {k: v for k, v in c.items() if not k.startswith('_')}


def judge(ctx, case, obs):
    """python oracle, field by field; returns True when everything agrees"""
    pub = case_public(case)
    ok = True
    reqs = {r['request-id']: r for r in case['requests']}
    for rec in list(obs['alone'].values()) + obs['runs']:
        if rec['net'] != obs['net0']:
            ok = False
            ctx.violation('network_changed', f"run {rec['name']}: designed network differs after planning "
                          f"(network_to_json same: {rec['json_same']}); {rec['deep_diff']}", pub)
    seen_rec = set()
    for rec in list(obs['alone'].values()) + obs['runs'] + list((obs.get('alone_explicit') or {}).values()):
        if rec.get('sim_diff') and id(rec) not in seen_rec:
            seen_rec.add(id(rec))
            ok = False
            ctx.violation('sim_params_changed', f"run {rec['name']}: the process-wide simulation parameters differ after "
                          f"planning: {rec['sim_diff']}", pub, detail={'run': rec['name'], 'diff': rec['sim_diff']})
    for i, rec in (obs.get('alone_explicit') or {}).items():
        d = same_sig(obs['alone'][i]['sigs'].get(i), rec['sigs'].get(i)) if not (rec['exc'] or obs['alone'][i]['exc']) \
            else (True if rec['exc'] == obs['alone'][i]['exc'] else f"{obs['alone'][i]['exc']} / {rec['exc']}")
        if d is not True:
            ok = False
            ctx.violation('omitted_defaults_differ', f'request {i} alone, built without its optional fields vs with the '
                          f'documented defaults spelled out: {d}', pub, detail={'request': i, 'difference': d})
    if any(rec['exc'] for rec in obs['alone'].values()):
        # a request that cannot even be loaded stops the whole batch: nothing to compare (malformed stream)
        ctx.count('batches_with_refused_request')
        for rec in obs['runs']:
            if not rec['exc']:
                ok = False
                ctx.violation('refusal_not_reproduced', f"a request refused alone ({[r['exc'] for r in obs['alone'].values()]}) "
                              f"is accepted in run {rec['name']}", pub)
        return ok
    for rec in obs['runs']:
        if rec['exc']:
            ok = False
            ctx.violation('batch_raises', f"run {rec['name']} raised {rec['exc']} although every request alone is served", pub)
            continue
        for i in rec['order']:
            a = obs['alone'][i]['sigs'].get(i)
            b = rec['sigs'].get(i)
            d = same_sig(b, a)
            if d is not True:
                ok = False
                agg = bool(b and b.get('aggregated'))
                twin = False
                only_rev = False
                if agg:
                    others = [reqs[j] for j in b['aggregated'].split(' | ') if j != i]
                    twin = any(o['bidirectional'] != reqs[i]['bidirectional'] for o in others)
                    a2 = dict(a, figs={k: v for k, v in a['figs'].items() if k == 'fwd'}, metrics=None,
                              reason=None if a['reason'] == 'MODE_NOT_FEASIBLE' else a['reason'])
                    b2 = dict(b, figs={k: v for k, v in b['figs'].items() if k == 'fwd'}, metrics=None,
                              reason=None if b['reason'] == 'MODE_NOT_FEASIBLE' else b['reason'])
                    only_rev = same_sig(b2, a2) is True
                ctx.violation('batch_changes_result',
                              f"request {i} in run {rec['name']} (order {rec['order']}): {d}", pub,
                              detail={'request': i, 'run': rec['name'], 'difference': d, 'aggregated': agg,
                                      'twin_bidir_differs': twin, 'only_reverse_part': only_rev})
    return ok


def _drive_worker(case):
    try:
        return drive(case)
    except Exception as e:                                             # noqa: returned as an observation
        return {'crash': c13.crash_record(e)}


def pmap_drive(cases):
    return c13.pmap(_drive_worker, cases)


def run(ctx):
    rng = ctx.rng
    # second tie: the isolation points of request.py / topology_parameters.py / science_utils.py / worker_utils.py are
    # re-read from /repo's source; Proofs/BatchGen.v is then re-checked against what the code does now
    from . import pygen_c16
    gen_ok, gen_msg = pygen_c16.regenerate()
    ctx.proof = common.check_props('C16')
    if not gen_ok:
        ctx.proof['ok'] = False
        ctx.proof['log'] = 'harness/pygen_c16.py: ' + gen_msg + '\n' + ctx.proof.get('log', '')
        ctx.proof['failed_file'] = 'theories/Gen/BatchGen.v (translation of /repo source failed)'
    ctx.rule = ('random 2-5 ROADM networks (random amplifier p_max incl. a saturating region, 5-24 channel bands) x batches of '
                '2-7 requests (fixed / automatic mode, offsets, bidirectional, channel counts, include constraints, twins and '
                'near-twins differing in one compared attribute; 30 % built through the PathRequest API); '
                'each case = 1 batch + every request alone + 3 permutations on the same designed network; non-trivial = at '
                'least one accepted and one blocked request, or a saturating request (an amplifier clamps); '
                'distinct by content hash')
    cases = []
    for f in sorted(glob.glob(os.path.join(common.VERIF, 'corpus', 'C16', '*.json'))):
        c = json.load(open(f))
        c['_corpus'] = os.path.basename(f)
        cases.append(c)
    if ctx.replay:
        cases = [json.load(open(ctx.replay))['case']]
    else:
        cases += [gen_case(rng) for _ in range(ctx.scale(56, 480))]
        cases += [gen_sync_case(rng) for _ in range(ctx.scale(20, 160))]
    terms, meta = [], []
    all_obs = pmap_drive(cases)
    crashed = [(c, obs) for c, obs in zip(cases, all_obs) if obs.get('crash')]
    for c, obs in crashed:
        ctx.case(case_public(c), False)
        ctx.count('crashes')
        c13.report_crash(ctx, case_public(c), obs['crash'])
    keep = [(c, obs) for c, obs in zip(cases, all_obs) if not obs.get('crash')]
    cases, all_obs = [c for c, _ in keep], [o for _, o in keep]
    for c, obs in zip(cases, all_obs):
        batch = obs['runs'][0]
        reasons = [s['reason'] for s in batch['sigs'].values()]
        nontriv = (any(r is None for r in reasons) and any(r is not None for r in reasons)) or bool(obs['nocopy']['net_changed'])
        ctx.case(case_public(c), nontriv)
        ctx.count('requests', len(c['requests']))
        ctx.count('cases_api_stream' if c.get('api') else 'cases_planning')
        if c.get('sync'):
            ctx.count('cases_with_synchronization')
            routes = {i: tuple(s_['route']) for i, s_ in batch['sigs'].items()}
            for v in c['sync']:
                a, b = v['svec']['request-id-number'][:2]
                one_alone = {}
                if routes.get(a) and routes.get(b):
                    ctx.count('disjoint_pairs_routed')
        sim = (c.get('sim') or {}).get('nli_params') or {}
        ctx.count('nli_' + sim.get('method', 'default') + ('_nch' if sim.get('computed_number_of_channels') else
                                                           '_list' if sim.get('computed_channels') else ''))
        for r in c['requests']:
            if r.get('twin_of'):
                ctx.count('near_twin_' + r['twin_of'][1])
        ctx.count('planning_runs', len(obs['runs']) + len(obs['alone']) + len(obs.get('alone_explicit') or {}))
        for r in reasons:
            ctx.count('reason_' + str(r))
        for s in batch['sigs'].values():
            if s.get('aggregated'):
                ctx.count('aggregated_requests')
            if s.get('_clamped'):
                ctx.count('requests_saturating_an_amplifier')
        if batch['exc']:
            ctx.count('batch_exception_' + batch['exc'])
        if obs['nocopy']['net_changed']:
            ctx.count('sensitivity_nocopy_network_changed')
        if obs['nocopy']['sigs_differ']:
            ctx.count('sensitivity_nocopy_results_differ')
        ok = judge(ctx, c, obs)
        if any(rec['exc'] for rec in obs['alone'].values()):
            continue
        terms.append(term(c, obs))
        meta.append((c, ok))
    lines = common.coq_eval('C16', 'Prelude Model.Verdict Model.Batch Run.C16', terms, per_file=ctx.scale(4, 12), tag='obs')
    # amplifier state: with the per-request copy every amplifier object starts from the designed gain of its network
    # element; without it (sensitivity run) the network's own amplifiers carry their clamp from request to request
    amp_terms, amp_meta = [], []
    for c, obs in zip(cases, all_obs):
        for kind in ('amp_traces', 'amp_traces_nocopy'):
            for t in obs.get(kind) or []:
                amp_terms.append(c13.term_amp(t))
                amp_meta.append((c, t, kind))
    amp_lines = common.coq_eval('C16', 'Prelude Model.Verdict Run.C13', amp_terms, per_file=ctx.scale(150, 500),
                                tag='amps')
    for (c, t, kind), line in zip(amp_meta, amp_lines):
        ctx.count('amplifier_histories_' + ('copy' if kind == 'amp_traces' else 'nocopy'))
        if len(t['gains']) > 1 and kind == 'amp_traces_nocopy':
            ctx.count('amplifier_shared_by_several_propagations')
            if any(g < t['g0'] - 1e-9 for g in t['gains'][:-1]):
                ctx.count('amplifier_clamp_carried_to_a_later_propagation')
        c13.judge_amp(ctx, case_public(c), t, line, prop='Batch')
    for (c, ok), line in zip(meta, lines):
        verdict = line.split('|')[0] == 'T'
        if verdict != ok:
            ctx.corr_break('corr:Batch.obs_ok', f'python oracle says {ok}, proved validator says {line}', case_public(c),
                           impl=ok, model=line)
    ctx.assumptions += [
        'translator tie: harness/pygen_c16.py (fail-closed template / ast checks of the isolation points: per-request deep '
        'copies and one result per request in compute_path_with_disjunction, restore of the designed gains in '
        'propagate_and_optimize_mode, no route memo and vector order in compute_path_dsjctn, compare_reqs fields, '
        'BaseParams.update_attr, no store into SimParams in science_utils / elements, steps of planning)',
        'the element snapshot walks vars() of every network element (params / operational objects included, references '
        'to other elements reduced to their uid)',
        'figures handed to the validator are quantised to 1e-6 dB (validator tolerance: one unit); the python oracle '
        'compares the floats with 1e-9',
        'Roadm.oms_list (appended to by build_oms_list at the start of every planning() call, never read) is left out of '
        'the snapshot; the OMS object every line element belongs to is compared by structure (oms_id, el_id_list, el_list)',
        'the reference result of a request that belongs to a synchronization vector is the vector computed alone (disjoint '
        'routing makes a route depend on the partners by design; C12); whole batches and permutations are compared to it',
        'SimParams._shared_dict is snapshotted (deep) before and after every planning run and restored between runs',
    ]
    return common.finish(ctx, MATCHERS)
