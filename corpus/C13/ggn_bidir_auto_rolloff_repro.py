#!/usr/bin/env python3
"""Witness (standalone, shipped example data only): a BIDIRECTIONAL request WITHOUT mode under a GGN NLI method.

    cd /verif && PYTHONPATH=/repo /venv/bin/python corpus/C13/ggn_bidir_auto_rolloff_repro.py      (exit 1 = defect present)

propagate_and_optimize_mode explores the modes with equipment['SI']['default'].roll_off and selects one; then
compute_path_with_disjunction copies baud_rate / OSNR / tx_osnr / bit_rate / penalties / offset of the selected mode onto
the request but NOT a roll-off: pathreq.roll_off stays None (trx_mode_params gives None for an undetermined mode) and the
Z->A propagation `propagate(rev_p, pathreq, equipment)` builds its comb with roll_off=None.  gn_model_analytic never looks
at the roll-off; ggn_spectrally_separated / ggn_approx do:  TypeError in NliSolver._generalized_psi
(`pump_baud_rate * (1 + pump_roll_off)`).  The request is then neither feasible nor blocked (C13: the verdict of a
bidirectional request is taken on the reverse path too).
"""
import copy
import logging
import sys
import traceback
from pathlib import Path

import gnpy
from gnpy.core.parameters import SimParams
from gnpy.tools.json_io import load_equipment, load_network, load_json
from gnpy.tools.worker_utils import designed_network, planning

logging.disable(logging.CRITICAL)
D = Path(gnpy.__file__).parent / 'example-data'
rc = 0
for method in ('gn_model_analytic', 'ggn_approx', 'ggn_spectrally_separated'):
    SimParams.set_params({'nli_params': {'method': method, 'dispersion_tolerance': 4, 'phase_shift_tolerance': 0.1,
                                         'computed_channels': [1, 40]},
                          'raman_params': {'flag': False}})
    eq = load_equipment(D / 'eqpt_config.json')
    net = load_network(D / 'meshTopologyExampleV2.json', eq)
    net, _, _ = designed_network(eq, net)
    r = copy.deepcopy(load_json(D / 'meshTopologyExampleV2_services.json')['path-request'][0])
    r['source'], r['destination'] = 'trx Lorient_KMA', 'trx Vannes_KBE'
    r['src-tp-id'], r['dst-tp-id'] = r['source'], r['destination']
    r.pop('explicit-route-objects', None)
    r['bidirectional'] = True
    r['path-constraints']['te-bandwidth']['trx_mode'] = None          # automatic mode selection
    r['path-constraints']['te-bandwidth']['spacing'] = 75e9
    try:
        out = planning(net, eq, {'path-request': [r]})
        rq = out[3][0]
        print(f'{method:26s} mode {rq.tsp_mode}, blocking_reason {getattr(rq, "blocking_reason", None)}, '
              f'roll_off carried by the request: {rq.roll_off}, Z->A min GSNR '
              f'{min(out[2][0][-1].snr_01nm):.2f} dB')
    except Exception as e:                                             # noqa: the crash IS the observation
        rc = 1
        tb = traceback.extract_tb(e.__traceback__)[-1]
        print(f'{method:26s} raised {type(e).__name__}: {e}   ({Path(tb.filename).name}:{tb.lineno} {tb.name})')
SimParams.set_params({})
sys.exit(rc)
