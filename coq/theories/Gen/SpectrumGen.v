(* GENERATED on every run by harness/pygen.py from the source files of /repo named below - do not edit. *)
From Verif Require Import Prelude Model.Spectrum.
Open Scope Z_scope.

Definition slot_eqb (a b : slot) : bool :=
  match a, b with SU, SU => true | SO, SO => true | SF, SF => true | _, _ => false end.
Definition policy_eqb (a b : policy) : bool :=
  match a, b with FirstFit, FirstFit => true | LastFit, LastFit => true | _, _ => false end.
Definition is_nil {A} (l : list A) : bool := match l with [] => true | _ => false end.

(* gnpy/topology/spectrum_assignment.py: mvalue_to_slots *)
Definition g_mvalue_to_slots (nvalue mvalue : Z) : Z * Z :=
  let startn := (nvalue - mvalue) in
  let stopn := ((nvalue + mvalue) - 1) in
  (startn, stopn).

(* gnpy/topology/spectrum_assignment.py: slots_to_m *)
Definition g_slots_to_m (startn stopn : Z) : Z * Z :=
  let nvalue := (Z.quot ((startn + stopn) + 1) 2) in
  let mvalue := (Z.quot ((stopn - startn) + 1) 2) in
  (nvalue, mvalue).

(* gnpy/topology/spectrum_assignment.py: bitmap_sum *)
Definition g_bitmap_sum (band1 band2 : list slot) : list slot :=
  map (fun ab : slot * slot => let '(bit1, bit2) := ab in if ((slot_eqb bit1 SU || slot_eqb bit1 SO) || (slot_eqb bit2 SU || slot_eqb bit2 SO)) then SO else SF) (combine band1 band2).

(* gnpy/topology/spectrum_assignment.py: select_candidate *)
Definition g_select_candidate (candidates : list (Z * Z * Z)) (policy : policy) : res (option (Z * Z * Z)) :=
  if ((policy_eqb policy FirstFit) && (negb (is_nil candidates))) then Ok (hd_error candidates) else
  if ((policy_eqb policy LastFit) && (negb (is_nil candidates))) then Ok (hd_error (rev candidates)) else
  if (negb (negb (is_nil candidates))) then Ok None else
  Err "ServiceError".

(* gnpy/topology/spectrum_assignment.py: OMS.assign_spectrum *)
Definition g_assign_spectrum (b : bitmap) (nvalue mvalue : Z) : res bitmap :=
  if (mvalue <=? 0) then Err "SpectrumError" else
  if (fi_max b <? nvalue) then Err "SpectrumError" else
  if (nvalue <? fi_min b) then Err "SpectrumError" else
  let '(startn, stopn) := (g_mvalue_to_slots nvalue mvalue) in
  if (n_max b <? stopn) then Err "SpectrumError" else
  if (startn <=? n_min b) then Err "SpectrumError" else
  let* m1 := geti b startn in
  let* m2 := geti b stopn in
  Ok (set_cells b (pyslice_assign (cells b) m1 (m2 + 1) (repeat SO (Z.to_nat ((stopn - startn) + 1))))).

(* gnpy/topology/request.py: compute_spectrum_slot_vs_bandwidth *)
Definition g_compute_spectrum_slot_vs_bandwidth (bandwidth spacing bit_rate : Z) (slot_width : Z) : Z * Z :=
  let number_of_wavelengths := (cdiv bandwidth bit_rate) in
  let total_number_of_slots := ((cdiv spacing slot_width) * number_of_wavelengths) in
  (number_of_wavelengths, total_number_of_slots).

(* gnpy/topology/spectrum_assignment.py: determine_slot_numbers, condition of the growing loop *)
Definition g_dsn_cond (b : bitmap) (center_i i required_m : Z) : res bool :=
  if slice_all_free (cells b) (center_i - i) (center_i + i) (2 * i) then
  let* m1 := idx_at b (center_i - i) in
  if (fi_min b <=? m1) then
  let* m2 := idx_at b ((center_i + i) - 1) in
  if (m2 <=? fi_max b) then
  Ok (i <=? required_m) else Ok false else Ok false else Ok false.

(* gnpy/topology/spectrum_assignment.py: spectrum_selection (free N), condition and centre of a candidate *)
Definition g_cand_ok (b : bitmap) (requested_m i : Z) : res bool :=
  if slice_all_free (cells b) i (i + (2 * requested_m)) (2 * requested_m) then
  let* m1 := idx_at b i in
  if (fi_min b <=? m1) then
  let* m2 := idx_at b ((i + (2 * requested_m)) - 1) in
  Ok (m2 <=? fi_max b) else Ok false else Ok false.

Definition g_cand_centre (b : bitmap) (requested_m i : Z) : res Z :=
  let* m1 := idx_at b i in
  Ok (m1 + requested_m).

(* gnpy/topology/spectrum_assignment.py: aggregate_oms_bitmap matches its template (first bitmap copied, bitmap_sum over the others, same n_min / n_max / guard band) *)

(* gnpy/core/utils.py: replace_none matches its template *)
(* gnpy/core/utils.py: order_slots matches its template *)
(* gnpy/core/utils.py: restore_order matches its template *)

(* gnpy/topology/spectrum_assignment.py: compute_n_m, decision taken for one (N, M) of the request *)
Definition g_cnm_step (test : bitmap) (required_m remaining_slots_to_serve per_channel_m : Z) (policy : policy) (s : slot_req) : res step_res :=
  match s with
  | (Some n, Some m) =>
    let* available_slots := determine_slot_numbers test n m m in
    if (available_slots =? 0) then Ok ReturnBlocked else
    Ok (Continue n m)
  | (None, Some m) =>
    let* n_sel := select_free test m policy in
    match n_sel with None => Ok ReturnBlocked | Some n =>
    Ok (Continue n m) end
  | (Some n, None) =>
    let* m := determine_slot_numbers test n remaining_slots_to_serve per_channel_m in
    if ((m =? 0) || (remaining_slots_to_serve <=? 0)) then Ok Break else
    Ok (Continue n m)
  | (None, None) =>
    if (remaining_slots_to_serve <=? 0) then Ok Break else
    let* n_sel := select_free test remaining_slots_to_serve policy in
    match n_sel with None => Ok Break | Some n =>
    let m := remaining_slots_to_serve in
    Ok (Continue n m) end
  end.

(* gnpy/topology/spectrum_assignment.py: pth_assign_spectrum, one request *)
Definition g_pth_assign_one (policy : policy) (st : state) (rq : request) : res (state * outcome) :=
  if pre_blocked rq then Ok (st, Skipped) else
  let '(nb_wl, required_m) :=
    g_compute_spectrum_slot_vs_bandwidth (bandwidth rq) (spacing rq) (bit_rate rq) slot_width in
  let '(_, per_channel_m) :=
    g_compute_spectrum_slot_vs_bandwidth (bit_rate rq) (spacing rq) (bit_rate rq) slot_width in
  if all_m_defined (slots rq) &&
     (let nb_channels_of_request :=
        fold_left (fun acc s => match snd s with Some m => acc + (m / per_channel_m) | None => acc end) (slots rq) 0 in
      (nb_channels_of_request <? nb_wl))
  then Ok (st, Blocked "NOT_ENOUGH_RESERVED_SPECTRUM") else
  let* r := compute_n_m st required_m per_channel_m policy (slots rq) (path_oms rq) in
  let '(selected_n, selected_m, remaining_slots_to_serve) := r in
  if (0 <? remaining_slots_to_serve) then Ok (st, Blocked "NO_SPECTRUM") else
  let* st' := commit st (path_oms rq) selected_n selected_m (rid rq) nb_wl in
  Ok (st', Accepted selected_n selected_m).
