(* GENERATED on every run by harness/pygen.py from the source files of /repo named below - do not edit. *)
From Verif Require Import Prelude Model.Spectrum.
Open Scope Z_scope.

Definition slot_eqb (a b : slot) : bool :=
  match a, b with SU, SU => true | SO, SO => true | SF, SF => true | _, _ => false end.
Definition policy_eqb (a b : policy) : bool :=
  match a, b with FirstFit, FirstFit => true | LastFit, LastFit => true | _, _ => false end.
Definition is_nil {A} (l : list A) : bool := match l with [] => true | _ => false end.

(* gnpy/topology/spectrum_assignment.py: mvalue_to_slots *)
Definition g_mvalue_to_slots (nvalue mvalue : Z) : Z * Z :=
  let startn := (nvalue - mvalue) in
  let stopn := ((nvalue + mvalue) - 1) in
  (startn, stopn).

(* gnpy/topology/spectrum_assignment.py: slots_to_m *)
Definition g_slots_to_m (startn stopn : Z) : Z * Z :=
  let nvalue := (Z.quot ((startn + stopn) + 1) 2) in
  let mvalue := (Z.quot ((stopn - startn) + 1) 2) in
  (nvalue, mvalue).

(* gnpy/topology/spectrum_assignment.py: bitmap_sum *)
Definition g_bitmap_sum (band1 band2 : list slot) : list slot :=
  map (fun ab : slot * slot => let '(bit1, bit2) := ab in if ((slot_eqb bit1 SU || slot_eqb bit1 SO) || (slot_eqb bit2 SU || slot_eqb bit2 SO)) then SO else SF) (combine band1 band2).

(* gnpy/topology/spectrum_assignment.py: select_candidate *)
Definition g_select_candidate (candidates : list (Z * Z * Z)) (policy : policy) : res (option (Z * Z * Z)) :=
  if ((policy_eqb policy FirstFit) && (negb (is_nil candidates))) then Ok (hd_error candidates) else
  if ((policy_eqb policy LastFit) && (negb (is_nil candidates))) then Ok (hd_error (rev candidates)) else
  if (negb (negb (is_nil candidates))) then Ok None else
  Err "ServiceError".

(* gnpy/topology/spectrum_assignment.py: OMS.assign_spectrum *)
Definition g_assign_spectrum (b : bitmap) (nvalue mvalue : Z) : res bitmap :=
  if (mvalue <=? 0) then Err "SpectrumError" else
  if (fi_max b <? nvalue) then Err "SpectrumError" else
  if (nvalue <? fi_min b) then Err "SpectrumError" else
  let '(startn, stopn) := (g_mvalue_to_slots nvalue mvalue) in
  if (n_max b <? stopn) then Err "SpectrumError" else
  if (startn <=? n_min b) then Err "SpectrumError" else
  let* m1 := geti b startn in
  let* m2 := geti b stopn in
  Ok (set_cells b (pyslice_assign (cells b) m1 (m2 + 1) (repeat SO (Z.to_nat ((stopn - startn) + 1))))).

(* gnpy/topology/request.py: compute_spectrum_slot_vs_bandwidth *)
Definition g_compute_spectrum_slot_vs_bandwidth (bandwidth spacing bit_rate : Z) (slot_width : Z) : Z * Z :=
  let number_of_wavelengths := (cdiv bandwidth bit_rate) in
  let total_number_of_slots := ((cdiv spacing slot_width) * number_of_wavelengths) in
  (number_of_wavelengths, total_number_of_slots).
