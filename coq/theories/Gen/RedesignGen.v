(* GENERATED on every run by harness/pygen_c17.py from gnpy/core/elements.py, parameters.py and network.py of /repo -
   do not edit. *)
From Coq Require Import QArith Qminmax.
From Verif Require Import Prelude Model.Chain Model.Redesign.
Open Scope Q_scope.

(* names the translator of harness/pygen_c09.py uses, in terms of Model/Redesign.v *)
Definition c_voa_step (c : scfg) : Q := s_vstep c.
Definition c_voa_margin (c : scfg) : Q := s_margin c.
Definition round2float (x step : Q) : Q := r2f x step.

(* elements.Edfa.to_json: the operational block (effective_gain, delta_p, tilt_target, out_voa, in_voa as options; the local tilt_target is self.tilt_target with -0.0 written 0) *)
Definition g_edfa_gain (gain dp tilt voa in_voa : option Q) : option Q := (match gain with Some v => Some (round_dec 6 v) | None => None end).
Definition g_edfa_dp (gain dp tilt voa in_voa : option Q) : option Q := dp.
Definition g_edfa_tilt (gain dp tilt voa in_voa : option Q) : option Q := (match tilt with Some v => Some (round_dec 5 v) | None => None end).
Definition g_edfa_voa (gain dp tilt voa in_voa : option Q) : option Q := voa.
Definition g_edfa_invoa (gain dp tilt voa in_voa : option Q) : option Q := in_voa.

(* elements.Fiber.to_json: length in km, loss_coef in dB/km, whether lumped_losses (n of them) are exported; pmd_coef exported iff params.pmd_coef_defined (template) *)
Definition g_fiber_len_km (len : Q) : Q := (round_dec 6 (len * (1 # 1000))).
Definition g_fiber_lc_km (lc : Q) : Q := (round_dec 6 (lc * 1000)).
Definition g_fiber_lumped_exported (n : Z) : bool := (0 <? n)%Z.

(* elements.Roadm.to_json: whether the n node-level design bands are exported *)
Definition g_roadm_bands_exported (n : Z) : bool := (1 <=? n)%Z.

(* elements.Multiband_amplifier.to_json matches its template *)
(* elements.RamanFiber.to_json matches its template *)
(* elements.Fused.to_json matches its template *)

(* parameters.FiberParams: its properties, i.e. the keys Parameters.asdict copies for a split fibre (asdict / FiberParams.asdict / pmd_coef_defined match their templates) *)
Definition g_fiberparams_properties : list string :=
  ["length"; "att_in"; "con_in"; "con_out"; "lumped_losses"; "dispersion"; "f_dispersion_ref"; "dispersion_slope"; "gamma"; "pmd_coef"; "pmd_coef_defined"; "ref_wavelength"; "ref_frequency"; "loss_coef"; "f_loss_ref"; "raman_coefficient"; "latency"]%string.

(* parameters.RamanParams / NLIParams: defaults of __init__, keys of to_json *)
Definition g_raman_defaults : kw := [("flag", (JB false)); ("method", (JS "perturbative")); ("order", (JZ 2)); ("result_spatial_resolution", (JQ (inject_Z 10000))); ("solver_spatial_resolution", (JQ (inject_Z 10000)))]%string.
Definition g_raman_keys : list string := ["flag"; "method"; "order"; "result_spatial_resolution"; "solver_spatial_resolution"]%string.
Definition g_nli_defaults : kw := [("method", (JS "gn_model_analytic")); ("dispersion_tolerance", (JZ 4)); ("phase_shift_tolerance", (JQ (1 # 10))); ("computed_channels", JNone); ("computed_number_of_channels", JNone)]%string.
Definition g_nli_keys : list string := ["method"; "dispersion_tolerance"; "phase_shift_tolerance"; "computed_channels"; "computed_number_of_channels"]%string.

(* parameters.SimParams.set_params matches its template *)

(* network.compute_gain_power_and_tilt_target (t = target_power(..), u = operational.delta_p; the gain-mode branch is taken iff a gain is imposed and power_mode is off: template) *)
Definition g_dp_rule (t voa : Q) : Q := (t + voa).
Definition g_dp_user (u : Q) : Q := u.
Definition g_gain_pm (node_loss deviation_db dp prev_dp prev_voa in_voa : Q) : Q := (((((node_loss + deviation_db) + dp) - prev_dp) + prev_voa) + in_voa).
Definition g_dp_gm (prev_dp node_loss deviation_db prev_voa gain_target in_voa : Q) : Q := ((((prev_dp - (node_loss + deviation_db)) - prev_voa) + gain_target) - in_voa).
Definition g_power_target (pref_total dp : Q) : Q := (pref_total + dp).

(* network.set_one_amplifier: power reduction of an amplifier with imposed type_variety; (dp, voa) returned (template) *)
Definition g_red_pm (p_max pref_total dp : Q) : Q := (Qmin 0 (p_max - (pref_total + dp))).
Definition g_red_gm (p_max pref_total prev_dp node_loss prev_voa gain_target : Q) : Q :=
  let pout := ((((pref_total + prev_dp) - node_loss) - prev_voa) + gain_target) in (Qmin 0 (p_max - pout)).

(* network.set_amplifier_voa: the automatic output VOA *)
Definition g_auto_voa (c : scfg) (pmax gmax pt gain : Q) : Q :=
  let voa := (Qmin (pmax - pt) (gmax - gain)) in
  let voa := (Qmax (Qmin ((round2float voa (c_voa_step c)) - (c_voa_margin c)) voa) 0) in
  voa.

(* network.estimate_raman_gain: SimParams saved (to_json of both entries) before set_params(sim_params), restored before the rounded estimate is returned (template); the settings in force during the solver call *)
Definition g_during_nli : option kw := None.
Definition g_during_raman : option kw := (Some [("flag", (JB true)); ("result_spatial_resolution", (JQ (inject_Z 50000))); ("solver_spatial_resolution", (JZ 100))]%string).
