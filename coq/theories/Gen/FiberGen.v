(* GENERATED on every run by harness/pygen_c05.py from the source files of /repo named below - do not edit. *)
From Coq Require Import List ZArith.
From Verif Require Import Prelude Num Model.Raman.
Import ListNotations.

(* gnpy/core/elements.py: Roadm.set_roadm_paths matches the template SETPATHS of harness/pygen_c06.py: `if impairment_id is None:` the first
   profile of the path type in library order (else the global impairment), `else:` the profile of that id or NetworkTopologyError *)
Definition g_roadm_profile {A : Type} (profiles : list (Z * Z * A)) (global : A) (path_type : Z) (impairment_id : option Z) : res A :=
  match impairment_id with
  | None => fold_right (fun p acc => let '(_, t, a) := p in if Z.eqb t path_type then Ok a else acc) (Ok global) profiles
  | Some i => fold_right (fun p acc => let '(j, _, a) := p in if Z.eqb j i then Ok a else acc)
                         (Err "NetworkTopologyError:impairment-profile-id"%string) profiles
  end.

Section FiberGen.
Context {N : Num}.
Local Open Scope num_scope.
Notation T := (NT N).

(* gnpy/core/elements.py: Fiber.propagate, attenuation applied before the span [dB] *)
Definition g_fiber_att_in (con_in att_in : T) : T :=
  (con_in + att_in).

(* gnpy/core/elements.py: Fiber.propagate, PMD update of one channel *)
Definition g_fiber_pmd_update (pmd span_pmd : T) : T :=
  (nsqrt ((nsq pmd) + (nsq span_pmd))).

(* gnpy/core/elements.py: Fiber.propagate, attenuation applied after the span [dB] *)
Definition g_fiber_att_out (con_out : T) : T :=
  con_out.

(* gnpy/core/elements.py: Fiber.propagate, the order of the three attenuations (template), in dB for one channel: in, span profile, out *)
Definition g_fiber_power_db (con_in att_in con_out span_att_db p : T) : T :=
  ((p - g_fiber_att_in con_in att_in) - span_att_db) - g_fiber_att_out con_out.

(* gnpy/core/elements.py: Fiber.propagate, `chromatic_dispersion += self.chromatic_dispersion(frequency)` and `latency += params.latency` (template) *)
Definition g_fiber_cd_lat_update (cd lat span_cd span_lat : T) : T * T :=
  (cd + span_cd, lat + span_lat).

(* gnpy/core/elements.py: RamanFiber.propagate, attenuation applied before the span [dB] *)
Definition g_ramanfiber_att_in (con_in att_in : T) : T :=
  (con_in + att_in).

(* gnpy/core/elements.py: RamanFiber.propagate, PMD update of one channel *)
Definition g_ramanfiber_pmd_update (pmd span_pmd : T) : T :=
  (nsqrt ((nsq pmd) + (nsq span_pmd))).

(* gnpy/core/elements.py: RamanFiber.propagate, attenuation applied after the span [dB] *)
Definition g_ramanfiber_att_out (con_out : T) : T :=
  con_out.

(* gnpy/core/elements.py: RamanFiber.propagate, the order of the three attenuations (template), in dB for one channel: in, span profile, out *)
Definition g_ramanfiber_power_db (con_in att_in con_out span_att_db p : T) : T :=
  ((p - g_ramanfiber_att_in con_in att_in) - span_att_db) - g_ramanfiber_att_out con_out.

(* gnpy/core/elements.py: RamanFiber.propagate, `chromatic_dispersion += self.chromatic_dispersion(frequency)` and `latency += params.latency` (template) *)
Definition g_ramanfiber_cd_lat_update (cd lat span_cd span_lat : T) : T * T :=
  (cd + span_cd, lat + span_lat).

(* gnpy/core/elements.py: Roadm.propagate, `spectral_info.pmd = sqrt(H_pmd)` for one channel (impairment = the value of the configured profile) *)
Definition g_roadm_pmd_update (x impairment : T) : T :=
  nsqrt ((nsq x) + (nsq impairment)).

(* gnpy/core/elements.py: Roadm.propagate, `spectral_info.pdl = sqrt(H_pdl)` for one channel (impairment = the value of the configured profile) *)
Definition g_roadm_pdl_update (x impairment : T) : T :=
  nsqrt ((nsq x) + (nsq impairment)).

(* gnpy/core/elements.py: Fiber.pmd *)
Definition g_fiber_pmd (pmd_coef length : T) : T :=
  (pmd_coef * (nsqrt length)).

(* gnpy/core/elements.py: Fiber.loss (lumped_lin = the linear factors self.lumped_losses) *)
Definition g_fiber_loss (loss_coef_ref length con_in con_out att_in : T) (lumped_lin : list T) : T :=
  (((((loss_coef_ref * length) + con_in) + con_out) + att_in) + (nsum (map (fun l => (lin2db (#1 / l))) lumped_lin))).

(* gnpy/core/elements.py: Fiber.chromatic_dispersion *)
Definition g_chromatic_dispersion (pi_ c_ beta2 beta3 freq ref_f length : T) : T :=
  let beta := (beta2 + (((#2 * pi_) * beta3) * (freq - ref_f))) in
  let dispersion := (((((- beta) * #2) * pi_) * (nsq ref_f)) / c_) in
  (dispersion * length).

(* gnpy/core/elements.py: Fiber.beta2, scalar dispersion without slope *)
Definition g_dispersion_noslope (frequency f_dispersion_ref dispersion : T) : T :=
  ((nsq (frequency / f_dispersion_ref)) * dispersion).

(* gnpy/core/elements.py: Fiber.beta2, scalar dispersion with slope *)
Definition g_dispersion_slope (c_ frequency f_dispersion_ref dispersion slope : T) : T :=
  let wavelength := (c_ / frequency) in
  (dispersion + (slope * (wavelength - (c_ / f_dispersion_ref)))).

(* gnpy/core/elements.py: Fiber.beta2 *)
Definition g_beta2 (pi_ c_ frequency dispersion : T) : T :=
  ((- ((nsq (c_ / frequency)) * dispersion)) / ((#2 * pi_) * c_)).

(* gnpy/core/elements.py: Fiber.beta3, scalar dispersion with slope *)
Definition g_beta3_slope (pi_ c_ frequency slope beta2 : T) : T :=
  ((slope - ((((#4 * pi_) * ((frequency * frequency) * frequency)) / (nsq c_)) * beta2)) / (nsq (((#2 * pi_) * (nsq frequency)) / c_))).

(* gnpy/core/elements.py: Fiber.__init__, lumped loss [dB] -> linear factor *)
Definition g_lumped_lin (loss_db : T) : T :=
  (db2lin (- loss_db)).

(* gnpy/core/elements.py: Fiber.__init__, lumped position [km] -> [m]; the range test 0 < z < 0.001 * length is part of the template *)
Definition g_lumped_pos_m (pos_km : T) : T :=
  (pos_km * #1000).

(* gnpy/core/parameters.py: FiberParams.__init__, self._latency *)
Definition g_latency (c_ length n1 : T) : T :=
  (length / (c_ / n1)).

(* gnpy/core/science_utils.py: RamanSolver._create_lumped_losses matches its template: sorted distinct positions, the values of a position accumulate (Model/Fiber.v merge_grid) *)

(* gnpy/core/science_utils.py: RamanSolver 'numerical' (Euler) update of one wave: p = its power, src = all powers at the previous point *)
Definition g_euler_wave (p a : T) (row src : list T) (dz ll : T) : T :=
  ((p * (#1 + (((- a) + (ndot row src)) * dz))) * ll).

(* gnpy/core/science_utils.py: RamanSolver.iterative_algorithm, dpdz of one wave (src = all powers at the source point: [:, i - 1] forward, [:, -i] backward) *)
Definition g_iter_dpdz (a : T) (row src : list T) : T :=
  ((- a) + (ndot row src)).

(* gnpy/core/science_utils.py: RamanSolver.iterative_algorithm, forward update of a co-propagating wave (indices [i - 1]) *)
Definition g_iter_fwd (p g dz ll : T) : T :=
  ((p * (#1 + (g * dz))) * ll).

(* gnpy/core/science_utils.py: RamanSolver.iterative_algorithm, backward update of a counter-propagating wave (indices [-i], dz[-i], lumped_losses[-i]) *)
Definition g_iter_bwd (p g dz ll : T) : T :=
  ((p * (#1 + (g * dz))) * ll).

End FiberGen.
